#!/venv/bin/python
"""Runs the repository's pinned test suite (guard off) and compares it with /root/.vp/BASELINE.json:
every stable_pass test must pass.  Exit 0 iff so."""
import json
import os
import subprocess
import sys
import tempfile
import xml.etree.ElementTree as ET

base = json.load(open("/root/.vp/BASELINE.json"))
env = dict(os.environ)
env.pop("BOB_LEARN_EM_VERIF", None)
with tempfile.TemporaryDirectory() as d:
    env["COVERAGE_FILE"] = os.path.join(d, "coverage")      # /repo/.coverage is a tracked file: leave it alone
    x = os.path.join(d, "junit.xml")
    cmd = base["cmd"].replace("<file>", x)
    p = subprocess.run(cmd, shell=True, env=env, capture_output=True, text=True)
    passed = set()
    for tc in ET.parse(x).getroot().iter("testcase"):
        if not any(c.tag in ("failure", "error", "skipped") for c in tc):
            passed.add(tc.get("classname") + "::" + tc.get("name"))
missing = [t for t in base["stable_pass"] if t not in passed]
print("baseline: %d/%d stable tests pass" % (len(base["stable_pass"]) - len(missing), len(base["stable_pass"])))
for t in missing:
    print("NOT PASSING:", t)
sys.exit(1 if missing else 0)
