#!/bin/sh
# tools/seeds.sh "<seeds>" [ids...] : quick tier under several VERIF_SEED values (false-alarm hunt)
seeds=$1; shift
for s in $seeds; do
  echo "== VERIF_SEED=$s"
  VERIF_SEED=$s VERIF_NO_EVIDENCE=1 tools/run_all.sh quick "$@"
done
