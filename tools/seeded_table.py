#!/usr/bin/env python3
"""Regenerates the table of seeded changes in DESIGN.md (between the SEEDED-TABLE markers) from seeded/*/meta.json."""
import glob
import json
import os

ROOT = os.path.dirname(os.path.dirname(os.path.abspath(__file__)))
rows = []
for p in sorted(glob.glob(os.path.join(ROOT, "seeded", "*", "meta.json"))):
    m = json.load(open(p))
    caught = []
    for c, v in sorted(m.get("checks_run", {}).items()):
        if v["exit"] == 1:
            caught.append("%s (%s)" % (c, ", ".join(x.split(":", 1)[-1] for x in v["clauses"][:2])))
    earlier = ""
    if m.get("history"):
        miss = sorted({c for h in m["history"] for c, v in h.get("earlier_checks_run", {}).items()
                       if v["exit"] == 0 and c == m["property"]})
        if miss:
            earlier = "; missed by " + ", ".join(miss) + " as first built, caught after the check was strengthened"
    suite = m.get("suite_with_change")
    st = "%d/%d" % (suite["stable_passing"], suite["of"]) if suite else "n/r"
    rows.append("| `%s` | %s | %s | %s | %s%s |" % (m["name"], m["property"], m.get("needs", "").replace("|", "/"), st,
                                                  "; ".join(caught) or "NOT CAUGHT", earlier))
table = ["| seeded change | property | needs, in order to manifest | suite with change | caught by (quick tier) |", "|---|---|---|---|---|"] + rows
d = open(os.path.join(ROOT, "DESIGN.md")).read()
a, b = "<!-- SEEDED-TABLE-BEGIN -->", "<!-- SEEDED-TABLE-END -->"
if a in d:
    d = d[:d.index(a) + len(a)] + "\n" + "\n".join(table) + "\n" + d[d.index(b):]
    open(os.path.join(ROOT, "DESIGN.md"), "w").write(d)
print("\n".join(table))
