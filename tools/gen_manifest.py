#!/usr/bin/env python3
"""Generates /verif/MANIFEST.json from the table below (one source for the per-property claims)."""
import json
import os

ROOT = os.path.dirname(os.path.dirname(os.path.abspath(__file__)))

TRUST = ("TLC/SANY and the CommunityModules; the transcription of the code into TLA+ actions (bound by replay on every "
         "exported state); concretisation/projection functions; float tolerance 1e-8 against exact rationals; "
         "cloudpickle round trips as the model of worker isolation")

CHECKS = {
    "C06": dict(
        text="TLC exhaustively checks the exact-rational k-means model (specs/KMeans.tla + TrainLoop.tla) for descent of the "
             "true distortion, centroid = mean of members, reported criterion = mean squared distance, and the stopping rule, "
             "over every small configuration (all data multisets on a grid, all initial centroid pairs, row compositions, caps, "
             "thresholds, ties explored nondeterministically); every exported scenario is replayed through KMeansMachine.fit "
             "(NumPy and Dask) and must follow a path of TLC's state graph; seeded real-valued runs with random / k-means|| "
             "initialisation are recorded as rank traces and validated by TLC against specs/TraceLoop.tla.",
        ref="DESIGN.md section 5 (C06)",
        technique="TLA+/TLC exhaustive model checking + state-graph replay into KMeansMachine + TLC trace validation",
        note=TRUST + "; exact model bounded to <= 6 samples / 3 clusters / 2 features; ascent on larger real-valued data only "
             "through rank-abstracted traces"),
}

CHECKS["C20"] = dict(
    text="TLC checks specs/KMeansStats.tla exhaustively: distances are the exact squared Euclidean distances, labels are nearest "
         "centroids, cluster weights are member fractions and variances the biased member variances for every row composition "
         "and every order of the per-block tasks, the GMM hand-over is exact, and all of it is translation invariant; every "
         "exported scenario is replayed through transform / predict (batch, single sample, Dask), "
         "get_variances_and_weights_for_each_cluster (NumPy and chunked Dask, shared and isolated task execution) and the "
         "k-means-initialised GMM at harness-level offsets 0, 1e4 and 1e8.",
    ref="DESIGN.md section 5 (C20)",
    technique="TLA+/TLC exhaustive model checking + replay of every exported scenario at several offsets",
    note=TRUST + "; ties excluded as the property states; large offsets rest on the TLC-checked translation invariance")
CHECKS["C17"] = dict(
    text="TLC checks specs/GmmMachine.tla (the object with its two caches modelled by the value they were computed from; setters, "
         "M-steps through the setters, copy, pickle, save/load transcribed step by step) for CacheCoherent, VarAboveCurrentFloor "
         "and FreshEquivalent on every reachable state, i.e. for all call orders; four named deviations must be refuted. One "
         "implementation test per edge of the exported state graph: the source state is reached by a BFS path of public calls, "
         "the operation applied, visible parameters compared with the model, and likelihoods / statistics compared with a "
         "freshly built machine and with an independent evaluation of the mixture density of the visible parameters.",
    ref="DESIGN.md section 5 (C17)",
    technique="TLA+/TLC model checking of the object life cycle + one implementation test per state-graph edge",
    note=TRUST + "; abstract domain of 2 components x 1..2 features with values from small sets closed under clamping; private "
         "cache attributes are never read")
CHECKS["C18"] = dict(
    text="TLC checks specs/GmmPersist.tla (writer and reader transcribed field by field, legacy reader, UBM check, statistics "
         "containers) for round-trip of parameters and of every recorded training setting, writability of every valid "
         "configuration, refusal of MAP files without a UBM, save-load-save stability and legacy equivalence over all "
         "configurations and all sequences of save/load operations; three deviations transcribing the pre-repair reader/writer "
         "must be refuted. Each edge is executed with real temporary HDF5 files (by path and by open handle, constructor-from-"
         "file and load-into-existing of another shape): bit-identical arrays, package equality, identical scores, restored "
         "configuration and an identical continued fit.",
    ref="DESIGN.md section 5 (C18)",
    technique="TLA+/TLC model checking of reader/writer field lists + per-edge replay with real HDF5 files",
    note=TRUST + "; visible parameters are abstracted to a tag in the model and checked bit for bit on the real objects")
CHECKS["C02"] = dict(
    text="TLC checks specs/GmmStats.tla (containers on a heap with a ghost bag of covered samples; E-step per block, + creating "
         "a new container, += mutating its left operand, refused shape mismatch, zero accumulators from the constructor / resize / "
         "init_fields and reset of a retired container) for ValueIsSumOfCovers, NNonNegSumsToT, "
         "SameCoversSameValue, AddDoesNotMutate and MismatchRefused over every set partition of the samples and every order and "
         "kind of combination; exhaustive and simulated behaviours are replayed on real GMMStats objects (NumPy and Dask input): "
         "after every operation every container must equal the sum of the single-sample statistics TLC says it covers, and "
         "single-sample statistics are compared with an independently evaluated posterior.",
    ref="DESIGN.md section 5 (C02)",
    technique="TLA+/TLC model checking of the statistics heap + behaviour replay on real GMMStats objects",
    note=TRUST + "; responsibilities are abstract in the model, their numeric values come from the implementation's "
         "single-sample E-step, itself compared with an independent evaluation")

CHECKS["C01"] = dict(
    text="TLC checks specs/GmmDensity.tla over specs/LogTerm.tla: with weights, variances and floors restricted to 2^i 3^j 5^k "
         "every weighted per-component log-density is an exact symbolic term q + p log 2pi + l2 log 2 + l3 log 3 + l5 log 5; the "
         "cached-normaliser formula equals the declarative product of normalised 1-D Gaussians for every machine / sample of "
         "the domain (active floors, far tails, mixed scales), rows score identically alone, in a batch and in any chunk, and "
         "the affine shift law holds; three deviations must be refuted. Every exported scenario is replayed: "
         "log_weighted_likelihood against the exported terms, log_likelihood against their 60-digit log-sum-exp, single "
         "vector / NumPy batch / every row-chunked Dask array, statistics log-likelihood, tails finite; quadrature of "
         "exp(log_likelihood) gives 1.",
    ref="DESIGN.md section 5 (C01)",
    technique="TLA+/TLC exact symbolic evaluation + replay of every scenario against a 60-digit evaluator",
    note=TRUST + "; pure numeric function: TLC contributes exhaustive enumeration and the exact symbolic oracle; the final "
         "log-sum-exp is evaluated by stdlib decimal (trusted, cross-checked by quadrature)")
CHECKS["C08"] = dict(
    text="TLC checks specs/LinearScoring.tla (exact rationals): the score equals the declarative double sum, is zero for the UBM, "
         "linear in the model offset, additive over statistics, has one row per model and one column per test item, agrees "
         "between machines and arrays and between a MAP machine and its prior as UBM, is zero for zero-frame statistics under "
         "normalisation, and is affine invariant; four deviations must be refuted. Every exported scenario is replayed through "
         "linear_scoring with all input conventions; the derivative clause is validated on seeded real-valued data by a "
         "Richardson-extrapolated finite difference of the UBM log-likelihood, recorded as fact traces accepted by TLC "
         "(specs/TraceFacts.tla).",
    ref="DESIGN.md section 5 (C08)",
    technique="TLA+/TLC exhaustive model checking + scenario replay + TLC-validated fact traces",
    note=TRUST + "; the finite-difference identity needs exp/log and is decided by conformance, not by TLC")

CHECKS["C03"] = dict(
    text="TLC checks specs/GmmMStep.tla (exact rationals): for all seven non-empty update-switch sets every enabled block of the "
         "ML M-step is a stationary point of the EM auxiliary function at the values the step leaves in place, weights stay on the "
         "simplex, variances above the floor, and the step is affine equivariant; the deviating variant (variance about a frozen "
         "mean computed as E[x^2]-m^2) is refuted. ml_gmm_m_step is replayed on the exact statistics of every exported state. "
         "Seeded training runs (8 switch sets, NumPy and Dask, caps and thresholds incl. None) are recorded as rank traces of the "
         "average log-likelihood with exact comparisons of the reported criteria and validated by TLC against specs/TraceLoop.tla "
         "(monotone unless a floor is active, cap respected, no convergence before step 2, stop at the first crossing; thresholds "
         "placed 2 % beside the trajectory's own relative changes, threshold 0.0 on exactly stationary runs, runs without an "
         "iteration limit); specs/GmmFit.tla (which initialisation runs, how successive fit() calls and a user's "
         "initialize_gaussians() compose) is model-checked and every exported behaviour executed; the same TrainLoop guards are "
         "model-checked exhaustively inside specs/KMeans.tla.",
    ref="DESIGN.md section 5 (C03)",
    technique="TLA+/TLC model checking of the M-step + replay + TLC trace validation of training runs",
    note=TRUST + "; likelihood ascent on real-valued data needs exp/log and is decided by trace validation, not by TLC; the EM "
         "ascent theorem links block stationarity to ascent")
CHECKS["C07"] = dict(
    text="TLC checks specs/FaLatent.tla (rank-1 ISV/JFA latent updates over exact rationals, one step from ANY small-rational "
         "latent state): each block update lands on the conditional mode (gradient of the joint log-posterior J vanishes, block "
         "precision positive), J never decreases along updates and enrolment iterations, affine invariance; the deviation "
         "JFA_FN_Y_MINUS_DZ is refuted. Every exported edge is replayed through update_y / compute_latent_x / update_z / enroll; "
         "seeded real-valued enrolments with 1..K iterations are recorded as rank traces of an independently evaluated J (plus "
         "J_K <= J(mode) and convergence of the gap) and validated by TLC.",
    ref="DESIGN.md section 5 (C07)",
    technique="TLA+/TLC inductive one-step model checking + edge replay + TLC trace validation",
    note=TRUST + "; rank 1, C<=2, D=1 in the exact model; the independent NumPy evaluation of J and of the posterior mode is "
         "trusted and self-checked at every run")
CHECKS["C09"] = dict(
    text="TLC checks specs/JfaPhases.tla: a control layer transcribing JFAMachine.fit with subspaces as version tags (phase order, "
         "hand-over of the point estimates computed with the final subspace, z = 0 in the V and U phases, every E-step sees the "
         "current subspace) and a numeric layer at rank 1 over exact rationals (posterior moments satisfy the normal equations, "
         "accumulators are the moments, M-steps solve their normal equations, the auxiliary function does not decrease); five "
         "deviations are refuted. Every numeric state is replayed through the public per-phase steps; recorded call sequences of "
         "the real fit (methods wrapped on the instance) must equal TLC's behaviour and are validated by specs/TraceJfa.tla; "
         "per-phase marginal likelihoods (independent NumPy evaluators, checked against quadrature) are validated as rank traces.",
    ref="DESIGN.md section 5 (C09)",
    technique="TLA+/TLC model checking (control + numeric layers) + replay + TLC trace validation of recorded fits",
    note=TRUST + "; marginal likelihoods contain log-determinants and are decided by trace validation with independent evaluators")
CHECKS["C10"] = dict(
    text="TLC checks specs/IVector.tla (exact rationals, dim_t 1..2, one step from any small (T, sigma)): the projection solves the "
         "posterior system, zero-frame statistics give the zero vector, the M-step solves its normal equations with the zero-matrix "
         "guard, updated covariances respect the floor and stay finite (zero-count component), affine invariance; the deviation "
         "IVECTOR_SIGMA_DIV_ZERO_COUNT is refuted. Every exported state is replayed through project / transform / e_step / m_step; "
         "marginal-likelihood rank traces of seeded trainings (module-level steps and fit) are validated by TLC.",
    ref="DESIGN.md section 5 (C10)",
    technique="TLA+/TLC inductive one-step model checking + state replay + TLC trace validation",
    note=TRUST + "; the marginal likelihood evaluator is independent NumPy code checked against quadrature at every run")
CHECKS["C11"] = dict(
    text="TLC checks specs/FaScore.tla (exact rationals, rank 1): the channel factor solves its posterior system, the score is the "
         "frame-normalised linear score of the client mean with the UBM shifted by U x, scoring a list equals scoring the sum, "
         "transform equals estimate_ux; five deviations are refuted. Every exported scenario is replayed through estimate_x, "
         "estimate_ux, score and (one-component case) the array entry points; agreement of the array-level entry points "
         "(score/enroll/fit_using_array, ISVMachine.transform) with the statistics-level ones on seeded data is recorded as fact "
         "traces validated by TLC.",
    ref="DESIGN.md section 5 (C11)",
    technique="TLA+/TLC model checking + scenario replay + TLC-validated fact traces",
    note=TRUST + "; general ranks only through the fact traces against an independent dense solve")
CHECKS["C14"] = dict(
    text="TLC checks specs/Wccn.tla and specs/Whitening.tla over exact rationals: the within-class scatter depends only on the "
         "partition (every label bijection incl. negative, non-contiguous, unsorted labels, every iteration order of the label set, "
         "every sample order), class means are looked up by class, scaling by the class count, sample mean and (N-1) covariance; "
         "two deviations are refuted. Every exported scenario is replayed through WCCN.fit / Whitening.fit (NumPy and Dask under "
         "the replaying scheduler): W lower-triangular with positive diagonal, inv(W W^T) equals the exact matrix, transformed "
         "training data have identity scatter / covariance.",
    ref="DESIGN.md section 5 (C14)",
    technique="TLA+/TLC exhaustive model checking + scenario replay",
    note=TRUST + "; Cholesky factors are characterised declaratively and checked on the real result, not computed by TLC")

CHECKS["C04"] = dict(
    text="TLC checks specs/ArrayTrain.tla: one training loop on a chunked array as a task graph run by an executor with two memory "
         "modes (tasks share the caller's objects / tasks work on serialised copies), parameters as version tags: for every "
         "number of row blocks, every feature-axis split, every update-switch set, both modes and EVERY topological order of the "
         "E-step tasks over two iterations, every block contributes exactly once with all its features at the current version "
         "and the caller's machine is fresh after each iteration; a copy-back list missing an attribute is refuted in Isolated "
         "mode only, blocks split along the feature axis are refuted. Every exported behaviour is executed on the real trainers "
         "(k-means, GMM ML/MAP, ISV/JFA fit_using_array, WCCN, whitening) under a replaying Dask scheduler that follows the "
         "model's schedule and emulates isolation by cloudpickle round trips; model, criterion and thresholded result must equal "
         "the in-memory run.",
    ref="DESIGN.md section 5 (C04)",
    technique="TLA+/TLC model checking of the task graph (all schedules, two memory modes) + replay under a replaying Dask scheduler",
    note=TRUST + "; no real multi-process cluster is started; the atomic step is a Dask task")
CHECKS["C05"] = dict(
    text="TLC checks specs/GmmMStep.tla (MAP, exact rationals): the Reynolds blend written as normal equations of the relevance-"
         "penalised objective, fixed-ratio blend, renormalised weights, no-evidence components keep the prior, relevance limits as "
         "rational inequalities, for all switch sets; the as-implemented variance blend (deviation MAP_VAR_PRIOR_MEAN_NOT_SQUARED) "
         "is refuted by TLC. map_gmm_m_step is replayed on every exported state against the intended model; a mismatch equal to the "
         "as-implemented model exactly is the open known finding D4 (KNOWN-FINDING), anything else a violation. One-iteration fits "
         "on real data against the blend of prior.acc_stats, relevance 1e12 / 1e-12 limits, and rank traces of the penalised "
         "likelihood for means-only MAP validated by TLC.",
    ref="DESIGN.md section 5 (C05), section 6 (D4)",
    technique="TLA+/TLC model checking (intended and as-implemented variants) + replay + TLC trace validation",
    note=TRUST + "; D4 is recorded, not repaired: tests/test_gmm.py::test_map_em pins the defective values")
CHECKS["C13"] = dict(
    text="TLC checks the validity invariants of the design modules with degenerate inputs in the domain: KMeans.AllFinite with "
         "fewer distinct points than clusters (the divide-by-zero deviation is refuted), GmmMStep.WeightsOnSimplex / VarAboveFloor "
         "with zero-mass components, GmmMachine.VarAboveCurrentFloor over all histories. The degenerate scenarios are walked "
         "through the real k-means (an emptied cluster must stay finite), the M-steps below the count floor, and validity flags "
         "on every iteration of GMM ML/MAP, k-means-initialised GMM and i-vector training traces from degenerate drivers are "
         "validated by TLC.",
    ref="DESIGN.md section 5 (C13)",
    technique="TLA+/TLC model checking with degenerate domains + replay + TLC trace validation of validity flags",
    note=TRUST)
CHECKS["C15"] = dict(
    text="TLC checks the exact affine laws of every design module on its small domain (GmmMStep.AffineEquivariant, "
         "KMeans.Equivariant for translations / 90-degree rotations / uniform scaling, GmmDensity.AffineShift, "
         "LinearScoring.AffineInvariant, FaLatent.AffineInvariant, IVector.AffineInvariant); metamorphic pairs on the real code "
         "(scales 1e-3..1e3 incl. negative, shifts, random rotations for k-means) for GMM ML/MAP training, log-likelihoods, "
         "linear scores, ISV/JFA enrolment / scores / training and i-vectors are recorded as fact traces validated by TLC. MAP "
         "variances are compared with the as-implemented blend: an exact match is the open known finding D4.",
    ref="DESIGN.md section 5 (C15)",
    technique="TLA+/TLC model checking of affine laws + TLC-validated metamorphic fact traces",
    note=TRUST + "; MAP with frozen means and adapted variances is excluded (C05's formula is not shift-equivariant there)")

CHECKS["C19"] = dict(
    text="TLC checks specs/Ownership.tla: a heap of caller-owned cells (training array, labels, statistics arrays, initial "
         "centroids, prior parameters, model arrays) and library-owned results, one action per public entry point (30) carrying its "
         "effect summary (reads, writes, result aliases) plus CallerOverwrites; over all call sequences of length <= 3 that reuse "
         "the same inputs: CallerCellsNeverWritten, ResultsDisjointFromInputs, ReuseGivesSameResult, "
         "LaterOverwriteDoesNotMoveModel, ModelsNeverMove; five deviations are refuted. Every exported behaviour is executed on "
         "real objects (NumPy and Dask inputs): byte snapshots of every input before/after, np.shares_memory between every "
         "returned or trained array and every input, bitwise equality of repeated calls, and trained parameters after the caller "
         "overwrites its buffers must equal exactly the written / aliased / same / moved sets TLC printed.",
    ref="DESIGN.md section 5 (C19)",
    technique="TLA+/TLC model checking of ownership effect summaries + behaviour replay with byte snapshots and shares_memory",
    note=TRUST + "; the nested probe form of score() is outside the documented domain; lazily evaluated Dask parameters "
         "(WCCN/whitening on Dask input) are computed right after fit")

CHECKS["C12"] = dict(
    text="TLC checks specs/BagTrain.tla (the regrouping of a bag of labelled statistics into per-class lists transcribed as "
         "written, for every composition into partitions incl. empty ones and every surjective labelling incl. unsorted; then "
         "the ISV loop and the three JFA phases as a task graph with version tags, both memory modes, every order of the per-class "
         "E-steps: ExactlyOncePerMStep, AllContribsAtCurrentVersion, HostFreshAfterIter, HandOverFresh) and specs/PairTree.tla "
         "(the i-vector pairwise reduction loop with odd carry for lengths 1..64, copy-back of T and sigma, Terminates); five "
         "deviations are refuted (one only in Isolated mode). fit(dask.bag, y) for ISV / JFA / i-vector is executed for the "
         "exported partitionings, schedules and memory modes under the replaying scheduler and compared with the in-memory list "
         "fit; the regrouping is also compared directly with TLC's per-class lists.",
    ref="DESIGN.md section 5 (C12)",
    technique="TLA+/TLC model checking of regrouping, task graph and reduction tree + replay under a replaying Dask scheduler",
    note=TRUST + "; the thorough replay of the EM behaviours is a stratified sample of the exported schedules")
CHECKS["C16"] = dict(
    text="TLC checks specs/Determinism.tla: the global NumPy generator as an abstract token stream, each estimator's randomness "
         "source as written (own seeded generator / reseed-global-then-draw / none), histories of perturbations and fits with "
         "sample orders and class relabellings, on fresh objects and on objects an earlier step fitted (k-means machines, WCCN, a "
         "k_means_trainer shared by GMMs): ResultIsFunctionOfMultisetAndSeed, HistoryIndependent, "
         "RandomnessComesFromOwnSeed, GlobalStreamEffectDocumented; six deviations are refuted. Sampled histories are executed "
         "in one process on the real estimators (k-means, GMM, ISV, JFA from statistics and arrays, in-memory and Dask, WCCN): "
         "every fit bitwise equal to a reference computed first, permuted samples and relabelled classes equal to 1e-8.",
    ref="DESIGN.md section 5 (C16)",
    technique="TLA+/TLC model checking of RNG-stream histories + replay of sampled histories against fresh references",
    note=TRUST + "; sample-permutation invariance of k-means / GMM is demanded with explicit initial parameters only (a seeded "
         "draw of sample indices is order dependent by construction)")

PENDING = {}


def main():
    props = [json.loads(l) for l in open(os.path.join(ROOT, "properties.jsonl"))]
    checks = []
    na = []
    for p in props:
        pid = p["id"]
        if pid in CHECKS and os.path.exists(os.path.join(ROOT, "vf", "props", pid + ".py")):
            c = CHECKS[pid]
            checks.append({
                "property_id": pid,
                "quick_cmd": "./check %s --tier quick" % pid,
                "thorough_cmd": "./check %s --tier thorough" % pid,
                "evidence_file": "evidence/%s.json" % pid,
                "replay_cmd_template": "./check %s --replay {path}" % pid,
                "engine": "tlc+replay",
                "level_claimed": {"category": "model_checking", "text": c["text"], "design_ref": c["ref"]},
                "level_note": c["note"],
                "technique": c["technique"],
            })
        else:
            na.append({"property_id": pid,
                       "reason": PENDING.get(pid, "check under construction in this round (specification and harness not "
                                                  "yet committed); not claimed until it runs green on the unchanged tree")})
    m = {
        "version": 1,
        "setup_cmd": "./setup.sh",
        "hooks": {"guard": "BOB_LEARN_EM_VERIF", "enable": "no hooks: observation through the public API and Dask's "
                  "scheduler-selection mechanism only", "baseline_off_cmd": "/verif/tools/baseline.py",
                  "source_commits": [], "add_only": True},
        "engines": [{"name": "tlc+replay", "path": "vf/", "serves_properties": [c["property_id"] for c in checks],
                     "kind_free_text": "TLA+ specifications (specs/*.tla) model-checked by TLC; TLC-exported state graphs "
                                       "replayed into the implementation; recorded executions validated by TLC trace "
                                       "specifications"}],
        "checks": checks,
        "not_applicable": na,
        "notes": "fix: commits in /repo are listed in known_findings.json; see DESIGN.md",
    }
    with open(os.path.join(ROOT, "MANIFEST.json"), "w") as f:
        json.dump(m, f, indent=1)
    print("MANIFEST.json: %d checks, %d not claimed" % (len(checks), len(na)))


if __name__ == "__main__":
    main()
