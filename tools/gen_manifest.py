#!/usr/bin/env python3
"""Generates /verif/MANIFEST.json from the table below (one source for the per-property claims)."""
import json
import os

ROOT = os.path.dirname(os.path.dirname(os.path.abspath(__file__)))

TRUST = ("TLC/SANY and the CommunityModules; the transcription of the code into TLA+ actions (bound by replay on every "
         "exported state); concretisation/projection functions; float tolerance 1e-8 against exact rationals; "
         "cloudpickle round trips as the model of worker isolation")

CHECKS = {
    "C06": dict(
        text="TLC exhaustively checks the exact-rational k-means model (specs/KMeans.tla + TrainLoop.tla) for descent of the "
             "true distortion, centroid = mean of members, reported criterion = mean squared distance, and the stopping rule, "
             "over every small configuration (all data multisets on a grid, all initial centroid pairs, row compositions, caps, "
             "thresholds, ties explored nondeterministically); every exported scenario is replayed through KMeansMachine.fit "
             "(NumPy and Dask) and must follow a path of TLC's state graph; seeded real-valued runs with random / k-means|| "
             "initialisation are recorded as rank traces and validated by TLC against specs/TraceLoop.tla.",
        ref="DESIGN.md section 5 (C06)",
        technique="TLA+/TLC exhaustive model checking + state-graph replay into KMeansMachine + TLC trace validation",
        note=TRUST + "; exact model bounded to <= 6 samples / 3 clusters / 2 features; ascent on larger real-valued data only "
             "through rank-abstracted traces"),
}

PENDING = {}


def main():
    props = [json.loads(l) for l in open(os.path.join(ROOT, "properties.jsonl"))]
    checks = []
    na = []
    for p in props:
        pid = p["id"]
        if pid in CHECKS and os.path.exists(os.path.join(ROOT, "vf", "props", pid + ".py")):
            c = CHECKS[pid]
            checks.append({
                "property_id": pid,
                "quick_cmd": "./check %s --tier quick" % pid,
                "thorough_cmd": "./check %s --tier thorough" % pid,
                "evidence_file": "evidence/%s.json" % pid,
                "replay_cmd_template": "./check %s --replay {path}" % pid,
                "engine": "tlc+replay",
                "level_claimed": {"category": "model_checking", "text": c["text"], "design_ref": c["ref"]},
                "level_note": c["note"],
                "technique": c["technique"],
            })
        else:
            na.append({"property_id": pid,
                       "reason": PENDING.get(pid, "check under construction in this round (specification and harness not "
                                                  "yet committed); not claimed until it runs green on the unchanged tree")})
    m = {
        "version": 1,
        "setup_cmd": "./setup.sh",
        "hooks": {"guard": "BOB_LEARN_EM_VERIF", "enable": "no hooks: observation through the public API and Dask's "
                  "scheduler-selection mechanism only", "baseline_off_cmd": "/verif/tools/baseline.py",
                  "source_commits": [], "add_only": True},
        "engines": [{"name": "tlc+replay", "path": "vf/", "serves_properties": [c["property_id"] for c in checks],
                     "kind_free_text": "TLA+ specifications (specs/*.tla) model-checked by TLC; TLC-exported state graphs "
                                       "replayed into the implementation; recorded executions validated by TLC trace "
                                       "specifications"}],
        "checks": checks,
        "not_applicable": na,
        "notes": "fix: commits in /repo are listed in known_findings.json; see DESIGN.md",
    }
    with open(os.path.join(ROOT, "MANIFEST.json"), "w") as f:
        json.dump(m, f, indent=1)
    print("MANIFEST.json: %d checks, %d not claimed" % (len(checks), len(na)))


if __name__ == "__main__":
    main()
