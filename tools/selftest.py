#!/venv/bin/python
"""Binding demonstrations (DESIGN.md section 9): a corrupted trace or a corrupted exported model state must be
rejected.  Writes /verif/selftest.json; exit 0 iff every corruption was rejected with the expected clause
and every uncorrupted case accepted."""
import copy
import json
import os
import sys

sys.path.insert(0, os.path.dirname(os.path.dirname(os.path.abspath(__file__))))
os.environ["VERIF_NO_EVIDENCE"] = "1"
from fractions import Fraction as F

from vf import kmeans_model as km
from vf import traces
from vf.common import Check, pin_repo, key

em = pin_repo()
ck = Check("SELFTEST", "quick", 0)
results = []


def expect(name, got, want):
    ok = got == want
    results.append({"case": name, "verdict": got, "expected": want, "ok": ok})
    print("%-55s %-28s %s" % (name, got, "ok" if ok else "UNEXPECTED (wanted %s)" % want))


def it(k, rank, rel="gt", guard=False, valid=True):
    return {"ev": "Iter", "k": k, "rank": rank, "rel": rel, "guard": guard, "valid": valid, "why": ""}


def stop(k):
    return {"ev": "Stop", "k": k, "rank": 0, "rel": "na", "guard": False, "valid": True, "why": ""}


good = {"kind": "t", "cap": 4, "thr": True, "dir": "up", "ev": [it(1, 0, "na"), it(2, 1), it(3, 2, "le"), stop(3)]}
cases = {"uncorrupted": (good, "ok")}
c = copy.deepcopy(good); c["ev"][1]["rank"] = -0 ; c["ev"][2]["rank"] = 0; c["ev"][1]["rank"] = 3
cases["rank corrupted (objective falls)"] = (c, "Monotone")
c = copy.deepcopy(good); c["rank0"] = 2; c["fromStart"] = True
cases["first iteration falls below the starting model (fromStart)"] = (c, "Monotone")
c = copy.deepcopy(good); c["rank0"] = 2
cases["first iteration below rank0, recorder does not claim fromStart"] = (c, "ok")
c = copy.deepcopy(good); c["rank0"] = 0; c["fromStart"] = True
cases["first iteration equal to the starting model (fromStart)"] = (c, "ok")
c = copy.deepcopy(good); c["ev"] = c["ev"][:-1]
cases["Stop event dropped"] = (c, "Stop.missing")
c = copy.deepcopy(good); c["ev"].insert(1, it(1, 0, "na"))
cases["iteration duplicated"] = (c, "Iter.stepCounter")
c = copy.deepcopy(good); c["ev"] = [it(1, 0, "na"), it(2, 1), stop(2)]
cases["stopped although the change was above the threshold"] = (c, "NoEarlyStop")
c = copy.deepcopy(good); c["ev"] = [it(1, 0, "na"), it(2, 1, "le"), it(3, 2), stop(3)]
cases["continued past a crossing"] = (c, "StopsAtFirstCrossing")
c = copy.deepcopy(good); c["cap"] = 2
cases["more iterations than the cap"] = (c, "CapRespected")
c = copy.deepcopy(good); c["ev"][1]["valid"] = False
cases["an invalid model mid-training"] = (c, "Valid")
c = copy.deepcopy(good); c["ev"] = [it(1, 0, "le"), stop(1)]
cases["convergence declared at step 1"] = (c, "NoEarlyStop")
names = list(cases)
verdicts = traces.validate(ck, "selftest", ck.work, [cases[n][0] for n in names])
for n, (v, pos) in zip(names, verdicts):
    expect("TraceLoop: " + n, v, cases[n][1])

# ---- a corrupted exported state graph must be rejected by the walker
g = km.model_run(ck, "selftest-kmeans", ck.work, 4, 1, 2, [((0,), (1,), (2,), (5,))], [((0,), (1,))], [(4,)], [3], [F(-1)])
grp = list(g.values())[0]
v = [x[1] for x in km.walk(em, grp)]
expect("KMeans walker: uncorrupted graph", v[0], "ok")
bad = copy.deepcopy(grp)
for lst in bad["edges"].values():
    for e in lst:
        if e["t"]["step"] == 2:
            e["t"]["crit"] = [e["t"]["crit"][0] + 1, e["t"]["crit"][1]]
v = [x[1] for x in km.walk(em, bad)]
expect("KMeans walker: exported criterion corrupted at step 2", v[0], "Iter")
bad = copy.deepcopy(grp)
for lst in bad["edges"].values():
    for e in lst:
        if e["t"]["step"] == 1:
            e["t"]["cent"][0][0] = [e["t"]["cent"][0][0][0] + 1, e["t"]["cent"][0][0][1]]
v = [x[1] for x in km.walk(em, bad)]
expect("KMeans walker: exported centroid corrupted at step 1", v[0], "Iter")

import shutil
shutil.rmtree(ck.work, ignore_errors=True)
out = os.path.join(os.path.dirname(os.path.dirname(os.path.abspath(__file__))), "selftest.json")
json.dump(results, open(out, "w"), indent=1)
sys.exit(0 if all(r["ok"] for r in results) else 1)
