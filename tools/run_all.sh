#!/bin/sh
# tools/run_all.sh <tier> [ids...] : run the checks one after another, print exit code and wall time of each
tier=${1:-quick}; shift
ids=${@:-$(python3 -c "import json;print(' '.join(c['property_id'] for c in json.load(open('MANIFEST.json'))['checks']))")}
for i in $ids; do
  s=$(date +%s)
  VERIF_NO_EVIDENCE=${VERIF_NO_EVIDENCE:-} ./check $i --tier $tier > .run_$i.log 2>&1
  rc=$?
  e=$(date +%s)
  echo "$i tier=$tier exit=$rc wall=$((e-s))s $(grep -E '^VIOLATION|^MACHINERY|^KNOWN' .run_$i.log | head -2 | cut -c1-160)"
done
