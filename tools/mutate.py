#!/venv/bin/python
"""tools/mutate.py <file.py> [--n N] [--seed S] [--jobs J] [--out FILE] [--only KIND,...]

Gap finder (not a registered check): applies small syntactic changes to one source file of the library on scratch
copies OUTSIDE /repo and /verif, and asks two questions of each change:
  1. does the pinned test suite's relevant test file still pass?   (if not: the tests already cover it - skipped)
  2. does one of the quick checks anchored in that file report a VIOLATION?
A change that survives both is printed for triage: it is either equivalent / outside every listed property, or a gap
in a check.  Nothing is written to /repo.  Scratch copies are removed as soon as a change is decided.

Change kinds: cmp (comparison operator), arith (binary operator), const (numeric constant), axis (axis=0 <-> axis=1),
kw (True <-> False keyword / default), del (an assignment or expression statement removed), copy (.copy() dropped),
aug (+= <-> = / -=)."""
import ast
import json
import os
import random
import shutil
import subprocess
import sys
import tempfile
from concurrent.futures import ThreadPoolExecutor

SRC = "/repo/src/bob/learn/em"
CHECKS = {
    "gmm.py": ["C01", "C02", "C03", "C05", "C13", "C17", "C18", "C15", "C19", "C04", "C08"],
    "kmeans.py": ["C06", "C20", "C04", "C15", "C16", "C19"],
    "factor_analysis.py": ["C09", "C07", "C11", "C12", "C16", "C18", "C19", "C04"],
    "ivector.py": ["C10", "C12", "C19", "C18"],
    "linear_scoring.py": ["C08", "C11"],
    "wccn.py": ["C14", "C16", "C19"],
    "whitening.py": ["C14", "C19"],
    "utils.py": ["C04", "C06", "C03"],
}
TESTS = {
    "gmm.py": ["test_gmm.py", "test_linearscoring.py", "test_picklability.py"],
    "kmeans.py": ["test_kmeans.py", "test_gmm.py"],
    "factor_analysis.py": ["test_factor_analysis.py"],
    "ivector.py": ["test_ivector.py"],
    "linear_scoring.py": ["test_linearscoring.py", "test_factor_analysis.py"],
    "wccn.py": ["test_linear.py"],
    "whitening.py": ["test_linear.py"],
    "utils.py": ["test_kmeans.py", "test_gmm.py"],
}
CMP = {ast.Lt: "<=", ast.LtE: "<", ast.Gt: ">=", ast.GtE: ">", ast.Eq: "!=", ast.NotEq: "=="}
ARITH = {ast.Add: "-", ast.Sub: "+", ast.Mult: "/", ast.Div: "*"}
SKIP_FUNCS = ("__repr__", "__str__", "_more_tags", "__getstate__", "__setstate__")


def seg(lines, node):
    return node.lineno - 1, node.col_offset, node.end_lineno - 1, node.end_col_offset


def candidates(path):
    text = open(path).read()
    lines = text.split("\n")
    tree = ast.parse(text)
    out = []

    def replace(l0, c0, l1, c1, new, kind, what):
        if l0 != l1:
            return
        line = lines[l0]
        out.append((kind, l0, line[:c0] + new + line[c1:], what))

    class V(ast.NodeVisitor):
        def __init__(self):
            self.fn = []

        def visit_FunctionDef(self, n):
            if n.name in SKIP_FUNCS:
                return
            self.fn.append(n.name)
            body = n.body
            if body and isinstance(body[0], ast.Expr) and isinstance(getattr(body[0], "value", None), ast.Constant) \
                    and isinstance(body[0].value.value, str):
                body = body[1:]
            for b in body:
                self.visit(b)
            for d in n.args.defaults + [k for k in n.args.kw_defaults if k is not None]:
                self.visit(d)
            self.fn.pop()

        def visit_Expr(self, n):
            v = n.value
            if isinstance(v, ast.Constant) and isinstance(v.value, str):
                return
            if isinstance(v, ast.Call):
                f = ast.unparse(v.func)
                if f.startswith(("logger.", "logging.", "warnings.", "print")):
                    return
                if n.lineno == n.end_lineno and self.fn:
                    ind = len(lines[n.lineno - 1]) - len(lines[n.lineno - 1].lstrip())
                    out.append(("del", n.lineno - 1, " " * ind + "pass", "statement removed: " + lines[n.lineno - 1].strip()))
            self.generic_visit(n)

        def visit_Raise(self, n):
            return

        def visit_Assert(self, n):
            return

        def visit_Assign(self, n):
            if n.lineno == n.end_lineno and self.fn and not isinstance(n.value, ast.Constant):
                ind = len(lines[n.lineno - 1]) - len(lines[n.lineno - 1].lstrip())
                tgt = ast.unparse(n.targets[0])
                if "." in tgt or "[" in tgt:
                    out.append(("del", n.lineno - 1, " " * ind + "pass", "statement removed: " + lines[n.lineno - 1].strip()))
            self.generic_visit(n)

        def visit_AugAssign(self, n):
            if n.lineno == n.end_lineno:
                line = lines[n.lineno - 1]
                for a, b in (("+=", "-="), ("-=", "+="), ("*=", "/="), ("/=", "*=")):
                    if a in line:
                        out.append(("aug", n.lineno - 1, line.replace(a, b, 1), "%s -> %s" % (a, b)))
                        if a == "+=":
                            out.append(("aug", n.lineno - 1, line.replace(a, "=", 1), "+= -> ="))
                        break
            self.generic_visit(n)

        def visit_Compare(self, n):
            if len(n.ops) == 1 and type(n.ops[0]) in CMP and n.left.end_lineno == n.comparators[0].lineno:
                l = n.left.end_lineno - 1
                a, b = n.left.end_col_offset, n.comparators[0].col_offset
                mid = lines[l][a:b]
                old = {ast.Lt: "<", ast.LtE: "<=", ast.Gt: ">", ast.GtE: ">=", ast.Eq: "==", ast.NotEq: "!="}[type(n.ops[0])]
                if old in mid:
                    replace(l, a, l, b, mid.replace(old, CMP[type(n.ops[0])], 1), "cmp", "%s -> %s" % (old, CMP[type(n.ops[0])]))
            self.generic_visit(n)

        def visit_BinOp(self, n):
            if type(n.op) in ARITH and n.left.end_lineno == n.right.lineno and not isinstance(n.left, ast.Constant) \
                    or type(n.op) in ARITH and n.left.end_lineno == n.right.lineno and not isinstance(getattr(n.left, "value", 0), str):
                l = n.left.end_lineno - 1
                a, b = n.left.end_col_offset, n.right.col_offset
                mid = lines[l][a:b]
                old = {ast.Add: "+", ast.Sub: "-", ast.Mult: "*", ast.Div: "/"}[type(n.op)]
                if mid.strip(" ()") == old:
                    replace(l, a, l, b, mid.replace(old, ARITH[type(n.op)], 1), "arith", "%s -> %s" % (old, ARITH[type(n.op)]))
            self.generic_visit(n)

        def visit_Constant(self, n):
            v = n.value
            if isinstance(v, bool) or not isinstance(v, (int, float)) or not self.fn:
                return
            if isinstance(v, int):
                new = {0: "1", 1: "2", 2: "1", -1: "-2"}.get(v, repr(v + 1))
            else:
                new = {0.5: "0.25", 2.0: "1.0", 1.0: "2.0", 0.0: "1.0"}.get(v, repr(v * 2))
            replace(*seg(lines, n), new, "const", "%r -> %s" % (v, new))

        def visit_keyword(self, n):
            if n.arg == "axis" and isinstance(n.value, ast.Constant) and n.value.value in (0, 1, -1):
                new = {0: "1", 1: "0", -1: "0"}[n.value.value]
                replace(*seg(lines, n.value), new, "axis", "axis=%r -> %s" % (n.value.value, new))
                return
            if isinstance(n.value, ast.Constant) and isinstance(n.value.value, bool):
                replace(*seg(lines, n.value), repr(not n.value.value), "kw", "%s=%r flipped" % (n.arg, n.value.value))
                return
            self.generic_visit(n)

        def visit_Call(self, n):
            if isinstance(n.func, ast.Attribute) and n.func.attr == "copy" and not n.args and n.lineno == n.end_lineno:
                l0, c0, l1, c1 = seg(lines, n)
                v0 = seg(lines, n.func.value)
                replace(l0, v0[3], l1, c1, "", "copy", ".copy() dropped")
            self.generic_visit(n)

        def visit_If(self, n):
            self.generic_visit(n)

    V().visit(tree)
    # one candidate per (line, new text)
    seen, uniq = set(), []
    for c in out:
        k = (c[1], c[2])
        if k not in seen and c[2] != lines[c[1]]:
            seen.add(k)
            uniq.append(c)
    return lines, uniq


def decide(fname, lines, cand, idx):
    kind, l, new, what = cand
    d = tempfile.mkdtemp(prefix="vf-mut-")
    res = {"file": fname, "line": l + 1, "kind": kind, "what": what, "old": lines[l].strip(), "new": new.strip()}
    try:
        shutil.copytree("/repo/src", d + "/src")
        ml = list(lines)
        ml[l] = new
        open(os.path.join(d, "src/bob/learn/em", fname), "w").write("\n".join(ml))
        env = dict(os.environ, PYTHONPATH=d + "/src", COVERAGE_FILE=d + "/cov", PYTHONDONTWRITEBYTECODE="1")
        r = subprocess.run(["/venv/bin/python", "-c", "import bob.learn.em"], env=env, capture_output=True, text=True, cwd=d)
        if r.returncode:
            res["verdict"] = "does-not-import"
            return res
        shutil.copytree("/repo/tests", d + "/tests")
        r = subprocess.run(["/venv/bin/python", "-m", "pytest", "-x", "-q", "-p", "no:cacheprovider", "--timeout=600", "--no-cov",
                            "--deselect", "tests/test_gmm.py::test_gmm_kmeans_plusplus_init",
                            "--deselect", "tests/test_gmm.py::test_gmm_kmeans_parallel_init",
                            "--deselect", "tests/test_kmeans.py::test_kmeans_fit",
                            "--deselect", "tests/test_kmeans.py::test_kmeans_fit_init_pp",
                            "--deselect", "tests/test_kmeans.py::test_kmeans_parameters"]
                           + ["tests/" + t for t in TESTS[fname]], env=env, capture_output=True, text=True, cwd=d, timeout=1500)
        if r.returncode not in (0,):
            res["verdict"] = "killed-by-tests"
            return res
        e2 = dict(os.environ, VERIF_REPO_SRC=d + "/src", VERIF_NO_EVIDENCE="1", PYTHONDONTWRITEBYTECODE="1")
        for c in CHECKS[fname]:
            r = subprocess.run(["./check", c, "--tier", "quick"], cwd="/verif", env=e2, capture_output=True, text=True, timeout=3000)
            if r.returncode == 1 and "VIOLATION" in r.stdout:
                cl = sorted({x.split("clause=")[1].split()[0] for x in r.stdout.splitlines() if "clause=" in x})
                res["verdict"] = "caught"
                res["by"] = c
                res["clauses"] = cl[:3]
                return res
            if r.returncode not in (0, 1):
                res.setdefault("machinery", []).append([c, r.returncode, (r.stdout + r.stderr)[-400:]])
        res["verdict"] = "SURVIVED"
        return res
    except subprocess.TimeoutExpired:
        res["verdict"] = "timeout"
        return res
    finally:
        shutil.rmtree(d, ignore_errors=True)


def main():
    args = sys.argv[1:]
    fname = args[0]
    opt = {"--n": "40", "--seed": "1", "--jobs": "4", "--out": "", "--only": "", "--lines": "", "--retest": ""}
    for i, a in enumerate(args):
        if a in opt:
            opt[a] = args[i + 1]
    lines, cands = candidates(os.path.join(SRC, fname))
    if opt["--only"]:
        cands = [c for c in cands if c[0] in opt["--only"].split(",")]
    if opt["--lines"]:
        lo, hi = map(int, opt["--lines"].split("-"))
        cands = [c for c in cands if lo <= c[1] + 1 <= hi]
    if opt["--retest"]:
        # only the candidates listed (as survivors) in an earlier result file
        want = {(r["line"], r["kind"], r["what"]) for r in json.load(open(opt["--retest"])) if r["file"] == fname}
        cands = [c for c in cands if (c[1] + 1, c[0], c[3]) in want]
    rng = random.Random(int(opt["--seed"]))
    rng.shuffle(cands)
    cands = cands[:int(opt["--n"])]
    print("%d candidates in %s" % (len(cands), fname), flush=True)
    out = []
    with ThreadPoolExecutor(int(opt["--jobs"])) as ex:
        for res in ex.map(lambda ic: decide(fname, lines, ic[1], ic[0]), enumerate(cands)):
            out.append(res)
            print(json.dumps(res), flush=True)
            if opt["--out"]:
                json.dump(out, open(opt["--out"], "w"), indent=1)
    tally = {}
    for r in out:
        tally[r["verdict"]] = tally.get(r["verdict"], 0) + 1
    print("TALLY", tally)


if __name__ == "__main__":
    main()
