#!/usr/bin/env python3
"""tools/confirm_seed.py <name> <dir with patch.diff and demo.py> <property id> [check ids...] [--no-suite]

Confirms a seeded change on a scratch copy of /repo (outside /repo and /verif, removed afterwards):
  1. patch.diff applies to the current /repo tree;
  2. demo.py exits non-zero with the change and zero without it;
  3. the pinned test suite still passes all stable tests with the change (unless --no-suite);
  4. runs the named checks (default: the property's own) against the changed tree and records their verdicts.
Then stores patch.diff, demo.py and meta.json under /verif/seeded/<name>/."""
import json
import os
import shutil
import subprocess
import sys
import tempfile
import xml.etree.ElementTree as ET

args = [a for a in sys.argv[1:] if not a.startswith("--")]
name, src, pid = args[0], args[1], args[2]
checks = args[3:] or [pid]
suite = "--no-suite" not in sys.argv
d = tempfile.mkdtemp(prefix="vf-seed-")
meta = {"name": name, "property": pid, "checks_run": {}, "needs": "", "ran": []}
try:
    import time
    for attempt in range(8):      # concurrent `git worktree add` calls contend for a lock
        if subprocess.run(["git", "-C", "/repo", "worktree", "add", "-q", "--detach", d + "/wt", "HEAD"]).returncode == 0:
            break
        time.sleep(1 + attempt)
    else:
        raise SystemExit("git worktree add failed")
    wt = d + "/wt"
    patch = os.path.abspath(os.path.join(src, "patch.diff"))
    demo = os.path.abspath(os.path.join(src, "demo.py"))
    env = dict(os.environ, PYTHONPATH=wt + "/src", COVERAGE_FILE=d + "/cov")
    r0 = subprocess.run(["/venv/bin/python", demo], cwd=wt, env=env, capture_output=True, text=True, timeout=1800)
    meta["demo_without_change"] = {"exit": r0.returncode, "tail": (r0.stdout + r0.stderr)[-600:]}
    ap = subprocess.run(["git", "-C", wt, "apply", patch], capture_output=True, text=True)
    meta["applies"] = ap.returncode == 0
    if ap.returncode:
        print("patch does not apply:", ap.stderr)
        sys.exit(3)
    r1 = subprocess.run(["/venv/bin/python", demo], cwd=wt, env=env, capture_output=True, text=True, timeout=1800)
    meta["demo_with_change"] = {"exit": r1.returncode, "tail": (r1.stdout + r1.stderr)[-900:]}
    meta["ran"].append("demo.py with and without the change (PYTHONPATH=<scratch>/src)")
    print("demo: without=%d with=%d" % (r0.returncode, r1.returncode))
    if suite:
        base = json.load(open("/root/.vp/BASELINE.json"))
        x = d + "/junit.xml"
        cmd = base["cmd"].replace("cd /repo", "cd " + wt).replace("<file>", x)
        subprocess.run(cmd, shell=True, env=env, capture_output=True, text=True)
        passed = set()
        for tc in ET.parse(x).getroot().iter("testcase"):
            if not any(c.tag in ("failure", "error", "skipped") for c in tc):
                passed.add(tc.get("classname") + "::" + tc.get("name"))
        missing = [t for t in base["stable_pass"] if t not in passed]
        meta["suite_with_change"] = {"stable_passing": len(base["stable_pass"]) - len(missing), "of": len(base["stable_pass"]),
                                     "not_passing": missing}
        meta["ran"].append("pinned test suite on the changed scratch tree")
        print("suite: %d/%d stable tests pass with the change" % (len(base["stable_pass"]) - len(missing), len(base["stable_pass"])))
    for c in checks:
        e2 = dict(os.environ, VERIF_REPO_SRC=wt + "/src", VERIF_NO_EVIDENCE="1")
        r = subprocess.run(["./check", c, "--tier", "quick"], cwd="/verif", env=e2, capture_output=True, text=True)
        lines = [l for l in r.stdout.splitlines() if l.startswith(("VIOLATION", "KNOWN", "MACHINERY", c + ":"))]
        clauses = sorted({l.split("clause=")[1] for l in lines if "clause=" in l})
        meta["checks_run"][c] = {"exit": r.returncode, "clauses": clauses[:8]}
        meta["ran"].append("./check %s --tier quick with VERIF_REPO_SRC=<scratch>/src" % c)
        print("check %s: exit=%d %s" % (c, r.returncode, clauses[:4]))
    out = os.path.join("/verif/seeded", name)
    os.makedirs(out, exist_ok=True)
    if os.path.realpath(os.path.dirname(patch)) != os.path.realpath(out):
        shutil.copy(patch, out + "/patch.diff")
        shutil.copy(demo, out + "/demo.py")
    old = {}
    if os.path.exists(out + "/meta.json"):
        old = json.load(open(out + "/meta.json"))
    for k in ("needs", "breaks", "source", "history", "suite_with_change"):
        if k in old and not meta.get(k):
            meta[k] = old[k]
    # keep the record of earlier runs of the checks (before a check was strengthened)
    if old.get("checks_run") and old.get("checks_run") != meta["checks_run"]:
        meta.setdefault("history", old.get("history", []))
        meta["history"].append({"earlier_checks_run": old["checks_run"]})
    json.dump(meta, open(out + "/meta.json", "w"), indent=1)
finally:
    subprocess.run(["git", "-C", "/repo", "worktree", "remove", "--force", d + "/wt"], capture_output=True)
    shutil.rmtree(d, ignore_errors=True)
