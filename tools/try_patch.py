#!/usr/bin/env python3
"""tools/try_patch.py <patch.diff | sed-spec> <ID> [<ID> ...]  [--tier quick]
Applies a patch to a scratch copy of /repo/src (outside /repo and /verif), runs the named checks against it
through VERIF_REPO_SRC, prints their exit codes, removes the scratch copy.  /repo is never touched.
A "sed-spec" is  file::old::new  (literal replacement of the first occurrence in src/bob/learn/em/<file>)."""
import os
import shutil
import subprocess
import sys
import tempfile

args = [a for a in sys.argv[1:] if not a.startswith("--")]
tier = "quick"
if "--tier" in sys.argv:
    tier = sys.argv[sys.argv.index("--tier") + 1]
    args = [a for a in args if a != tier]
spec, ids = args[0], args[1:]
d = tempfile.mkdtemp(prefix="vf-mut-")
try:
    shutil.copytree("/repo/src", os.path.join(d, "src"), ignore=shutil.ignore_patterns("__pycache__"))
    if "::" in spec and not os.path.exists(spec):
        fn, old, new = spec.split("::", 2)
        p = os.path.join(d, "src/bob/learn/em", fn)
        s = open(p).read()
        old = old.encode().decode("unicode_escape")
        new = new.encode().decode("unicode_escape")
        if old not in s:
            print("pattern not found in", fn)
            sys.exit(3)
        open(p, "w").write(s.replace(old, new, 1))
    else:
        r = subprocess.run(["patch", "-p1", "-d", d, "-i", os.path.abspath(spec)], capture_output=True, text=True)
        if r.returncode:
            print(r.stdout, r.stderr)
            sys.exit(3)
    env = dict(os.environ, VERIF_REPO_SRC=os.path.join(d, "src"), VERIF_NO_EVIDENCE="1")
    for i in ids:
        r = subprocess.run(["./check", i, "--tier", tier], cwd="/verif", env=env, capture_output=True, text=True)
        lines = [l for l in r.stdout.splitlines() if l.startswith(("VIOLATION", "KNOWN", "MACHINERY", i))]
        print("%s exit=%d  %s" % (i, r.returncode, " | ".join(l[:160] for l in lines[:3])))
        if r.returncode == 2:
            print(r.stdout[-1500:], r.stderr[-1500:])
finally:
    shutil.rmtree(d, ignore_errors=True)
