#!/usr/bin/env python3
"""tools/suite_on_seed.py <seeded name> : runs the pinned test suite on a scratch worktree of /repo with the seeded
change applied (outside /repo and /verif, removed afterwards) and records the result in seeded/<name>/meta.json."""
import json
import os
import subprocess
import sys
import tempfile
import time
import xml.etree.ElementTree as ET

name = sys.argv[1]
out = os.path.join("/verif/seeded", name)
d = tempfile.mkdtemp(prefix="vf-seed-")
wt = d + "/wt"
try:
    for attempt in range(8):
        if subprocess.run(["git", "-C", "/repo", "worktree", "add", "-q", "--detach", wt, "HEAD"]).returncode == 0:
            break
        time.sleep(1 + attempt)
    else:
        raise SystemExit("git worktree add failed")
    if subprocess.run(["git", "-C", wt, "apply", os.path.join(out, "patch.diff")]).returncode:
        raise SystemExit("patch does not apply")
    base = json.load(open("/root/.vp/BASELINE.json"))
    x = d + "/junit.xml"
    env = dict(os.environ, PYTHONPATH=wt + "/src", COVERAGE_FILE=d + "/cov")
    cmd = base["cmd"].replace("cd /repo", "cd " + wt).replace("<file>", x)
    subprocess.run(cmd, shell=True, env=env, capture_output=True, text=True)
    passed = set()
    for tc in ET.parse(x).getroot().iter("testcase"):
        if not any(c.tag in ("failure", "error", "skipped") for c in tc):
            passed.add(tc.get("classname") + "::" + tc.get("name"))
    missing = [t for t in base["stable_pass"] if t not in passed]
    meta = json.load(open(out + "/meta.json"))
    meta["suite_with_change"] = {"stable_passing": len(base["stable_pass"]) - len(missing), "of": len(base["stable_pass"]),
                                 "not_passing": missing}
    if "pinned test suite on the changed scratch tree" not in meta.get("ran", []):
        meta.setdefault("ran", []).append("pinned test suite on the changed scratch tree")
    json.dump(meta, open(out + "/meta.json", "w"), indent=1)
    print(name, "suite: %d/%d" % (len(base["stable_pass"]) - len(missing), len(base["stable_pass"])), missing[:3])
finally:
    subprocess.run(["git", "-C", "/repo", "worktree", "remove", "--force", wt], capture_output=True)
    subprocess.run(["rm", "-rf", d])
