SPECIFICATION Spec
CONSTANTS N = 5
Vals = {0,1,2,3,5}
K = 2
MaxIter = 3
PROPERTY Descent
CHECK_DEADLOCK FALSE
