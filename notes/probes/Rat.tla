---- MODULE Rat ----
EXTENDS Integers
Abs(x) == IF x < 0 THEN -x ELSE x
RECURSIVE GCD(_,_)
GCD(a,b) == IF b = 0 THEN a ELSE GCD(b, a % b)
Norm(n,d) == LET s == IF d < 0 THEN -1 ELSE 1
                 g == GCD(Abs(n),Abs(d))
             IN IF n = 0 THEN <<0,1>> ELSE <<(s*n) \div g, (s*d) \div g>>
R(n) == <<n,1>>
Add(a,b) == Norm(a[1]*b[2]+b[1]*a[2], a[2]*b[2])
Sub(a,b) == Norm(a[1]*b[2]-b[1]*a[2], a[2]*b[2])
Mul(a,b) == Norm(a[1]*b[1], a[2]*b[2])
Div(a,b) == Norm(a[1]*b[2], a[2]*b[1])
Leq(a,b) == a[1]*b[2] <= b[1]*a[2]
Lt(a,b) == a[1]*b[2] < b[1]*a[2]
====
