SPECIFICATION Spec
INVARIANT Coherent
VIEW View
ACTION_CONSTRAINT Export
