import numpy as np, warnings, dask
warnings.filterwarnings("ignore"); dask.config.set(scheduler="synchronous")
from bob.learn.em import GMMMachine, JFAMachine, IVectorMachine, GMMStats
from bob.learn.em.ivector import e_step as iv_e, m_step as iv_m
rng=np.random.RandomState(3)
C,Dm=2,3
ubm=GMMMachine(C); ubm.means=rng.normal(size=(C,Dm))*2; ubm.variances=rng.uniform(.5,2,size=(C,Dm)); ubm.weights=np.array([.4,.6])
def stat(n): 
    X=rng.normal(size=(n,Dm))*1.5+ubm.means[rng.randint(0,C,size=n)]+rng.normal(size=(1,Dm)); return ubm.acc_stats(X)
S=[stat(rng.randint(5,12)) for _ in range(9)]; y=np.array([0,1,2,0,1,2,0,1,2])
m=ubm.means.flatten(); sig=ubm.variances.flatten()
def Nrep(s): return np.repeat(s.n,Dm)
def marg_V(V):
    tot=0
    for i in set(y):
        Si=[S[k] for k in np.where(y==i)[0]]
        N=sum(Nrep(s) for s in Si); F=sum(s.sum_px.flatten() for s in Si)-N*m
        L=np.eye(V.shape[1])+(V.T*(N/sig))@V; b=(V.T/sig)@F
        tot+=0.5*b@np.linalg.solve(L,b)-0.5*np.linalg.slogdet(L)[1]
    return tot
def marg_U(U,V,ly):
    tot=0
    for k,s in enumerate(S):
        N=Nrep(s); F=s.sum_px.flatten()-N*(m+V@ly[y[k]])
        L=np.eye(U.shape[1])+(U.T*(N/sig))@U; b=(U.T/sig)@F
        tot+=0.5*b@np.linalg.solve(L,b)-0.5*np.linalg.slogdet(L)[1]
    return tot
def marg_D(Dd,U,V,ly,lx):
    tot=0
    for i in set(y):
        idx=np.where(y==i)[0]; N=sum(Nrep(S[k]) for k in idx)
        F=sum(S[k].sum_px.flatten() for k in idx)-N*(m+V@ly[i])
        for j,k in enumerate(idx): F=F-Nrep(S[k])*(U@lx[i][:,j])
        L=1+Dd*Dd*N/sig; b=Dd/sig*F
        tot+=np.sum(0.5*b*b/L-0.5*np.log(L))
    return tot
jfa=JFAMachine(r_U=2,r_V=2,ubm=ubm,em_iterations=1,random_state=1)
nspc=[3,3,3]
n_acc,f_acc=jfa.initialize(S,y,3)
vals=[marg_V(jfa.V)]
for it in range(6):
    jfa.m_step_v([jfa.e_step_v(S,y,nspc,n_acc,f_acc)]); vals.append(marg_V(jfa.V))
print("V phase marginal:", np.round(vals,4), "monotone", all(np.diff(vals)>=-1e-9))
ly=jfa.finalize_v(S,y,nspc,n_acc,f_acc)
vals=[marg_U(jfa.U,jfa.V,ly)]
for it in range(6):
    jfa.m_step_u([jfa.e_step_u(S,y,nspc,ly)]); vals.append(marg_U(jfa.U,jfa.V,ly))
print("U phase marginal:", np.round(vals,4), "monotone", all(np.diff(vals)>=-1e-9))
lx=jfa.finalize_u(S,y,nspc,ly)
vals=[marg_D(jfa.D,jfa.U,jfa.V,ly,lx)]
for it in range(6):
    jfa.m_step_d([jfa.e_step_d(S,y,nspc,lx,ly,n_acc,f_acc)]); vals.append(marg_D(jfa.D,jfa.U,jfa.V,ly,lx))
print("D phase marginal:", np.round(vals,4), "monotone", all(np.diff(vals)>=-1e-9))
# ivector
def marg_iv(T,sg,means):
    tot=0
    for s in S:
        Ft=s.sum_px-s.n[:,None]*means
        St=s.sum_pxx-2*s.sum_px*means+s.n[:,None]*means**2
        L=np.eye(T.shape[2])+sum(s.n[c]*(T[c].T/sg[c])@T[c] for c in range(C))
        b=sum((T[c].T/sg[c])@Ft[c] for c in range(C))
        tot+=np.sum(-0.5*s.n[:,None]*np.log(sg)-0.5*St/sg)+0.5*b@np.linalg.solve(L,b)-0.5*np.linalg.slogdet(L)[1]
    return tot
for upd in (True,False):
    iv=IVectorMachine(ubm,dim_t=2,max_iterations=1,update_sigma=upd); iv.dim_c,iv.dim_d=C,Dm; iv.T=np.random.RandomState(2).normal(size=(C,Dm,2)); iv.sigma=ubm.variances.copy()
    vals=[marg_iv(iv.T,iv.sigma,ubm.means)]
    for it in range(6):
        iv_m(iv, iv_e(iv,S)); vals.append(marg_iv(iv.T,iv.sigma,ubm.means))
    print("ivector update_sigma",upd, np.round(vals,3), "monotone", all(np.diff(vals)>=-1e-9))
