---- MODULE KM ----
EXTENDS Integers, Sequences, FiniteSets, TLC, Rat, Json
CONSTANTS N, Vals, K, MaxIter
VARIABLES data, cent, step, crit, phase, hist
vars == <<data, cent, step, crit, phase, hist>>
Idx == 1..N
SqD(x,c) == Mul(Sub(R(x),c),Sub(R(x),c))
Nearest(x, cs) == CHOOSE k \in 1..K : \A j \in 1..K : Lt(SqD(x,cs[k]),SqD(x,cs[j])) \/ (Leq(SqD(x,cs[k]),SqD(x,cs[j])) /\ k <= j)
RECURSIVE SumR(_,_)
SumR(f, S) == IF S = {} THEN R(0) ELSE LET i == CHOOSE i \in S : TRUE IN Add(f[i], SumR(f, S \ {i}))
Members(k, cs) == {i \in Idx : Nearest(data[i], cs) = k}
Distortion(cs) == Div(SumR([i \in Idx |-> SqD(data[i], cs[Nearest(data[i],cs)])], Idx), R(N))
Init == /\ data \in [Idx -> Vals] /\ cent \in [1..K -> {R(v) : v \in Vals}]
        /\ \A i \in 1..N-1 : data[i] <= data[i+1]
        /\ cent[1][1] < cent[2][1]
        /\ step = 0 /\ crit = R(-1) /\ phase = "run" /\ hist = <<>>
Iter == /\ phase = "run" /\ step < MaxIter
        /\ \A k \in 1..K : Members(k, cent) # {}
        /\ LET newc == [k \in 1..K |-> Div(SumR([i \in Idx |-> R(data[i])], Members(k,cent)), R(Cardinality(Members(k,cent))))]
               d == Distortion(cent)
           IN /\ cent' = newc /\ crit' = d /\ step' = step+1
              /\ hist' = Append(hist, [cent |-> newc, crit |-> d])
              /\ phase' = IF step+1 >= MaxIter THEN "done" ELSE "run"
        /\ UNCHANGED data
Next == Iter
Spec == Init /\ [][Next]_vars
Descent == [][Leq(Distortion(cent'), Distortion(cent))]_vars
Out == phase = "done" => PrintT(ToJson([data |-> data, hist |-> hist]))
====
