---- MODULE TraceTL ----
EXTENDS TrainLoop, Json, IOUtils, TLCExt
Traces == JsonDeserialize(IOEnv.TRACE_FILE)
VARIABLES tid, l, step, rank, status, verdict
vars == <<tid, l, step, rank, status, verdict>>
T == Traces[tid]
Init == tid \in 1..Len(Traces) /\ l = 1 /\ step = 0 /\ rank = -1 /\ status = "run" /\ verdict = "ok"
CheckIter(e) ==
   IF status # "run" THEN "Iter.afterStop"
   ELSE IF ~MayIterate(step, T.cap) THEN "CapRespected"
   ELSE IF e.k # step + 1 THEN "Iter.stepCounter"
   ELSE IF ~e.floor /\ rank # -1 /\ e.rank < rank THEN "Monotone"
   ELSE IF ~e.valid THEN "Valid"
   ELSE "ok"
CheckStop(e) ==
   IF e.k # step THEN "Stop.atStep"
   ELSE IF e.why = "conv" /\ ~MayStopConv(step, T.ev[l-1].rel, T.thr) THEN "NoEarlyStop"
   ELSE IF e.why = "cap" /\ (T.cap = NoneV \/ step # T.cap) THEN "Stop.cap"
   ELSE "ok"
Step == /\ l <= Len(T.ev) /\ verdict = "ok"
        /\ LET e == T.ev[l] IN
           /\ verdict' = (IF e.ev = "Iter" THEN
                             \* previous iteration must not have required a stop
                             IF l > 1 /\ T.ev[l-1].ev = "Iter" /\ MustStopConv(step, T.ev[l-1].rel, T.thr) THEN "StopsAtFirstCrossing"
                             ELSE CheckIter(e)
                          ELSE CheckStop(e))
           /\ step' = IF e.ev = "Iter" THEN e.k ELSE step
           /\ rank' = IF e.ev = "Iter" THEN e.rank ELSE rank
           /\ status' = IF e.ev = "Stop" THEN "stopped" ELSE status
        /\ l' = l + 1 /\ UNCHANGED tid
Spec == Init /\ [][Step]_vars
Report == (l > Len(T.ev) \/ verdict # "ok") => PrintT(<<"VERDICT", tid, verdict, l - 1>>)
====
