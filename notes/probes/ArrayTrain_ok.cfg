SPECIFICATION Spec
CONSTANTS B = 3
MaxIter = 2
Attrs = {"weights","means","variances"}
Updated = {"means","variances"}
CopyBack = {"weights","means","variances"}
Modes = {"Shared","Isolated"}
INVARIANT HostFreshAfterIter
INVARIANT AllContribsAtCurrentVersion
INVARIANT ExactlyOnce
CHECK_DEADLOCK FALSE
