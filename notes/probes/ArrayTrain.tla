---- MODULE ArrayTrain ----
EXTENDS Integers, Sequences, FiniteSets, TLC
CONSTANTS B,            \* number of blocks
          MaxIter,
          Attrs,        \* parameter attributes of the machine
          Updated,      \* attributes the M-step rewrites (by the update switches)
          CopyBack,     \* attributes the caller copies back from the returned machine
          Modes         \* subset of {"Shared","Isolated"}
VARIABLES mode, iter, host, phase, edone, eres, mcopy, mret, order
vars == <<mode, iter, host, phase, edone, eres, mcopy, mret, order>>
Blocks == 1..B
\* host : [Attrs -> Nat]  version of each attribute in the caller's object
Ver0 == [a \in Attrs |-> 0]
Init == /\ mode \in Modes /\ iter = 0 /\ host = Ver0 /\ phase = "idle"
        /\ edone = {} /\ eres = [b \in Blocks |-> <<>>] /\ mcopy = Ver0 /\ mret = Ver0 /\ order = <<>>
\* build the graph of one iteration; in Isolated mode tasks will see a snapshot of the caller's machine
Build == /\ phase = "idle" /\ iter < MaxIter
         /\ phase' = "E" /\ edone' = {} /\ eres' = [b \in Blocks |-> <<>>]
         /\ mcopy' = host   \* the snapshot serialised with the graph (ignored in Shared mode)
         /\ order' = <<>>
         /\ UNCHANGED <<mode, iter, host, mret>>
Seen == IF mode = "Shared" THEN host ELSE mcopy
RunE(b) == /\ phase = "E" /\ b \notin edone
           /\ eres' = [eres EXCEPT ![b] = Seen]      \* statistics of block b computed at these versions
           /\ edone' = edone \cup {b} /\ order' = Append(order, b)
           /\ UNCHANGED <<mode, iter, host, phase, mcopy, mret>>
Bump(m) == [a \in Attrs |-> IF a \in Updated THEN iter + 1 ELSE m[a]]
RunM == /\ phase = "E" /\ edone = Blocks
        /\ IF mode = "Shared"
              THEN /\ host' = Bump(host) /\ mret' = Bump(host) /\ UNCHANGED mcopy   \* in-place on the caller's object
              ELSE /\ mcopy' = Bump(mcopy) /\ mret' = Bump(mcopy) /\ UNCHANGED host  \* on the worker's copy
        /\ phase' = "C" /\ UNCHANGED <<mode, iter, edone, eres, order>>
Copy == /\ phase = "C"
        /\ host' = [a \in Attrs |-> IF a \in CopyBack THEN mret[a] ELSE host[a]]
        /\ iter' = iter + 1 /\ phase' = "idle"
        /\ UNCHANGED <<mode, edone, eres, mcopy, mret, order>>
Next == Build \/ (\E b \in Blocks : RunE(b)) \/ RunM \/ Copy
Spec == Init /\ [][Next]_vars
\* ---- properties
Expected(k) == [a \in Attrs |-> IF a \in Updated THEN k ELSE 0]
HostFreshAfterIter == phase = "idle" => host = Expected(iter)
AllContribsAtCurrentVersion == phase = "C" => \A b \in Blocks : eres[b] = Expected(iter)
ExactlyOnce == phase = "C" => Len(order) = B /\ {order[i] : i \in 1..B} = Blocks
View == <<mode, iter, host, phase, edone, eres, mcopy, mret>>
====
