SPECIFICATION Spec
CONSTANTS N = 3
XV <- MC_XV
RV <- MC_RV
MV <- MC_MV
Dev = FALSE
INVARIANT MLStationary
INVARIANT MeanStationary
CHECK_DEADLOCK FALSE
