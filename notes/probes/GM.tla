---- MODULE GM ----
EXTENDS Integers, Sequences, TLC, Json
VARIABLES var, floor, gtag, last
vars == <<var, floor, gtag, last>>
Vals == {1,2,4}
Max(a,b) == IF a > b THEN a ELSE b
Init == var = 2 /\ floor = 1 /\ gtag = 2 /\ last = [op |-> "init", arg |-> 0]
SetV(v) == /\ var' = Max(floor, v) /\ gtag' = Max(floor, v) /\ UNCHANGED floor /\ last' = [op |-> "SetV", arg |-> v]
SetF(f) == /\ floor' = f /\ var' = Max(f, var) /\ gtag' = Max(f, var) /\ last' = [op |-> "SetF", arg |-> f]
Next == \E v \in Vals : SetV(v) \/ SetF(v)
Spec == Init /\ [][Next]_vars
Coherent == gtag = var /\ var >= floor
View == <<var, floor, gtag>>
Export == PrintT(ToJson([from |-> [var |-> var, floor |-> floor], op |-> last', to |-> [var |-> var', floor |-> floor']]))
====
