SPECIFICATION Spec
CONSTRAINT Report
CHECK_DEADLOCK FALSE
