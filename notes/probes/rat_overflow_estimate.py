# emulate TLA+ Rat ops with 32-bit intermediate tracking for JFA rank-1 enrolment, C comps, D=1, H sessions
from math import gcd
import itertools, random
MAXI=0
class R:
    __slots__=("n","d")
    def __init__(s,n,d=1):
        global MAXI
        MAXI=max(MAXI,abs(n),abs(d))
        if d<0: n,d=-n,-d
        g=gcd(abs(n),d) or 1
        s.n=n//g; s.d=d//g
    def __add__(a,b): return R(a.n*b.d+b.n*a.d, a.d*b.d)
    def __sub__(a,b): return R(a.n*b.d-b.n*a.d, a.d*b.d)
    def __mul__(a,b): return R(a.n*b.n, a.d*b.d)
    def __truediv__(a,b): return R(a.n*b.d, a.d*b.n)
    def __repr__(s): return f"{s.n}/{s.d}"
Z=R(0)
def run(C,H,m,sig,U,V,Dd,N,F,iters,jfa=True,sign=+1):
    # N[h][c], F[h][c]
    global MAXI
    y=Z; z=[Z]*C; x=[Z]*H
    Nt=[sum((N[h][c] for h in range(H)),Z) for c in range(C)]
    Ft=[sum((F[h][c] for h in range(H)),Z) for c in range(C)]
    for it in range(iters):
        if jfa:
            prec=R(1)+sum((V[c]*V[c]/sig[c]*Nt[c] for c in range(C)),Z)
            fn=[Ft[c]-Nt[c]*(m[c]+Dd[c]*z[c]) - sum((N[h][c]*U[c]*x[h] for h in range(H)),Z) for c in range(C)]
            y=sum((V[c]/sig[c]*fn[c] for c in range(C)),Z)/prec
        for h in range(H):
            prec=R(1)+sum((U[c]*U[c]/sig[c]*N[h][c] for c in range(C)),Z)
            fn=[F[h][c]-N[h][c]*(m[c]+Dd[c]*z[c]+(V[c]*y if jfa else Z)) for c in range(C)]
            x[h]=sum((U[c]/sig[c]*fn[c] for c in range(C)),Z)/prec
        for c in range(C):
            prec=R(1)+Dd[c]*Dd[c]/sig[c]*Nt[c]
            fn=Ft[c]-Nt[c]*(m[c]+(V[c]*y if jfa else Z)) - sum((N[h][c]*U[c]*x[h] for h in range(H)),Z)
            z[c]=Dd[c]/sig[c]*fn/prec
    return y,x,z
random.seed(0)
for C,H,iters in [(1,1,2),(1,2,2),(2,1,2),(2,2,2),(1,2,3),(2,2,3),(2,2,4)]:
    worst=0; over=0; tot=0
    for _ in range(300):
        MAXI=0
        m=[R(random.choice([0,1,3])) for _ in range(C)]
        sig=[R(random.choice([1,2]),random.choice([1,2])) for _ in range(C)]
        U=[R(random.choice([-1,1,2])) for _ in range(C)]
        V=[R(random.choice([-1,1,2])) for _ in range(C)]
        Dd=[R(random.choice([1,2]),random.choice([1,2])) for _ in range(C)]
        N=[[R(random.choice([1,2,3]),random.choice([1,2])) for _ in range(C)] for _ in range(H)]
        F=[[R(random.choice([-2,0,1,4])) for _ in range(C)] for _ in range(H)]
        run(C,H,m,sig,U,V,Dd,N,F,iters)
        worst=max(worst,MAXI); over+= MAXI>=2**31; tot+=1
    print(f"C={C} H={H} iters={iters}: worst intermediate {worst:.3e}, overflow fraction {over/tot:.2f}")
print("--- single block update from arbitrary small state, gradient check")
def grad_y(C,H,m,sig,U,V,Dd,N,F,y,x,z):
    # dJ/dy = sum_c V_c/sig_c * sum_h (F_hc - N_hc*(m+Vy+Dz+Ux_h)) - y
    g=Z-y
    for c in range(C):
        for h in range(H):
            g=g+V[c]/sig[c]*(F[h][c]-N[h][c]*(m[c]+V[c]*y+Dd[c]*z[c]+U[c]*x[h]))
    return g
for C,H in [(1,1),(1,2),(2,1),(2,2)]:
    worst=0; over=0; tot=0
    for _ in range(2000):
        MAXI=0
        m=[R(random.choice([0,1,3])) for _ in range(C)]
        sig=[R(random.choice([1,2]),random.choice([1,2])) for _ in range(C)]
        U=[R(random.choice([-1,1,2])) for _ in range(C)]
        V=[R(random.choice([-1,1,2])) for _ in range(C)]
        Dd=[R(random.choice([1,2]),random.choice([1,2])) for _ in range(C)]
        N=[[R(random.choice([1,2,3]),random.choice([1,2])) for _ in range(C)] for _ in range(H)]
        F=[[R(random.choice([-2,0,1,4])) for _ in range(C)] for _ in range(H)]
        y0=R(random.choice([-1,0,1,2]),random.choice([1,2,3])); x0=[R(random.choice([-1,0,1,2]),random.choice([1,2,3])) for _ in range(H)]; z0=[R(random.choice([-1,0,1,2]),random.choice([1,2,3])) for _ in range(C)]
        Nt=[sum((N[h][c] for h in range(H)),Z) for c in range(C)]
        Ft=[sum((F[h][c] for h in range(H)),Z) for c in range(C)]
        prec=R(1)+sum((V[c]*V[c]/sig[c]*Nt[c] for c in range(C)),Z)
        fn=[Ft[c]-Nt[c]*(m[c]+Dd[c]*z0[c]) - sum((N[h][c]*U[c]*x0[h] for h in range(H)),Z) for c in range(C)]
        y1=sum((V[c]/sig[c]*fn[c] for c in range(C)),Z)/prec
        g=grad_y(C,H,m,sig,U,V,Dd,N,F,y1,x0,z0)
        assert g.n==0, g
        worst=max(worst,MAXI); over+= MAXI>=2**31; tot+=1
    print(f"C={C} H={H}: worst {worst:.3e} overflow fraction {over/tot:.3f}")
