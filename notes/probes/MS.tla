---- MODULE MS ----
EXTENDS Integers, Sequences, FiniteSets, TLC, Rat
CONSTANTS N, XV, RV, MV, Dev
VARIABLES x, r, mu, um, uv, mu2, v2, done
vars == <<x, r, mu, um, uv, mu2, v2, done>>
Idx == 1..N
RECURSIVE SumR(_,_)
SumR(f, S) == IF S = {} THEN R(0) ELSE LET i == CHOOSE i \in S : TRUE IN Add(f[i], SumR(f, S \ {i}))
Nn == SumR([i \in Idx |-> r[i]], Idx)
Px == SumR([i \in Idx |-> Mul(r[i], R(x[i]))], Idx)
Pxx == SumR([i \in Idx |-> Mul(r[i], R(x[i]*x[i]))], Idx)
Init == /\ x \in [Idx -> XV] /\ r \in [Idx -> RV] /\ mu \in MV /\ um \in BOOLEAN /\ uv \in BOOLEAN
        /\ \A i \in 1..N-1 : x[i] <= x[i+1]
        /\ Lt(R(0), SumR([i \in Idx |-> r[i]], Idx))
        /\ mu2 = R(0) /\ v2 = R(0) /\ done = FALSE
NewMean == IF um THEN Div(Px, Nn) ELSE mu
VarIntended(m) == Add(Sub(Div(Pxx, Nn), Mul(Mul(R(2), m), Div(Px, Nn))), Mul(m, m))
VarAsCode(m) == Sub(Div(Pxx, Nn), Mul(m, m))
MStep == /\ ~done /\ done' = TRUE
         /\ mu2' = NewMean
         /\ v2' = IF uv THEN (IF Dev THEN VarAsCode(NewMean) ELSE VarIntended(NewMean)) ELSE R(1)
         /\ UNCHANGED <<x, r, mu, um, uv>>
Spec == Init /\ [][MStep]_vars
\* stationarity of Q in the variance block at the mean left in place: v*n = sum r (x-m)^2
SumSq(m) == SumR([i \in Idx |-> Mul(r[i], Mul(Sub(R(x[i]), m), Sub(R(x[i]), m)))], Idx)
MLStationary == (done /\ uv) => Mul(v2, Nn) = SumSq(mu2)
MeanStationary == (done /\ um) => Mul(mu2, Nn) = Px
====
