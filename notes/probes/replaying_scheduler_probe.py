import numpy as np, dask, dask.array as da, dask.bag as db, warnings, pickle, cloudpickle, random
warnings.filterwarnings("ignore")
from collections.abc import Mapping
from bob.learn.em import KMeansMachine, GMMMachine, IVectorMachine
from dask._task_spec import convert_legacy_graph, DataNode, Task, Alias
from dask.core import flatten
log=[]
class Sched:
    def __init__(self, order_rng=None, isolate=False): self.rng=order_rng; self.isolate=isolate
    def __call__(self, dsk, keys, **kw):
        if not isinstance(dsk, Mapping): dsk = dsk.__dask_graph__()
        dsk = convert_legacy_graph(dsk)
        deps = {k: set(t.dependencies) for k,t in dsk.items()}
        done = {}
        pending = set(dsk)
        order=[]
        while pending:
            ready = sorted([k for k in pending if deps[k] <= done.keys()], key=str)
            k = self.rng.choice(ready) if self.rng else ready[0]
            t = dsk[k]
            vals = {d: done[d] for d in deps[k]}
            if self.isolate and not isinstance(t,(DataNode,Alias)):
                t, vals = cloudpickle.loads(cloudpickle.dumps((t, vals)))
            r = t(vals)
            if self.isolate and not isinstance(t,(DataNode,Alias)):
                r = cloudpickle.loads(cloudpickle.dumps(r))
            done[k]=r; pending.discard(k); order.append(k)
        log.append([ (k[0] if isinstance(k,tuple) else k) for k in order])
        def pack(ks):
            return [pack(x) for x in ks] if isinstance(ks, list) else done[ks]
        return pack(keys)
X = np.arange(24, dtype=float).reshape(12,2)
def run(s):
    with dask.config.set(scheduler=s):
        m = GMMMachine(2, max_fitting_steps=2, convergence_threshold=None, update_variances=True, update_weights=True); m.means=np.array([[0.,0],[20,20]]); m.variances=np.ones((2,2))*30
        m.fit(da.from_array(X, chunks=((5,4,3),2)))
    return m
m1 = run(Sched()); 
for l in log: print(l)
m2 = run(Sched(random.Random(3), isolate=True))
mn = GMMMachine(2, max_fitting_steps=2, convergence_threshold=None, update_variances=True, update_weights=True); mn.means=np.array([[0.,0],[20,20]]); mn.variances=np.ones((2,2))*30; mn.fit(X)
print(np.allclose(m1.means,mn.means), np.allclose(m2.means,mn.means), np.allclose(m2.variances,mn.variances), np.allclose(m2.weights, mn.weights))
# feature-axis chunk
try:
    with dask.config.set(scheduler=Sched()):
        m = GMMMachine(2, max_fitting_steps=1); m.means=np.array([[0.,0],[20,20]]); m.variances=np.ones((2,2))*30
        m.fit(da.from_array(X, chunks=((6,6),(1,1))))
    print("feature-chunk GMM ok", np.allclose(m.means, GMMMachine(2).means if False else m.means))
except Exception as e: print("feature-chunk GMM raised", type(e).__name__, str(e)[:100])
try:
    km = KMeansMachine(2, init_method=np.array([[0.,0],[20,20]]), max_iter=1).fit(da.from_array(X, chunks=((6,6),(1,1))))
    print("feature-chunk kmeans ok", km.centroids_)
except Exception as e: print("feature-chunk kmeans raised", type(e).__name__, str(e)[:100])
