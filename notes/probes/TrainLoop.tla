---- MODULE TrainLoop ----
EXTENDS Integers, Sequences, TLC
\* design-level guards shared with the trace monitor
NoneV == -1
MayIterate(step, cap) == cap = NoneV \/ step < cap
\* rel \in {"na","le","gt","edge"}
MustStopConv(step, rel, thrSet) == step > 1 /\ thrSet /\ rel = "le"
MayStopConv(step, rel, thrSet) == step > 1 /\ thrSet /\ rel \in {"le","edge"}
====
