"""Binding of specs/KMeans.tla to KMeansMachine: scenario generation, TLC runs, and the
walker that requires the code's trajectory to be a path of TLC's state graph."""
import itertools
import random
from fractions import Fraction

import numpy as np

from . import mc, tlc
from .common import ImplementationTimeout, allclose, close, fr, key, time_limit

NOCAP = -1
SIMS1 = [(2, 0, 3), (-1, 0, -2), (3, 0, 0)]
SIMS2 = [(2, 0, (3, -1)), (1, 1, (0, 0)), (-1, 1, (2, 5))]
TIMEOUTS = [0]
NOTHR = Fraction(-1)

INVARIANTS = ["CapRespected", "AllFinite", "NoConvergenceBeforeStep2"]
PROPERTIES = ["Descent", "CentroidIsMeanOfMembers", "CriterionIsMeanMinDist", "StopRule", "ChunkInvariant"]


def compositions(n):
    for bits in itertools.product([0, 1], repeat=n - 1):
        comp, cur = [], 1
        for b in bits:
            if b:
                comp.append(cur)
                cur = 1
            else:
                cur += 1
        comp.append(cur)
        yield tuple(comp)


def datasets(n, dm, vals):
    """All multisets of n points from the grid vals^dm (as sorted tuples)."""
    pts = list(itertools.product(vals, repeat=dm))
    return [tuple(c) for c in itertools.combinations_with_replacement(pts, n)]


def initsets(k, dm, vals):
    pts = list(itertools.product(vals, repeat=dm))
    return [tuple(c) for c in itertools.combinations(pts, k)]


def build(n, dm, k, data, inits, comps, caps, thrs, maxstep=6, dev=()):
    defs = {"MC_Data": set_of(data), "MC_Init": set_of(inits), "MC_Comps": set_of(comps),
            "MC_Caps": mc.Expr("{" + ", ".join("NoCap" if c == NOCAP else str(c) for c in caps) + "}"),
            "MC_Thrs": mc.Expr("{" + ", ".join("NoThr" if t == NOTHR else "<<%d, %d>>" % (t.numerator, t.denominator)
                                               for t in thrs) + "}"),
            "MC_Dev": mc.Expr("{" + ", ".join('"%s"' % d for d in dev) + "}"),
            "MC_Sims": mc.Expr("{" + ", ".join("[s |-> %d, q |-> %d, t |-> <<%s>>]" % (s_, q_, ", ".join([str(t_)] * dm if not isinstance(t_, tuple) else map(str, t_)))
                                                for s_, q_, t_ in (SIMS1 if dm == 1 else SIMS2)) + "}")}
    text = mc.module("MC_KMeans", ["KMeans"], defs)
    consts = {"N": n, "Dm": dm, "K": k, "MaxStep": maxstep}
    subst = {"DataSets": "MC_Data", "InitSets": "MC_Init", "Comps": "MC_Comps", "Caps": "MC_Caps",
             "Thrs": "MC_Thrs", "Dev": "MC_Dev", "Sims": "MC_Sims"}
    return text, consts, subst


def set_of(items):
    from .common import tla
    return mc.Expr("{" + ", ".join(tla(list(map(list, x)) if isinstance(x[0], (tuple, list)) else list(x))
                                   for x in items) + "}")


def model_run(ck, name, workdir, n, dm, k, data, inits, comps, caps, thrs, dev=(), expect_violation=False,
              invariants=INVARIANTS, properties=PROPERTIES, workers=16, export=True, coverage=False):
    """One exhaustive TLC run over the given scenarios: checks the invariants / action properties (M1)
    and, through the Export action constraint, prints every edge of the state graph (for M2)."""
    text, consts, subst = build(n, dm, k, data, inits, comps, caps, thrs, dev=dev)
    cfg = mc.cfg(consts=consts, subst=subst, invariants=invariants, properties=properties,
                 constraints=["Bound"], view="View", action_constraints=["Export"] if export else [])
    r = tlc.run(workdir, "MC_KMeans", cfg, root_text=text, workers=workers, expect_violation=expect_violation,
                coverage=coverage)
    ck.account(name, r, expect_violation=expect_violation)
    graph = {}
    for e in r.records:
        g = graph.setdefault(key(e["s"]), {"s": e["s"], "edges": {}})
        g["edges"].setdefault(key(e["f"]), []).append(e)
    return graph


# ------------------------------------------------------------------ the implementation side
class Transform:
    """Harness-level similarity x -> s * R x + b applied to the data and the initial centroids; by the
    TLC-checked equivariance the expected centroids follow and the criterion scales by s^2."""

    def __init__(self, shift=None, scale=1.0, rot=0):
        self.shift, self.scale, self.rot = shift, scale, rot

    def fwd(self, a):
        a = np.asarray(a, dtype=float)
        if self.rot and a.shape[1] == 2:
            for _ in range(self.rot % 4):
                a = np.stack([-a[:, 1], a[:, 0]], axis=1)
        a = a * self.scale
        if self.shift is not None:
            a = a + self.shift
        return a

    def back(self, a):
        a = np.asarray(a, dtype=float)
        if self.shift is not None:
            a = a - self.shift
        a = a / self.scale
        if self.rot and a.shape[1] == 2:
            for _ in range((4 - self.rot % 4) % 4):
                a = np.stack([-a[:, 1], a[:, 0]], axis=1)
        return a

    def crit_back(self, c):
        return c / (self.scale ** 2)

    def describe(self):
        return {"shift": None if self.shift is None else float(self.shift), "scale": self.scale, "rot": self.rot}


def run_fit(em, X, init, cap, thr, comp=None, sched=None):
    """One KMeansMachine.fit; returns (centroids, average_min_distance)."""
    import dask
    import dask.array as da
    import zlib
    init_arr = np.array(init, dtype=float)
    hb = zlib.crc32(init_arr.tobytes() + repr((cap, thr, comp)).encode())
    if np.all(init_arr == np.round(init_arr)) and np.all(np.abs(init_arr) < 2 ** 40) and hb % 2:
        # initial centroids written with whole numbers: an integer array, or a plain list of Python ints
        init_arr = init_arr.astype(np.int64) if hb % 4 == 1 else init_arr.astype(np.int64).tolist()
        if not isinstance(init_arr, np.ndarray):
            init_arr = np.array(init_arr)
    m = em.KMeansMachine(n_clusters=len(init), init_method=init_arr,
                         max_iter=None if cap == NOCAP else cap,
                         convergence_threshold=None if thr is None else thr)
    if comp is None:
        m.fit(X)
    else:
        Xd = da.from_array(X, chunks=(tuple(comp), X.shape[1]))
        with dask.config.set(scheduler=sched if sched is not None else "synchronous"):
            m.fit(Xd)
    return np.array(m.centroids_, dtype=float), float(m.average_min_distance)


def match_state(view, cent, crit, tf, tol=1e-8, free=()):
    """Does the code's (centroids, criterion) equal the model state `view`?  Returns (ok, why)."""
    c = tf.back(cent)
    for k, row in enumerate(view["cent"]):
        if (k + 1) in free:
            continue
        exp = [fr(x) for x in row]
        if exp[0] is None:          # model NaN
            if not np.all(np.isnan(c[k])):
                return False, "centroid %d: model NaN, code %s" % (k, c[k])
            continue
        if not allclose(c[k], [float(x) for x in exp], tol):
            return False, "centroid %d: expected %s, observed %s" % (k, [str(x) for x in exp], c[k].tolist())
    e = fr(view["crit"])
    if e is None:
        if view["crit"] == [1, 0]:
            if not np.isinf(crit):
                return False, "criterion: expected inf, observed %r" % crit
        elif not np.isnan(crit):
            return False, "criterion: expected NaN, observed %r" % crit
    else:
        if not close(tf.crit_back(crit), e, tol):
            return False, "criterion: expected %s (=%.12g), observed %.12g" % (e, float(e), tf.crit_back(crit))
    return True, ""


def walk(em, g, tf=None, dask_mode=None, sched_factory=None, finite_on_empty=False, maxstep=6, dtype=None):
    """Replay one scenario group (data, composition, cap, threshold) from every initial centroid set TLC
    explored for it.  Yields (init, verdict, detail) with verdict in {"ok","left-domain","skip"} or a clause."""
    edges = g["edges"]
    seen = set()
    for lst in list(edges.values()):
        for e in lst:
            if e["f"]["step"] == 0 and key(e["f"]) not in seen:
                seen.add(key(e["f"]))
                v, d = walk_from(em, g, e["f"], tf, dask_mode, sched_factory, finite_on_empty, maxstep, dtype)
                yield [[float(fr(x)) for x in row] for row in e["f"]["cent"]], v, d


def walk_from(em, g, init_view, tf=None, dask_mode=None, sched_factory=None, finite_on_empty=False, maxstep=6,
              dtype=None):
    """The trajectory of the code (fits capped at 1..k without threshold, then the fit with the scenario's
    cap and threshold) must be a path of the model's state graph ending in a state with status "done"."""
    tf = tf or Transform()
    s = g["s"]
    data = np.array(s["data"], dtype=float)
    X = tf.fwd(data)
    if dtype is not None:
        # the same values in a narrow integer dtype (training data such as 8-bit pixels)
        Xi = X.astype(dtype)
        if not np.array_equal(Xi.astype(float), X):
            return "skip", "values not representable in %s" % dtype
        X = Xi
    import random as _random
    import zlib
    from .common import relayout
    X = relayout(X, _random.Random(zlib.crc32(np.ascontiguousarray(X).tobytes())))      # deterministic layout choice
    cap = s["cap"]
    thr = fr(s["thr"])
    thr_f = None if thr < 0 else float(thr)
    comp = s["comp"] if dask_mode else None
    edges = g["edges"]
    init = tf.fwd(np.array([[float(fr(x)) for x in row] for row in init_view["cent"]]))
    horizon = cap if cap != NOCAP else maxstep

    def fit(c, t):
        sch = sched_factory() if (sched_factory and comp is not None) else None
        return run_fit(em, X, init, c, t, comp=comp, sched=sch)

    traj = {}

    def at(k):
        if k not in traj:
            traj[k] = fit(k, None)
        return traj[k]

    final = None
    why_last = ["", ""]

    def dfs(view, k):
        nonlocal final
        if view["status"] == "done":
            if final is None:
                if cap == NOCAP and TIMEOUTS[0] >= 3:
                    final = "timeout"       # already reported three times: do not wait again
                    return "left-domain"
                try:
                    with time_limit(3):
                        final = fit(cap, thr_f)
                except ImplementationTimeout:
                    TIMEOUTS[0] += 1
                    why_last[0] = "StopRule"
                    why_last[1] = ("the model stops after %d iteration(s); the fit with cap=%s thr=%s did not return "
                                   "within 3 s (a fit of this size takes milliseconds)" % (k, cap, thr))
                    final = "timeout"
                    return None
            if isinstance(final, str):
                return "left-domain"
            ck, cr = at(k) if k > 0 else (init, float("inf"))
            same = np.array_equal(final[0], ck, equal_nan=True) and \
                (final[1] == cr or (np.isnan(final[1]) and np.isnan(cr)))
            if same:
                return "ok"
            why_last[0] = "StopRule"
            why_last[1] = ("the model stops after %d iteration(s); the fit with cap=%s thr=%s returned %s / %r, "
                           "the fit capped at %d returned %s / %r" % (k, cap, thr, final[0].tolist(), final[1], k,
                                                                     np.asarray(ck).tolist(), cr))
            return None
        if k >= horizon:
            return "ok" if cap == NOCAP else None
        succ = edges.get(key(view), [])
        if not succ:
            return "left-domain"
        cent, crit = at(k + 1)
        res = None
        matched = False
        for e in succ:
            if e["a"] != "Iter":
                continue
            ok, why = match_state(e["t"], cent, crit, tf, free=e["empty"])
            if not ok:
                if not matched:
                    why_last[0] = "Iter"
                    why_last[1] = "iteration %d: %s" % (k + 1, why)
                continue
            matched = True
            if e["empty"]:
                c = tf.back(cent)
                for kk in e["empty"]:
                    if finite_on_empty and not np.all(np.isfinite(c[kk - 1])):
                        why_last[0] = "AllFinite"
                        why_last[1] = ("iteration %d: cluster %d received no sample and its centroid became %s"
                                       % (k + 1, kk, c[kk - 1].tolist()))
                        return None
                ok2, _ = match_state(e["t"], cent, crit, tf)
                if not ok2:
                    res = res or "left-domain"
                    continue
            r = dfs(e["t"], k + 1)
            if r == "ok":
                return "ok"
            res = res or r
        return res

    if cap == NOCAP and not _terminates(edges, init_view, maxstep):
        # the real code is run without a cap only when the model guarantees termination within the bound
        return "skip", "termination within the bound not guaranteed by the model"
    r = dfs(init_view, 0)
    if r in ("ok", "left-domain"):
        return r, ""
    return why_last[0] or "Iter", why_last[1]


def _terminates(edges, view, bound):
    if view["status"] == "done":
        return True
    if view["step"] >= bound:
        return False
    succ = edges.get(key(view), [])
    if not succ:
        return False
    # every branch must terminate, and no branch may rest on an undefined (0/0) comparison
    tset = {key(e["t"]["cent"]) + key(e["t"]["crit"]) for e in succ}
    if len(tset) < len(succ):
        return False
    return all(_terminates(edges, e["t"], bound) for e in succ)
