"""Verification framework for bob.learn.em: TLA+ specifications checked by TLC and
bound to the implementation by replay (spec -> code) and trace validation (code -> spec)."""
