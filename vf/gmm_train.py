"""M3 drivers for GMM training: trajectories of GMMMachine.fit observed through capped re-runs, abstracted
to rank traces for specs/TraceLoop.tla."""
import copy

import numpy as np

from . import traces

SWITCHES = [(a, b, c) for a in (False, True) for b in (False, True) for c in (False, True)]


def make_problem(r, degenerate=False):
    n = int(r.randint(12, 70))
    d = int(r.randint(1, 4))
    C = int(r.randint(1, 4))
    centres = r.normal(size=(C, d)) * 3
    X = centres[r.randint(0, C, size=n)] + r.normal(size=(n, d)) * r.uniform(0.3, 1.5)
    if degenerate and r.rand() < 0.25:
        # many features and a block of identical rows: one component collapses with every variance at its floor
        d = int(r.randint(22, 40))
        C = 2
        n = int(r.randint(40, 90))
        spread = r.normal(size=(n // 2, d))
        dup = np.repeat(r.normal(size=(1, d)) * 3 + 5, n - n // 2, axis=0)
        X = np.vstack([spread, dup])
        init = {"weights": np.array([0.5, 0.5]), "means": np.vstack([spread.mean(axis=0), dup[0] + 0.01]),
                "variances": np.ones((2, d))}
        return X, init
    if degenerate:
        mode = r.randint(0, 4)
        if mode == 0:
            X[: n // 2] = X[0]                     # duplicated rows
        elif mode == 1:
            X[:, 0] = 1.5                          # a constant column
        elif mode == 2:
            X = np.repeat(X[: max(1, C - 1)], n // max(1, C - 1) + 1, axis=0)[:n]   # fewer distinct points than components
        else:
            X[0] = X[0] + 1e4                      # a far outlier
    w = r.uniform(0.2, 1, size=C)
    init = {"weights": w / w.sum(), "means": centres + r.normal(size=(C, d)) * 1.0,
            "variances": r.uniform(0.5, 3, size=(C, d))}
    if not degenerate and r.rand() < 0.4:
        # another unit of measurement: tightly concentrated data have positive log-likelihoods
        sc = 10.0 ** r.uniform(-2.5, 0.5)
        X = X * sc
        init["means"] = init["means"] * sc
        init["variances"] = init["variances"] * sc ** 2
    return X, init


def new_machine(em, init, cap, thr, sw, trainer="ml", prior=None, rel=4.0, alpha=0.5, cthr=None, floors=None, switched=False):
    """switched: the machine is built as the OTHER trainer kind and given its kind afterwards through set_params."""
    um, uv, uw = sw
    kw = dict(max_fitting_steps=cap, convergence_threshold=thr, update_means=um, update_variances=uv, update_weights=uw)
    if cthr is not None:
        kw["mean_var_update_threshold"] = cthr
    C = len(init["weights"])
    if trainer == "map":
        m = em.GMMMachine(C, trainer="ml" if switched else "map", ubm=prior, map_relevance_factor=rel, map_alpha=alpha, **kw)
        if switched:
            m.set_params(trainer="map")
        if floors is not None:
            m.variance_thresholds = np.array(floors, dtype=float) if np.ndim(floors) else float(floors)
    else:
        if switched:
            other = em.GMMMachine(C)
            other.means = np.array(init["means"], dtype=float) + 5.0
            other.variances = np.array(init["variances"], dtype=float) * 2.0
            m = em.GMMMachine(C, trainer="map", ubm=other, **kw)
            m.set_params(trainer="ml")
        else:
            m = em.GMMMachine(C, **kw)
        if floors is not None:
            m.variance_thresholds = np.array(floors, dtype=float) if np.ndim(floors) else float(floors)
        m.weights = np.array(init["weights"], dtype=float)
        m.means = np.array(init["means"], dtype=float)
        m.variances = np.array(init["variances"], dtype=float)
    return m


def fit(m, X, chunks=None, sched=None):
    import dask
    import dask.array as da
    if chunks is None:
        m.fit(X)
    else:
        with dask.config.set(scheduler=sched or "synchronous"):
            m.fit(da.from_array(X, chunks=(chunks, X.shape[1])))
    return m


def params(m):
    return (np.array(m.weights, dtype=float), np.array(m.means, dtype=float), np.array(m.variances, dtype=float))


def same_params(a, b):
    return all(np.array_equal(x, y, equal_nan=True) for x, y in zip(a, b))


def valid(m, X):
    w, mu, var = params(m)
    fl = np.broadcast_to(np.asarray(m.variance_thresholds, dtype=float), var.shape)
    if not (np.all(np.isfinite(w)) and np.all(np.isfinite(mu)) and np.all(np.isfinite(var))):
        return False, "non-finite parameters"
    if np.any(w < 0) or abs(w.sum() - 1) > 1e-6:
        return False, "weights %s not on the simplex" % w.tolist()
    if np.any(var < fl) or np.any(var <= 0):
        return False, "variances below their floors"
    ll = np.asarray(m.log_likelihood(X))
    if not np.all(np.isfinite(ll)):
        return False, "non-finite log-likelihood of a training sample"
    return True, ""


def floor_active(m_prev, m_next, X):
    """The property's precondition for ascent: no variance floor and no count floor active in this step."""
    var = np.asarray(m_next.variances, dtype=float)
    fl = np.broadcast_to(np.asarray(m_next.variance_thresholds, dtype=float), var.shape)
    at_floor = var <= fl * (1 + 1e-12)
    if np.any(at_floor):
        # a floor is ACTIVE when the update itself asked for a variance at or below it.  A variance the code put on its
        # floor although the responsibility-weighted second moment about the component's (new) mean is well above the
        # floor is not an active floor but a wrong moment (round eight: squares taken in a narrow storage type came
        # out negative and were clamped): then the precondition holds and ascent is demanded.  The moment is computed
        # here in float64 from the previous machine's visible parameters (own log-sum-exp, nothing of the library).
        w0, mu0, v0 = params(m_prev)
        if np.array_equal(var, v0):
            return True                     # variances not updated in this step: the floor was met before
        Xf = np.asarray(X, dtype=np.float64)
        comp = np.array([np.log(w0[c]) - 0.5 * (np.sum((Xf - mu0[c]) ** 2 / v0[c], axis=1) + np.sum(np.log(2 * np.pi * v0[c])))
                         for c in range(len(w0))])
        top = comp.max(axis=0)
        post = np.exp(comp - (top + np.log(np.exp(comp - top).sum(axis=0))))
        mu1 = np.asarray(m_next.means, dtype=float)
        for c in range(len(w0)):
            nc = post[c].sum()
            if not nc > 1e-9:
                return True
            second = (post[c][:, None] * (Xf - mu1[c]) ** 2).sum(axis=0) / nc
            scale = (post[c][:, None] * Xf ** 2).sum(axis=0) / nc
            if np.any(at_floor[c] & (second <= fl[c] * (1 + 1e-3) + 1e-9 * scale)):
                return True
        st = m_prev.acc_stats(X)
        return bool(np.any(np.asarray(st.n) < max(float(m_prev.mean_var_update_threshold), 1e-12) * 10))
    st = m_prev.acc_stats(X)
    return bool(np.any(np.asarray(st.n) < max(float(m_prev.mean_var_update_threshold), 1e-12) * 10))


def trajectory(em, X, init, cap, sw, objective, chunks=None, trainer="ml", prior=None, rel=4.0, cthr=None, floors=None,
               switched=False):
    """Machines after 0..cap iterations (threshold None) and the objective after each."""
    ms = [new_machine(em, init, 1, None, sw, trainer, prior, rel, cthr=cthr, floors=floors, switched=switched)]
    if trainer == "map":
        ms[0].initialize_gaussians()
    for k in range(1, cap + 1):
        ms.append(fit(new_machine(em, init, k, None, sw, trainer, prior, rel, cthr=cthr, floors=floors, switched=switched), X, chunks))
    return ms, [objective(m) for m in ms]


def reported(m_prev, X):
    """The criterion the loop reports for an iteration entered with m_prev: average log-likelihood."""
    st = m_prev.acc_stats(X)
    return float(st.log_likelihood / st.t)


def build_trace(kind, ms, obj, X, cap, thr, final, check_valid=True):
    """Iter events for k = 1..s and the Stop event; s found by matching the thresholded run."""
    rk = traces.ranks(obj)
    rep = [None] + [reported(ms[k - 1], X) for k in range(1, cap + 1)]     # reported at iteration k
    ev = []
    stop_at = None
    fin = params(final)
    for k in range(1, cap + 1):
        rel = traces.rel_change(rep[k - 1], rep[k], thr, abs_slack=1e-13) if k > 1 else "na"
        ok, why = valid(ms[k], X) if check_valid else (True, "")
        ev.append({"ev": "Iter", "k": k, "rank": rk[k], "rel": rel, "guard": bool(floor_active(ms[k - 1], ms[k], X)),
                   "valid": bool(ok), "why": why})
        if stop_at is None and same_params(fin, params(ms[k])) and (k == cap or (k > 1 and rel in ("le", "edge"))):
            stop_at = k
    if stop_at is None:
        cand = [k for k in range(1, cap + 1) if same_params(fin, params(ms[k]))]
        stop_at = cand[0] if cand else cap
        if not cand:
            ev[cap - 1]["valid"] = False
            ev[cap - 1]["why"] = "the model returned by the thresholded run equals none of the models after 1..%d iterations" % cap
    ev = ev[:stop_at] + [{"ev": "Stop", "k": stop_at, "rank": 0, "rel": "na", "guard": False, "valid": True, "why": ""}]
    return {"kind": kind, "cap": cap, "thr": thr is not None, "dir": "up", "ev": ev, "rank0": rk[0]}
