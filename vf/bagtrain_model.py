"""Binding of specs/BagTrain.tla and specs/PairTree.tla to ISVMachine / JFAMachine / IVectorMachine
trained from Dask bags: scenario generation, TLC runs, bags with exact partition sizes, a scheduler
that runs the per-class E-step tasks in the order TLC exported, seeded statistics."""
import copy
import itertools
import random
from collections.abc import Mapping

import cloudpickle
import numpy as np
from dask._task_spec import Alias, DataNode, convert_legacy_graph

from . import mc, tlc
from .common import tla
from .sched import ReplayScheduler

INVARIANTS = ["TypeOK", "RegroupProgress", "RegroupIsPartitionByLabel", "HostFreshAfterIter",
              "AllContribsAtCurrentVersion", "ExactlyOncePerMStep", "HandOverFresh"]
PT_INVARIANTS = ["LeavesConserved", "EveryLeafExactlyOnce", "TreeShape", "AllContribsAtCurrentVersion",
                 "HostFreshAfterIter"]
PT_PROPERTIES = ["Shrinks", "Terminates"]


# ------------------------------------------------------------------ scenarios
def compositions(n):
    """Every composition of n (parts >= 1), as tuples."""
    for bits in itertools.product([0, 1], repeat=n - 1):
        comp, cur = [], 1
        for b in bits:
            if b:
                comp.append(cur)
                cur = 1
            else:
                cur += 1
        comp.append(cur)
        yield tuple(comp)


def surjective_labellings(n, k):
    return [lab for lab in itertools.product(range(k), repeat=n) if len(set(lab)) == k]


def with_empty_partitions(comp, rng, extra):
    """The composition with `extra` empty partitions inserted at seeded positions (empty-remainder partitions)."""
    c = list(comp)
    for _ in range(extra):
        c.insert(rng.randrange(len(c) + 1), 0)
    return tuple(c)


def mixes_classes(lab, comp):
    i = 0
    for c in comp:
        if len(set(lab[i:i + c])) > 1:
            return True
        i += c
    return False


# ------------------------------------------------------------------ TLC
def _set(items):
    return mc.Expr("{" + ", ".join(items) + "}")


def distinct_records(r):
    """TLC evaluates a CONSTRAINT once per GENERATED state: a state reached by two workers at the same moment (or
    revisited by the liveness check) is printed twice.  Records are compared as canonical JSON."""
    import json
    seen, out = set(), []
    for rec in r.records:
        k = json.dumps(rec, sort_keys=True)
        if k not in seen:
            seen.add(k)
            out.append(rec)
    return out


def run_bagtrain(ck, name, scn=(), gen=(1, 0, 1), modes=("Shared",), kinds=("ISV",), iters=(0,), max_orders=1,
                 dev=(), invariants=INVARIANTS, export=True, expect_violation=False, coverage=False, workers=16):
    """One exhaustive TLC run of specs/BagTrain.tla.  scn: explicit (labels, composition) pairs; gen = (nmin, nmax,
    kmax): in addition every surjective labelling x every composition in that range."""
    defs = {"MC_Scn": _set(tla([list(y), list(c)]) for y, c in scn),
            "MC_Gen": mc.Expr(tla(list(gen))),
            "MC_Modes": _set(tla(m) for m in modes), "MC_Kinds": _set(tla(k) for k in kinds),
            "MC_Iters": _set(str(i) for i in iters), "MC_Dev": _set(tla(d) for d in dev)}
    text = mc.module("MC_BagTrain", ["BagTrain"], defs)
    cfg = mc.cfg(consts={"MaxOrders": max_orders},
                 subst={"ScnSet": "MC_Scn", "Gen": "MC_Gen", "Modes": "MC_Modes", "Kinds": "MC_Kinds",
                        "Iters": "MC_Iters", "Dev": "MC_Dev"},
                 invariants=invariants, constraints=["Export"] if export else [])
    r = tlc.run(ck.work, "MC_BagTrain", cfg, root_text=text, workers=workers, coverage=coverage,
                expect_violation=expect_violation)
    ck.account(name, r, expect_violation=expect_violation)
    return r


def run_pairtree(ck, name, maxlen, modes=("Shared", "Isolated"), maxiter=2, dev=(), invariants=PT_INVARIANTS,
                 properties=PT_PROPERTIES, export=True, expect_violation=False, coverage=False):
    text = mc.module("MC_PairTree", ["PairTree"], {"MC_Dev": _set(tla(d) for d in dev),
                                                   "MC_Modes": _set(tla(m) for m in modes)})
    cfg = mc.cfg(consts={"MaxLen": maxlen, "MaxIter": maxiter}, subst={"Dev": "MC_Dev", "Modes": "MC_Modes"},
                 invariants=invariants, properties=properties,
                 constraints=["Export"] if export else [])
    r = tlc.run(ck.work, "MC_PairTree", cfg, root_text=text, workers=4, coverage=coverage,
                expect_violation=expect_violation)
    ck.account(name, r, expect_violation=expect_violation)
    return r


# ------------------------------------------------------------------ the implementation side
def make_ubm(em, rs, C, D):
    ubm = em.GMMMachine(C)
    ubm.means = rs.normal(scale=1.5, size=(C, D))
    ubm.variances = rs.uniform(0.5, 2.0, size=(C, D))
    w = rs.uniform(0.5, 1.5, size=C)
    ubm.weights = w / w.sum()
    return ubm


def make_stats(ubm, rs, n, D):
    """n statistics of 4..7 frames each, every one around its own centre (so that dropping, duplicating or
    moving one of them to another class moves the trained model by O(1))."""
    out = []
    for _ in range(n):
        frames = rs.normal(size=(rs.randint(4, 8), D)) + rs.normal(scale=1.5, size=D)
        out.append(ubm.acc_stats(frames))
    return out


def stat_key(s):
    return np.asarray(s.n, dtype=float).tobytes() + np.asarray(s.sum_px, dtype=float).tobytes()


def chunks_of(seq, comp):
    out, k = [], 0
    for c in comp:
        out.append(list(seq[k:k + c]))
        k += c
    assert k == len(seq)
    return out


def bag_exact(stats, comp):
    """A bag whose partitions have exactly the lengths `comp` (zeros allowed)."""
    import dask
    import dask.bag as db
    return db.from_delayed([dask.delayed(list)(ch) for ch in chunks_of(stats, comp)])


def bag_lengths(bag):
    return [len(p) for p in bag.map_partitions(lambda part: [list(part)]).compute(scheduler="synchronous")]


class ClassOrderScheduler(ReplayScheduler):
    """ReplayScheduler whose ready tasks are listed in the (deterministic) order in which the graph was built
    instead of by key text (dask.delayed keys carry random UUIDs), and which runs the E-step tasks of every
    E/M graph in the order TLC exported.

    An E/M graph is recognised by shape and result only (no function names): exactly n_classes tasks without task
    dependencies, one further task depending on all of them, and an ndarray as result.  `orders` holds one
    sequence of class positions per such graph; every other graph is driven by the seeded generator."""

    def __init__(self, orders, n_classes, isolate=False, rng=None):
        super().__init__(choices=None, isolate=isolate, rng=rng)
        self.orders = [list(o) for o in orders]
        self.n_classes = n_classes
        self.consumed = 0
        self.em_orders = []          # the E-step order actually used, per recognised graph (positions)

    def __call__(self, dsk, keys, **kw):
        if not isinstance(dsk, Mapping):
            dsk = dsk.__dask_graph__()
        dsk = convert_legacy_graph(dsk)
        pos = {k: n for n, k in enumerate(dsk)}
        deps = {k: set(t.dependencies) for k, t in dsk.items()}
        real = [k for k in dsk if not isinstance(dsk[k], (DataNode, Alias))]
        realset = set(real)
        sources = [k for k in real if not (deps[k] & realset)]
        others = [k for k in real if deps[k] & realset]
        fan_in = (len(sources) == self.n_classes and len(others) == 1
                  and (deps[others[0]] & realset) == set(sources))
        plan = None
        if fan_in and self.consumed < len(self.orders) and sorted(self.orders[self.consumed]) == list(range(len(sources))):
            plan = [sources[c] for c in self.orders[self.consumed]]
        done = {}
        pending = set(dsk)
        order = []
        while pending:
            ready = sorted((k for k in pending if deps[k] <= done.keys()), key=pos.get)
            rr = [k for k in ready if k in realset]
            if len(rr) < len(ready):             # data nodes and aliases first: they are not tasks
                k = [k for k in ready if k not in realset][0]
            elif rr:
                if plan:
                    k = plan.pop(0)
                    assert k in rr
                else:
                    k = rr[self._pick(len(rr))]
            t = dsk[k]
            vals = {d: done[d] for d in deps[k]}
            isreal = k in realset
            if self.isolate and isreal:
                t, vals = cloudpickle.loads(cloudpickle.dumps((t, vals)))
            r = t(vals)
            if self.isolate and isreal:
                r = cloudpickle.loads(cloudpickle.dumps(r))
            done[k] = r
            pending.discard(k)
            if isreal:
                name = k[0] if isinstance(k, tuple) else k
                order.append((str(name), len(deps[k])))
        self.graphs.append(order)
        if fan_in and plan is not None and isinstance(done[others[0]], np.ndarray):
            self.em_orders.append(self.orders[self.consumed])
            self.consumed += 1

        def pack(ks):
            return [pack(x) for x in ks] if isinstance(ks, list) else done[ks]
        return pack(keys)


def fresh(stats):
    return copy.deepcopy(stats)
