"""Shared plumbing of every check: work directory, evidence, verdicts, known findings."""
import hashlib
import json
import os
import shutil
import subprocess
import sys
import time
from fractions import Fraction

ROOT = os.path.dirname(os.path.dirname(os.path.abspath(__file__)))
REPO = os.environ.get("VERIF_REPO", "/repo")
REPO_SRC = os.environ.get("VERIF_REPO_SRC", os.path.join(REPO, "src"))
KNOWN = os.path.join(ROOT, "known_findings.json")


def pin_repo():
    """Make `import bob.learn.em` resolve to the current working tree of the repository."""
    if REPO_SRC not in sys.path:
        sys.path.insert(0, REPO_SRC)
    import warnings
    warnings.filterwarnings("ignore")
    import logging
    logging.disable(logging.CRITICAL)
    import bob.learn.em as em
    src = os.path.realpath(os.path.dirname(em.__file__))
    if not src.startswith(os.path.realpath(REPO_SRC)):
        # namespace packages may have been resolved through the editable install: accept only
        # if it is the same tree
        raise RuntimeError("bob.learn.em imported from %s, expected under %s" % (src, REPO_SRC))
    import dask
    dask.config.set(scheduler="synchronous")
    return em


def repo_head():
    try:
        return subprocess.run(["git", "-C", REPO, "rev-parse", "--short", "HEAD"], capture_output=True,
                              text=True).stdout.strip()
    except Exception:
        return "?"


def relayout(a, r):
    """The same array values in another memory layout (C order / Fortran order / a strided view of a larger
    buffer), chosen by the seeded generator `r` (a numpy RandomState or random.Random).  Results of the library
    must not depend on the layout of the arrays it is handed."""
    import numpy as np
    a = np.asarray(a)
    k = r.randint(0, 3) if hasattr(r, "randint") and not hasattr(r, "randrange") else r.randrange(3)
    if a.ndim < 2 or k == 0:
        return np.array(a)
    if k == 1:
        return np.asfortranarray(a)
    big = np.zeros((a.shape[0], 2 * a.shape[1]) + a.shape[2:], dtype=a.dtype)
    big[:, ::2] = a
    return big[:, ::2]


class ImplementationTimeout(Exception):
    pass


class time_limit:
    """Bounds a call into the implementation that the model says terminates (SIGALRM, main thread)."""

    def __init__(self, seconds):
        self.seconds = seconds

    def __enter__(self):
        import signal

        def handler(signum, frame):
            raise ImplementationTimeout("no result after %s s" % self.seconds)
        self.old = signal.signal(signal.SIGALRM, handler)
        # repeating: third-party code (Dask's graph optimisation) may swallow the exception once; it is raised again
        # every second until the block is left
        signal.setitimer(signal.ITIMER_REAL, self.seconds, 1.0)

    def __exit__(self, *a):
        import signal
        signal.setitimer(signal.ITIMER_REAL, 0)
        signal.signal(signal.SIGALRM, self.old)
        return False


# ---------------------------------------------------------------- rationals
def fr(x):
    """[num, den] from TLC -> Fraction (den 0 encodes inf / NaN and is returned as None)."""
    if x[1] == 0:
        return None
    return Fraction(x[0], x[1])


def frv(v):
    return [fr(x) for x in v]


def fl(x):
    return float(Fraction(x[0], x[1]))


def close(obs, exp, tol=1e-8):
    """|obs - exp| <= tol * max(1, |exp|) with exp exact."""
    import math
    if obs is None or exp is None:
        return obs is None and exp is None
    o = float(obs)
    e = float(exp)
    if math.isnan(o) or math.isinf(o):
        return False
    return abs(o - e) <= tol * max(1.0, abs(e))


def allclose(obs, exp, tol=1e-8):
    import numpy as np
    o = np.asarray(obs, dtype=float)
    e = np.asarray(exp, dtype=float)
    if o.shape != e.shape:
        return False
    if not np.all(np.isfinite(o)):
        return False
    return bool(np.all(np.abs(o - e) <= tol * np.maximum(1.0, np.abs(e))))


def tla_rat(q):
    q = Fraction(q)
    return "<<%d, %d>>" % (q.numerator, q.denominator)


def tla(v):
    """Python value -> TLA+ expression (ints, Fractions, str, bool, list/tuple -> sequence, set, dict -> record)."""
    if isinstance(v, bool):
        return "TRUE" if v else "FALSE"
    if isinstance(v, int):
        return str(v)
    if isinstance(v, Fraction):
        return tla_rat(v)
    if isinstance(v, str):
        return '"%s"' % v
    if isinstance(v, (list, tuple)):
        return "<<" + ", ".join(tla(x) for x in v) + ">>"
    if isinstance(v, (set, frozenset)):
        return "{" + ", ".join(sorted(tla(x) for x in v)) + "}"
    if isinstance(v, dict):
        return "[" + ", ".join("%s |-> %s" % (k, tla(x)) for k, x in v.items()) + "]"
    raise TypeError(v)


def key(obj):
    return json.dumps(obj, sort_keys=True, separators=(",", ":"))


# ---------------------------------------------------------------- the check object
class Check:
    def __init__(self, pid, tier, seed, level="model_checking"):
        self.pid = pid
        self.tier = tier
        self.seed = seed
        self.level = level
        self.t0 = time.time()
        self.work = os.path.join(ROOT, ".work", "%s-%d" % (pid, os.getpid()))
        shutil.rmtree(self.work, ignore_errors=True)
        os.makedirs(self.work)
        self.states = 0
        self.transitions = 0
        self.tlc_runs = []
        self.replayed = 0           # behaviours / edges / traces bound to the implementation
        self.samples = []
        self.violations = []        # (clause, replay dict)
        self.known_hits = {}        # finding id -> count
        self.notes = []
        self.assumptions = []
        self.extra = {}
        self.distinct = set()
        self.exhaustive = False
        self.known = json.load(open(KNOWN)) if os.path.exists(KNOWN) else []
        if not os.environ.get("VERIF_NO_EVIDENCE"):
            shutil.rmtree(os.path.join(ROOT, "replays", pid), ignore_errors=True)

    # -- TLC accounting
    def account(self, name, run, expect_violation=False):
        self.states += run.distinct
        self.transitions += run.generated
        never = sorted(a for a, (d, t) in run.coverage.items() if t == 0)
        self.tlc_runs.append({"run": name, "distinct_states": run.distinct, "states_generated": run.generated,
                              "violation": run.violation, "wall_s": round(run.wall, 2),
                              "actions": {a: list(v) for a, v in run.coverage.items()},
                              "actions_never_taken": never})
        if run.violation and not expect_violation:
            self.violation("TLC:%s:%s" % (name, run.violation),
                           {"mechanism": "M1", "run": name, "violated": run.violation, "counterexample": run.cex})
        if expect_violation and not run.violation:
            self.violation("TLC:%s:deviation-not-detected" % name,
                           {"mechanism": "M1", "run": name,
                            "detail": "the deviating variant of the module was expected to violate a property"})

    def sample(self, s, limit=6):
        if len(self.samples) < limit:
            self.samples.append(s)

    def seen(self, obj):
        self.distinct.add(hashlib.sha1(key(obj).encode()).hexdigest())

    # -- verdicts
    def violation(self, clause, replay):
        self.violations.append((clause, replay))

    def finding(self, fid, clause, replay):
        """A mismatch that carries the signature of a listed finding: reported as KNOWN-FINDING if the
        entry is open, otherwise (fixed or unlisted) it is a violation like any other."""
        for k in self.known:
            if k.get("id") == fid and k.get("status") == "open" and k.get("property") == self.pid:
                self.known_hits[fid] = self.known_hits.get(fid, 0) + 1
                return
        self.violation(clause, replay)

    def finish(self):
        wall = time.time() - self.t0
        shutil.rmtree(self.work, ignore_errors=True)
        scratch = bool(os.environ.get("VERIF_NO_EVIDENCE"))
        evdir = os.path.join(ROOT, ".work", "scratch-evidence") if scratch else os.path.join(ROOT, "evidence")
        extra = self.pid.startswith("X")       # extra specifications (not listed properties): evidence under notes/extra
        if extra and not scratch:
            evdir = os.path.join(ROOT, "notes", "extra")
        os.makedirs(evdir, exist_ok=True)
        cov = {"states": self.states, "transitions": self.transitions,
               "traces_validated_against_impl": self.replayed,
               "samples": self.samples or ["(none)"],
               "evaluations": self.replayed, "distinct_nontrivial": len(self.distinct),
               "rule": "distinct = SHA-1 of the abstract scenario/behaviour/trace replayed against or recorded "
                       "from the implementation",
               "exhaustive": self.exhaustive, "tlc_runs": self.tlc_runs,
               "known_findings_hit": self.known_hits, "notes": self.notes}
        cov.update(self.extra)
        ev = {"property_id": self.pid, "tier": self.tier, "seed": self.seed, "level": self.level,
              "coverage": cov, "assumptions": self.assumptions, "wall_s": round(wall, 2),
              "violations": len(self.violations)}
        with open(os.path.join(evdir, self.pid + ".json"), "w") as f:
            json.dump(ev, f, indent=1, default=str)
        for k in self.known:
            if k.get("property") == self.pid and k.get("status") == "open":
                if self.known_hits.get(k["id"]):
                    print("KNOWN-FINDING: property=%s %s [%s; %d occurrences in this run]"
                          % (self.pid, k["what"], k["id"], self.known_hits[k["id"]]))
                else:
                    self.notes.append("open finding %s not reproduced in this run" % k["id"])
        if self.violations:
            seen = set()
            rpdir = os.path.join(ROOT, ".work", "scratch-replays") if scratch else os.path.join(ROOT, "replays", self.pid)
            os.makedirs(rpdir, exist_ok=True)
            for clause, rep in self.violations:
                if clause in seen and len(seen) > 0:
                    continue
                seen.add(clause)
                rep = dict(rep)
                rep.update({"property": self.pid, "tier": self.tier, "seed": self.seed, "clause": clause,
                            "repo_head": repo_head()})
                h = hashlib.sha1(key(json.loads(json.dumps(rep, default=str))).encode()).hexdigest()[:12]
                path = os.path.join(rpdir, h + ".json")
                with open(path, "w") as f:
                    json.dump(rep, f, indent=1, default=str)
                print("%s=%s replay=%s clause=%s" % ("EXTRA-SPEC-REJECTED spec" if extra else "VIOLATION property", self.pid, path, clause))
                if len(seen) >= 8:
                    break
            print("%s: %d violation(s) [%s tier, %.1fs]" % (self.pid, len(self.violations), self.tier, wall))
            return 1
        print("%s: held on everything explored [%s tier; TLC %d distinct states / %d generated; %d bound to the "
              "implementation; %.1fs]" % (self.pid, self.tier, self.states, self.transitions, self.replayed, wall))
        return 0
