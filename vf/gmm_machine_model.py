"""Binding of specs/GmmMachine.tla to GMMMachine: one implementation test per edge of TLC's state graph."""
import collections
import copy
import os
import pickle
from fractions import Fraction as F

import numpy as np

from . import mc, tlc
from .common import allclose, fr, key, tla

EPS = F(1, 10 ** 6)
INV = ["CacheCoherent", "VarAboveCurrentFloor", "FreshEquivalent"]
PROPS = ["RoundTripVisible"]


def mat(rows):
    """rows of Fractions -> TLA+ matrix expression"""
    return tla([[F(x) for x in r] for r in rows])


def floor(kind, rows):
    return mc.Expr('[kind |-> "%s", val |-> %s]' % (kind, mat(rows)))


def sets(C, D, quick):
    h, q, one, two, four = F(1, 2), F(1, 4), F(1), F(2), F(4)
    if D == 1:
        W = [[h, h], [q, F(3, 4)]]
        M = [[[F(0)], [F(3)]], [[F(-2)], [F(1)]]]
        V = [[[q], [one]], [[four], [q]], [[one], [one]]]
        Fl = [("scalar", [[F(1, 1000)], [F(1, 1000)]]), ("scalar", [[h], [h]]), ("scalar", [[two], [two]]),
              ("matrix", [[h], [two]]), ("matrix", [[two], [F(1, 1000)]])]
    else:
        W = [[h, h], [q, F(3, 4)]]
        M = [[[F(0), F(1)], [F(3), F(-1)]], [[F(-2), F(0)], [F(1), F(2)]]]
        V = [[[q, one], [one, four]], [[four, q], [q, one]], [[one, one], [one, one]]]
        Fl = [("scalar", [[F(1, 1000)] * 2] * 2), ("scalar", [[h, h], [h, h]]), ("scalar", [[two, two], [two, two]]),
              ("vector", [[h, two], [h, two]]), ("vector", [[two, F(1, 1000)], [two, F(1, 1000)]]),
              ("matrix", [[h, F(1, 1000)], [two, h]])]
        if quick:
            Fl = Fl[:2] + Fl[3:4] + Fl[5:]
    return W, M, V, Fl


def model_run(ck, name, C, D, quick, dev=(), expect_violation=False, export=True, invariants=INV, props=PROPS,
              coverage=False):
    W, M, V, Fl = sets(C, D, quick)
    defs = {"MC_W": mc.Expr("{" + ", ".join(tla(w) for w in W) + "}"),
            "MC_M": mc.Expr("{" + ", ".join(mat(m) for m in M) + "}"),
            "MC_V": mc.Expr("{" + ", ".join(mat(v) for v in V) + "}"),
            "MC_F": mc.Expr("{" + ", ".join(floor(k, v) for k, v in Fl) + "}"),
            "MC_Eps": EPS,
            "MC_Dev": mc.Expr("{" + ", ".join('"%s"' % d for d in dev) + "}")}
    text = mc.module("MC_GmmMachine", ["GmmMachine"], defs)
    cfg = mc.cfg(consts={"C": C, "D": D},
                 subst={"WeightSet": "MC_W", "MeanSet": "MC_M", "VarSet": "MC_V", "FloorSet": "MC_F", "Eps": "MC_Eps",
                        "Dev": "MC_Dev"},
                 invariants=invariants, properties=props, view="View",
                 action_constraints=["Export"] if export else [])
    r = tlc.run(ck.work, "MC_GmmMachine", cfg, root_text=text, workers=16, coverage=coverage,
                expect_violation=expect_violation)
    ck.account(name, r, expect_violation=expect_violation)
    return r


# ------------------------------------------------------------------ implementation side
def arr(m):
    return np.array([[float(fr(x)) for x in row] for row in m], dtype=float)


def vec(v):
    return np.array([float(fr(x)) for x in v], dtype=float)


def floor_value(fl):
    a = arr(fl["val"])
    if fl["kind"] == "scalar":
        return float(a[0, 0])
    if fl["kind"] == "vector":
        return a[0].copy()
    return a


PROBES = {1: np.array([[0.3], [-1.7], [2.5], [40.0]]), 2: np.array([[0.3, 1.1], [-1.7, 0.0], [2.5, -3.0], [40.0, -35.0]])}


def oracle_ll(w, mu, var, X):
    """log sum_c w_c N(x; mu_c, diag(var_c)) evaluated directly (max-shifted log-sum-exp)."""
    X = np.atleast_2d(X)
    comp = []
    for c in range(len(w)):
        q = -0.5 * (np.sum((X - mu[c]) ** 2 / var[c], axis=1) + np.sum(np.log(2 * np.pi * var[c])))
        comp.append(np.log(w[c]) + q)
    comp = np.array(comp)
    mx = comp.max(axis=0)
    return mx + np.log(np.exp(comp - mx).sum(axis=0))


class Driver:
    """Executes abstract operations on a real GMMMachine."""

    def __init__(self, em, C, D, trainer, workdir):
        self.em, self.C, self.D, self.trainer, self.work = em, C, D, trainer, workdir
        self.n = 0

    def build(self, view):
        em = self.em
        if self.trainer == "map":
            prior = em.GMMMachine(self.C, mean_var_update_threshold=float(EPS))
            prior.means = np.arange(self.C * self.D, dtype=float).reshape(self.C, self.D)
            prior.variances = np.ones((self.C, self.D)) * 1.5
            self.prior = prior
            m = em.GMMMachine(self.C, trainer="map", ubm=prior, map_alpha=1.0, map_relevance_factor=None,
                              mean_var_update_threshold=float(EPS))
            m.variance_thresholds = float(EPS)
            m.weights = vec(view["w"])
        else:
            self.prior = None
            m = em.GMMMachine(self.C, weights=vec(view["w"]), mean_var_update_threshold=float(EPS))
        m.means = arr(view["mu"])
        m.variances = arr(view["var"])
        return m

    def apply(self, m, op):
        em = self.em
        name = op["name"]
        # a setter receives a fresh array, or the machine's own array after it was rewritten in place (what an
        # augmented assignment `m.weights /= s` amounts to: getter, in-place operation on that object, setter)
        self.n += 1
        style = self.n % 3
        # reading a public derived quantity between two operations changes nothing (one of them alone, so that they
        # are not always refreshed together)
        if self.n % 4 == 1:
            _ = m.g_norms
        elif self.n % 4 == 3:
            _ = m.log_weights
        if name == "SetW":
            if style == 0:
                m.weights = vec(op["w"])
            elif style == 1:
                w = m.weights
                if isinstance(w, np.ndarray) and w.dtype == float and w.flags.writeable:
                    w[:] = vec(op["w"])
                    m.weights = w
                else:
                    m.weights = vec(op["w"])
            else:
                cur = np.asarray(m.weights, dtype=float)
                if np.all(cur > 0):
                    m.weights *= vec(op["w"]) / cur
                    if not allclose(np.asarray(m.weights), vec(op["w"]), 1e-15):
                        m.weights = vec(op["w"])          # (rounding of the ratio: land exactly on the grid)
                else:
                    m.weights = vec(op["w"])
        elif name == "SetM":
            if style == 1 and isinstance(m.means, np.ndarray) and m.means.flags.writeable:
                mu = m.means
                mu[:] = arr(op["mu"])
                m.means = mu
            else:
                m.means = arr(op["mu"])
        elif name == "SetV":
            if style == 1 and isinstance(m.variances, np.ndarray) and m.variances.flags.writeable:
                v = m.variances
                v[:] = arr(op["var"])
                m.variances = v
            else:
                m.variances = arr(op["var"])
        elif name == "SetF":
            m.variance_thresholds = floor_value(op["fl"])
        elif name == "MStep":
            uw, um, uv = op["uw"], op["um"], op["uv"]
            tw, tm, tv = vec(op["w"]), arr(op["mu"]), arr(op["var"])
            t = 8
            st = em.GMMStats(self.C, self.D)
            st.t = t
            st.n = t * tw
            inplace = tm if um else np.asarray(m.means, dtype=float)
            st.sum_px = st.n[:, None] * inplace
            st.sum_pxx = st.n[:, None] * (tv + inplace ** 2)
            st.log_likelihood = -1.0
            m.update_weights, m.update_means, m.update_variances = uw, um, uv
            m.mean_var_update_threshold = float(EPS)
            from bob.learn.em.gmm import m_step
            m_step([st], m)
        elif name == "SetCountThr":
            # the count floor of the M-steps, changed after construction (both public ways)
            val = float(EPS) if op["x"] == "small" else 0.75
            if self.n % 2:
                m.set_params(mean_var_update_threshold=val)
            else:
                m.mean_var_update_threshold = val
            self.n += 1
        elif name == "Copy":
            m = copy.deepcopy(m)
        elif name == "Pickle":
            m = pickle.loads(pickle.dumps(m))
        elif name in ("SaveLoad", "LoadInto"):
            self.n += 1
            path = os.path.join(self.work, "m%d.hdf5" % self.n)
            m.save(path)
            if name == "SaveLoad":
                m = em.GMMMachine.from_hdf5(path, ubm=self.prior)
            else:
                if self.prior is not None:
                    # a MAP file can only be loaded into an object that has the prior to hand to the reader
                    other = em.GMMMachine(self.C, trainer="map", ubm=self.prior)
                    other.means = np.zeros((self.C, self.D))
                    other.variances = np.ones((self.C, self.D)) * 3.0
                else:
                    other = em.GMMMachine(self.C + 1)
                    other.means = np.zeros((self.C + 1, self.D))
                    other.variances = np.ones((self.C + 1, self.D)) * 3.0
                other.log_likelihood(PROBES[self.D])      # the existing object has a history: caches are populated
                other.acc_stats(PROBES[self.D][:2])
                other.load(path)
                m = other
            os.remove(path)
        else:
            raise ValueError(name)
        return m

    def compare(self, m, view):
        """visible parameters versus the model state; likelihoods versus a freshly built machine"""
        em = self.em
        if not allclose(np.asarray(m.weights), vec(view["w"]), 1e-12):
            return "VisibleState.weights", "expected %s, observed %s" % (vec(view["w"]).tolist(), np.asarray(m.weights).tolist())
        if not allclose(np.asarray(m.means), arr(view["mu"]), 1e-12):
            return "VisibleState.means", "expected %s, observed %s" % (arr(view["mu"]).tolist(), np.asarray(m.means).tolist())
        if not allclose(np.asarray(m.variances), arr(view["var"]), 1e-9):
            return "VisibleState.variances", "expected %s, observed %s" % (arr(view["var"]).tolist(), np.asarray(m.variances).tolist())
        fl = np.broadcast_to(np.asarray(m.variance_thresholds, dtype=float), (self.C, self.D))
        if not allclose(fl, arr(view["fl"]["val"]), 1e-12):
            return "VisibleState.floors", "expected %s, observed %s" % (arr(view["fl"]["val"]).tolist(), fl.tolist())
        if np.any(np.asarray(m.variances) < fl):
            return "VarAboveCurrentFloor", "variances %s below floors %s" % (np.asarray(m.variances).tolist(), fl.tolist())
        fresh = em.GMMMachine(self.C, weights=np.array(m.weights, dtype=float))
        fresh.means = np.array(m.means, dtype=float)
        fresh.variances = np.array(m.variances, dtype=float)
        X = PROBES[self.D]
        # independent evaluation from the visible parameters (a freshly built machine would share a defect of
        # the constructor / setters, so it is not the only reference)
        ref = oracle_ll(np.asarray(m.weights, dtype=float), np.asarray(m.means, dtype=float),
                        np.asarray(m.variances, dtype=float), X)
        a = np.asarray(m.log_likelihood(X))
        if not (np.all(np.isfinite(a)) and np.allclose(a, ref, rtol=1e-9, atol=1e-9)):
            return "FreshEquivalent.log_likelihood_vs_visible", "machine %s, mixture density of the visible parameters %s" % (a.tolist(), ref.tolist())
        a, b = np.asarray(m.log_likelihood(X)), np.asarray(fresh.log_likelihood(X))
        if not (np.all(np.isfinite(a)) and np.allclose(a, b, rtol=1e-12, atol=1e-12)):
            return "FreshEquivalent.log_likelihood", "machine %s, fresh machine with the same visible parameters %s" % (a.tolist(), b.tolist())
        a, b = np.asarray(m.log_weighted_likelihood(X)), np.asarray(fresh.log_weighted_likelihood(X))
        if not np.allclose(a, b, rtol=1e-12, atol=1e-12):
            return "FreshEquivalent.log_weighted_likelihood", "machine %s, fresh %s" % (a.tolist(), b.tolist())
        sa, sb = m.acc_stats(X[:3]), fresh.acc_stats(X[:3])
        for f in ("n", "sum_px", "sum_pxx", "log_likelihood"):
            if not np.allclose(getattr(sa, f), getattr(sb, f), rtol=1e-12, atol=1e-12):
                return "FreshEquivalent.acc_stats." + f, "machine %s, fresh %s" % (np.asarray(getattr(sa, f)).tolist(), np.asarray(getattr(sb, f)).tolist())
        return None, ""


def graph(records):
    """edges grouped by source state; BFS tree from the initial states (those that are never targets of a
    state-changing edge are found from the set of sources of edges whose op could not have produced them:
    we simply start from every state and prefer the shortest path from a constructible one)."""
    out = collections.defaultdict(list)
    for e in records:
        out[key(e["f"])].append(e)
    return out


def constructible(view):
    """A state the harness can build directly: floors at the default (Eps) value."""
    a = view["fl"]
    return a["kind"] == "scalar" and all(x == [EPS.numerator, EPS.denominator] for row in a["val"] for x in row)


def bfs_paths(out):
    paths = {}
    q = collections.deque()
    states = {}
    for k, lst in out.items():
        states[k] = lst[0]["f"]
        for e in lst:
            states.setdefault(key(e["t"]), e["t"])
    for k, v in states.items():
        if constructible(v):
            paths[k] = (v, [])
            q.append(k)
    while q:
        k = q.popleft()
        base, ops = paths[k]
        for e in out.get(k, []):
            kt = key(e["t"])
            if kt not in paths:
                paths[kt] = (base, ops + [e["o"]])
                q.append(kt)
    return paths, states
