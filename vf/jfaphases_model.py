"""Binding of specs/JfaPhases.tla (and specs/TraceJfa.tla) to JFAMachine training: scenario domains, TLC
runs, replay of the exported numeric scenarios through the public per-phase steps, the recorder that
turns an execution of the real `fit` into the control layer's events, and the independent NumPy
evaluators of the three phases (DESIGN.md Appendix D; trusted base, self-checked by quadrature)."""
from fractions import Fraction as F

import numpy as np

from . import mc, tlc
from .common import allclose, fr, tla

CONTROL_INV = ["PhaseOrder", "HandOverUsesFinalSubspace", "ZIsZeroInVAndU", "EachEStepSeesCurrentSubspace",
               "ShapesKept", "CNotStuck"]
NUMERIC_INV = ["PosteriorMomentsExact", "AccumulatorsAreMoments", "MStepSolvesNormalEq", "AuxNonDecreasing",
               "AllFinite", "NShapesKept"]
BY, BT, BA = 200, 15000, 40000         # scope of the 32-bit model (see the module)
NAMES = ["EStepV", "MStepV", "FinalizeV", "EStepU", "MStepU", "FinalizeU", "EStepD", "MStepD"]
INNER = ["update_y", "compute_latent_x", "compute_accumulators_V", "compute_accumulators_U"]
METHODS = {"e_step_v": "EStepV", "m_step_v": "MStepV", "finalize_v": "FinalizeV", "e_step_u": "EStepU",
           "m_step_u": "MStepU", "finalize_u": "FinalizeU", "e_step_d": "EStepD", "m_step_d": "MStepD"}

# value sets of the exact model
M_VALS = [F(-1), F(0), F(2)]
S_VALS = [F(1, 2), F(1), F(2)]
SUB_VALS = [F(-1), F(1, 2), F(1), F(2)]           # entries of V and U
D_VALS = [F(-1), F(1, 2), F(1), F(2)]
N_VALS = [F(1, 2), F(1), F(2)]
F_VALS = [F(-2), F(0), F(1), F(3)]
Y_VALS = [F(-1), F(0), F(1, 2), F(2)]
X_VALS = [F(-1), F(0), F(1, 2), F(1)]
LABELLINGS = [[1, 2], [1, 1, 2], [1, 2, 2], [1, 1, 2, 2], [1, 2, 1]]     # 2 classes x 1..2 sessions (one unsorted)


def random_scenario(rng, C, cls):
    H = len(cls)
    pick = rng.choice
    return {"nc": 2, "cls": list(cls),
            "m": [pick(M_VALS) for _ in range(C)], "s": [pick(S_VALS) for _ in range(C)],
            "V": [pick(SUB_VALS) for _ in range(C)], "U": [pick(SUB_VALS) for _ in range(C)],
            "D": [pick(D_VALS) for _ in range(C)],
            "N": [[pick(N_VALS) for _ in range(C)] for _ in range(H)],
            "F": [[pick(F_VALS) for _ in range(C)] for _ in range(H)],
            "y0": [pick(Y_VALS) for _ in range(2)], "x0": [pick(X_VALS) for _ in range(H)]}


def _consts(iters=(), dev=(), scenarios=()):
    return {"MC_Iters": mc.Expr("{" + ", ".join(str(k) for k in iters) + "}"),
            "MC_Dev": mc.Expr("{" + ", ".join('"%s"' % d for d in dev) + "}"),
            "MC_Scenarios": mc.Expr("{" + ",\n  ".join(tla(s) for s in scenarios) + "}")}


SUBST = {"Iters": "MC_Iters", "Dev": "MC_Dev", "Scenarios": "MC_Scenarios"}


def control_run(ck, name, iters, dev=(), invariants=CONTROL_INV, export=True, expect_violation=False, coverage=True):
    text = mc.module("MC_JfaPhases", ["JfaPhases"], _consts(iters=iters, dev=dev))
    cfg = mc.cfg(spec="CSpec", consts={"By": BY, "Bt": BT, "Ba": BA}, subst=SUBST, invariants=invariants,
                 constraints=["CExport"] if export else [])
    r = tlc.run(ck.work, "MC_JfaPhases", cfg, root_text=text, workers=1, coverage=coverage,
                expect_violation=expect_violation)
    ck.account(name, r, expect_violation=expect_violation)
    return r


def numeric_run(ck, name, scenarios, dev=(), invariants=NUMERIC_INV, export=True, expect_violation=False,
                coverage=False, workers=16):
    text = mc.module("MC_JfaPhases", ["JfaPhases"], _consts(dev=dev, scenarios=scenarios))
    cfg = mc.cfg(spec="NSpec", consts={"By": BY, "Bt": BT, "Ba": BA}, subst=SUBST, invariants=invariants,
                 constraints=["NExport"] if export else [])
    r = tlc.run(ck.work, "MC_JfaPhases", cfg, root_text=text, workers=workers, coverage=coverage,
                expect_violation=expect_violation)
    ck.account(name, r, expect_violation=expect_violation)
    return r


# ------------------------------------------------------------------ M2: the numeric scenarios on the real objects
def _f(q):
    return float(fr(q))


def build(em, k, iterations=1):
    """JFAMachine of rank 1 on a UBM with one feature per component in the scenario's current state, and
    the labelled statistics.  U, V, D are set AFTER construction (the constructor draws random ones)."""
    C = len(k["m"])
    ubm = em.GMMMachine(C)
    ubm.means = np.array([[_f(q)] for q in k["m"]])
    ubm.variances = np.array([[_f(q)] for q in k["s"]])
    ubm.weights = np.full(C, 1.0 / C)
    mach = em.JFAMachine(r_U=1, r_V=1, ubm=ubm, em_iterations=iterations)
    mach.V = np.array([[_f(q)] for q in k["V"]])
    mach.U = np.array([[_f(q)] for q in k["U"]])
    mach.D = np.array([_f(q) for q in k["D"]])
    stats = []
    for Nh, Fh in zip(k["N"], k["F"]):
        st = em.GMMStats(C, 1)
        st.n = np.array([_f(q) for q in Nh])
        st.sum_px = np.array([[_f(q)] for q in Fh])
        st.sum_pxx = np.zeros((C, 1))
        st.t = 1
        stats.append(st)
    labels = np.array([c - 1 for c in k["cls"]])
    nspc = [int(np.sum(labels == i)) for i in range(k["nc"])]
    return mach, stats, labels, nspc


def _sessions_of(k, i):
    return [h for h, c in enumerate(k["cls"]) if c == i + 1]


def replay_record(em, rec):
    """Perform the public steps that lead to the exported state and compare after every one.
    -> (verdict, detail): 'ok' or '<Action>.<field>'."""
    k, ph = rec["scn"], rec["phase"]
    mach, X, y, nspc = build(em, k)
    n_acc, f_acc = mach.initialize(X, y, k["nc"])
    C = len(k["m"])
    ly = np.array([[_f(q)] for q in k["y0"]])
    lx = [np.array([[_f(k["x0"][h]) for h in _sessions_of(k, i)]]) for i in range(k["nc"])]
    exp_acc = None
    if rec["acc"]:
        exp_acc = (np.array([_f(q) for q in rec["acc"]["a1"]]), np.array([_f(q) for q in rec["acc"]["a2"]]))
    exp_new = np.array([_f(q) for q in rec["new"]]) if rec["new"] else None

    def bad(what, exp, obs):
        return what, {"expected": np.asarray(exp).tolist(), "observed": np.asarray(obs, dtype=float).tolist()}

    try:
        if ph == "fV":
            got = mach.finalize_v(X, y, nspc, n_acc, f_acc)
            exp = np.array([[_f(q)] for q in rec["post"]["mean"]])
            if not allclose(got, exp):
                return bad("FinalizeV.y", exp, got)
            return "ok", None
        if ph == "fU":
            got = mach.finalize_u(X, y, nspc, ly)
            for i in range(k["nc"]):
                exp = np.array([[_f(rec["post"]["mean"][h]) for h in _sessions_of(k, i)]])
                if not allclose(got[i], exp):
                    return bad("FinalizeU.x", exp, got[i])
            return "ok", None
        kind = ph[1]
        if kind == "V":
            a1, a2 = mach.e_step_v(X, y, nspc, n_acc, f_acc)
        elif kind == "U":
            a1, a2 = mach.e_step_u(X, y, nspc, ly)
        else:
            a1, a2 = mach.e_step_d(X, y, nspc, lx, ly, n_acc, f_acc)
        a1 = np.asarray(a1, dtype=float)
        a2 = np.asarray(a2, dtype=float)
        want = {"V": ((C, 1, 1), (C, 1)), "U": ((C, 1, 1), (C, 1)), "D": ((C,), (C,))}[kind]
        if a1.shape != want[0] or a2.shape != want[1]:
            return "EStep%s.shape" % kind, {"expected": want, "observed": [a1.shape, a2.shape]}
        if not allclose(a1.reshape(-1), exp_acc[0]):
            return bad("EStep%s.A1" % kind, exp_acc[0], a1.reshape(-1))
        if not allclose(a2.reshape(-1), exp_acc[1]):
            return bad("EStep%s.A2" % kind, exp_acc[1], a2.reshape(-1))
        if ph[0] == "e":
            return "ok", None
        step = {"V": mach.m_step_v, "U": mach.m_step_u, "D": mach.m_step_d}[kind]
        ret = step([(a1, a2)])
        cur = {"V": mach.V, "U": mach.U, "D": mach.D}[kind]
        want = (C,) if kind == "D" else (C, 1)
        if np.shape(cur) != want:
            return "MStep%s.shape" % kind, {"expected": want, "observed": np.shape(cur)}
        if not allclose(np.asarray(cur, dtype=float).reshape(-1), exp_new):
            return bad("MStep%s.%s" % (kind, kind), exp_new, np.asarray(cur, dtype=float).reshape(-1))
        if not allclose(np.asarray(ret, dtype=float).reshape(-1), exp_new):
            return bad("MStep%s.returned" % kind, exp_new, np.asarray(ret, dtype=float).reshape(-1))
        return "ok", None
    except Exception as e:      # an exception on a valid scenario is a mismatch, not a machinery failure
        return "raised", {"observed": "%s: %s" % (type(e).__name__, e)}


# ------------------------------------------------------------------ independent evaluators (trusted base)
class Oracle:
    """The three phase models in plain NumPy, written from DESIGN.md Appendix D (dense solve / slogdet, no
    library internals).  Statistics: N (H, C), Fs (H, C, D); labels (H,) in 0..I-1; UBM means / variances
    (C, D).  Supervector order: component-major, as `ubm.means.flatten()`."""

    def __init__(self, means, variances, N, Fs, labels):
        means = np.asarray(means, dtype=float)
        self.dim = means.shape[1]
        self.C = means.shape[0]
        self.m = means.reshape(-1)
        self.s = np.asarray(variances, dtype=float).reshape(-1)
        self.CD = self.m.size
        N = np.asarray(N, dtype=float)
        self.H = N.shape[0]
        self.Nsv = np.repeat(N, self.dim, axis=1)                              # (H, CD)
        self.Fsv = np.asarray(Fs, dtype=float).reshape(self.H, -1)             # (H, CD)
        self.labels = np.asarray(labels)
        self.I = int(self.labels.max()) + 1
        self.sess = [np.where(self.labels == i)[0] for i in range(self.I)]

    # -- posteriors: precision L and linear term b of a latent w with offset  A w  on top of a fixed offset
    @staticmethod
    def _post(A, Nsv, s, resid):
        L = np.eye(A.shape[1]) + A.T @ (A * (Nsv / s)[:, None])
        b = A.T @ (resid / s)
        cov = np.linalg.inv(L)
        return L, b, cov, cov @ b

    def _class_tot(self, i):
        return self.Nsv[self.sess[i]].sum(axis=0), self.Fsv[self.sess[i]].sum(axis=0)

    def post_y(self, V, i):
        """V phase (x = z = 0): posterior of y_i."""
        Ni, Fi = self._class_tot(i)
        return self._post(V, Ni, self.s, Fi - Ni * self.m)

    def post_x(self, U, V, y, h):
        """U phase (y fixed, z = 0): posterior of x_h."""
        off = self.m + (V @ y[self.labels[h]] if y is not None else 0.0)
        return self._post(U, self.Nsv[h], self.s, self.Fsv[h] - self.Nsv[h] * off)

    def resid_z(self, U, V, y, x, i):
        Ni, Fi = self._class_tot(i)
        r = Fi - Ni * (self.m + V @ y[i])
        for j, h in enumerate(self.sess[i]):
            r = r - self.Nsv[h] * (U @ x[i][:, j])
        return Ni, r

    def post_z(self, D, U, V, y, x, i):
        """D phase (x, y fixed): per-coordinate posterior of z_i."""
        Ni, r = self.resid_z(U, V, y, x, i)
        L = 1.0 + D * D * Ni / self.s
        b = D / self.s * r
        return L, b, 1.0 / L, b / L

    # -- point estimates handed over
    def mean_y(self, V):
        return np.array([self.post_y(V, i)[3] for i in range(self.I)])

    def mean_x(self, U, V, y):
        return [np.array([self.post_x(U, V, y, h)[3] for h in self.sess[i]]).T for i in range(self.I)]

    # -- accumulators:  A1_c = sum N_c E[w w'],  A2 = sum (centred statistic) E[w]'
    def _n_c(self, Nsv_row):
        return Nsv_row[::self.dim]

    def acc_V(self, V):
        r = V.shape[1]
        A1, A2 = np.zeros((self.C, r, r)), np.zeros((self.CD, r))
        for i in range(self.I):
            _, _, cov, mean = self.post_y(V, i)
            Ni, Fi = self._class_tot(i)
            A1 += self._n_c(Ni)[:, None, None] * (cov + np.outer(mean, mean))[None]
            A2 += np.outer(Fi - Ni * self.m, mean)
        return A1, A2

    def acc_U(self, U, V, y):
        r = U.shape[1]
        A1, A2 = np.zeros((self.C, r, r)), np.zeros((self.CD, r))
        for h in range(self.H):
            _, _, cov, mean = self.post_x(U, V, y, h)
            off = self.m + (V @ y[self.labels[h]] if y is not None else 0.0)
            A1 += self._n_c(self.Nsv[h])[:, None, None] * (cov + np.outer(mean, mean))[None]
            A2 += np.outer(self.Fsv[h] - self.Nsv[h] * off, mean)
        return A1, A2

    def acc_D(self, D, U, V, y, x):
        A1, A2 = np.zeros(self.CD), np.zeros(self.CD)
        for i in range(self.I):
            _, _, cov, mean = self.post_z(D, U, V, y, x, i)
            Ni, r = self.resid_z(U, V, y, x, i)
            A1 += Ni * (cov + mean * mean)
            A2 += r * mean
        return A1, A2

    def solves(self, W, A1, A2, tol=1e-7):
        """the normal equations  W_c A1_c = A2_c  (D: elementwise) as a residual, relative to the size of the terms:
        independent of how the code solves them and of the conditioning of A1"""
        if W.shape != A2.shape or not np.all(np.isfinite(W)):
            return False
        if A1.ndim == 1:
            return bool(np.all(np.abs(W * A1 - A2) <= tol * (np.abs(W * A1) + np.abs(A2) + 1e-300)))
        for c in range(self.C):
            rows = slice(c * self.dim, (c + 1) * self.dim)
            res = W[rows] @ A1[c] - A2[rows]
            if np.any(np.abs(res) > tol * (np.abs(W[rows]) @ np.abs(A1[c]) + np.abs(A2[rows]) + 1e-300)):
                return False
        return True

    # -- marginal log-likelihoods of the phases, up to constants that do not depend on the trained subspace
    @staticmethod
    def _quad(L, b):
        return 0.5 * b @ np.linalg.solve(L, b) - 0.5 * np.linalg.slogdet(L)[1]

    def marg_V(self, V):
        return float(sum(self._quad(*self.post_y(V, i)[:2]) for i in range(self.I)))

    def marg_U(self, U, V, y):
        return float(sum(self._quad(*self.post_x(U, V, y, h)[:2]) for h in range(self.H)))

    def marg_D(self, D, U, V, y, x):
        tot = 0.0
        for i in range(self.I):
            L, b, _, _ = self.post_z(D, U, V, y, x, i)
            tot += np.sum(0.5 * b * b / L - 0.5 * np.log(L))
        return float(tot)


def _logint(logf, grid):
    """log of the integral of exp(logf) over a uniform grid (trapezoid, max-shifted)."""
    v = logf - logf.max()
    w = np.full(grid.shape[0], grid[1] - grid[0])
    w[0] *= 0.5
    w[-1] *= 0.5
    return float(logf.max() + np.log(np.sum(np.exp(v) * w)))


def selfcheck_evaluators():
    """The marginal evaluators against brute-force numerical integration of the DEFINING integrand
    (log p(data | latent) + log N(latent; 0, 1), written with explicit loops) on a 1-D instance, and the V / U
    evaluators at rank 2 against a 2-D grid.  Returns None or a description of the failure."""
    m, s = 0.3, 0.7
    V, U, Dd = -0.6, 0.9, 0.8
    N = [1.5, 0.5, 2.0]
    Fv = [1.1, -0.4, 1.7]
    lab = [0, 0, 1]
    o = Oracle([[m]], [[s]], [[n] for n in N], [[[f]] for f in Fv], lab)
    g = np.linspace(-14.0, 14.0, 280001)
    lognorm = -0.5 * g * g - 0.5 * np.log(2 * np.pi)

    def loglik(h, off):        # log p(session h | offset) up to constants
        return off * (Fv[h] - N[h] * m) / s - 0.5 * N[h] * off * off / s

    ref = sum(_logint(lognorm + sum(loglik(h, V * g) for h in range(3) if lab[h] == i), g) for i in (0, 1))
    got = o.marg_V(np.array([[V]]))
    if abs(ref - got) > 1e-8 * max(1.0, abs(ref)):
        return "V-phase marginal differs from quadrature: %r vs %r" % (got, ref)
    y = np.array([[0.4], [-1.1]])
    ref = sum(_logint(lognorm + loglik(h, V * y[lab[h], 0] + U * g), g) for h in range(3))
    # the evaluator drops the part of log p that does not depend on U: the value at x = 0
    ref -= sum(float(loglik(h, V * y[lab[h], 0])) for h in range(3))
    got = o.marg_U(np.array([[U]]), np.array([[V]]), y)
    if abs(ref - got) > 1e-8 * max(1.0, abs(ref)):
        return "U-phase marginal differs from quadrature: %r vs %r" % (got, ref)
    x = [np.array([[0.3, -0.2]]), np.array([[0.7]])]
    xs = [0.3, -0.2, 0.7]
    ref = 0.0
    for i in (0, 1):
        hs = [h for h in range(3) if lab[h] == i]
        ref += _logint(lognorm + sum(loglik(h, V * y[i, 0] + U * xs[h] + Dd * g) for h in hs), g)
        ref -= sum(float(loglik(h, V * y[i, 0] + U * xs[h])) for h in hs)
    got = o.marg_D(np.array([Dd]), np.array([[U]]), np.array([[V]]), y, x)
    if abs(ref - got) > 1e-8 * max(1.0, abs(ref)):
        return "D-phase marginal differs from quadrature: %r vs %r" % (got, ref)
    # rank 2, two components x two features, 2-D grid
    r = np.random.RandomState(5)
    means, var = r.normal(size=(2, 2)), r.uniform(0.5, 2.0, size=(2, 2))
    N2 = r.uniform(0.3, 1.5, size=(3, 2))
    F2 = N2[:, :, None] * (means[None] + r.normal(size=(3, 2, 2)))
    o2 = Oracle(means, var, N2, F2, lab)
    W = r.normal(size=(4, 2)) * 0.7
    g1 = np.linspace(-9.0, 9.0, 801)
    G = np.stack(np.meshgrid(g1, g1, indexing="ij"), axis=-1).reshape(-1, 2)          # (P, 2)
    logn2 = -0.5 * np.sum(G * G, axis=1) - np.log(2 * np.pi)
    cell = (g1[1] - g1[0]) ** 2

    def ll2(h, off):           # off: (P, 4)
        return np.sum(off * (o2.Fsv[h] - o2.Nsv[h] * o2.m) / o2.s - 0.5 * o2.Nsv[h] * off * off / o2.s, axis=1)

    def logint2(lf):
        return float(lf.max() + np.log(np.sum(np.exp(lf - lf.max())) * cell))

    ref = sum(logint2(logn2 + sum(ll2(h, G @ W.T) for h in range(3) if lab[h] == i)) for i in (0, 1))
    got = o2.marg_V(W)
    if abs(ref - got) > 1e-6 * max(1.0, abs(ref)):
        return "rank-2 V-phase marginal differs from 2-D quadrature: %r vs %r" % (got, ref)
    y2 = r.normal(size=(2, 2))
    V2 = r.normal(size=(4, 2)) * 0.5
    ref = 0.0
    for h in range(3):
        base = (V2 @ y2[lab[h]])[None, :]
        ref += logint2(logn2 + ll2(h, base + G @ W.T)) - float(ll2(h, base)[0])
    got = o2.marg_U(W, V2, y2)
    if abs(ref - got) > 1e-6 * max(1.0, abs(ref)):
        return "rank-2 U-phase marginal differs from 2-D quadrature: %r vs %r" % (got, ref)
    return None


# ------------------------------------------------------------------ recording an execution of the real fit
def _same(a, b, tol=1e-9):
    a, b = np.asarray(a, dtype=float), np.asarray(b, dtype=float)
    return a.shape == b.shape and bool(np.all(np.isfinite(a))) and bool(
        np.all(np.abs(a - b) <= tol * np.maximum(1.0, np.abs(b))))


def _is_zero(a):
    if a is None:
        return True
    if isinstance(a, (list, tuple)):
        return all(_is_zero(x) for x in a)
    return bool(np.all(np.asarray(a, dtype=float) == 0.0))


class Recorder:
    """Wraps the eight public per-phase steps ON THE INSTANCE (nothing in /repo changes), keeps a copy of V, U, D
    after every M-step, and turns every call into one event of specs/JfaPhases.tla's control layer.  All tags
    are determined by value with the independent evaluators: an estimate carries the tag of the subspace
    version whose exact posterior mean it equals."""

    def __init__(self, mach, oracle):
        self.mach, self.o = mach, oracle
        self.Vs, self.Us, self.Ds = [np.array(mach.V, dtype=float)], [np.array(mach.U, dtype=float)], \
                                    [np.array(mach.D, dtype=float)]
        self.shapes = (np.shape(mach.V), np.shape(mach.U), np.shape(mach.D))
        self.events = []
        self.last_acc = None
        self.ly = self.lx = None          # the estimates returned by finalize_v / finalize_u
        self.inner = []                   # (z is zero, x is zero) as seen by the public helpers inside a step
        for meth in METHODS:
            setattr(mach, meth, self._wrap(meth, getattr(mach, meth)))
        for meth in INNER:
            if callable(getattr(mach, meth, None)):
                setattr(mach, meth, self._wrap_inner(meth, getattr(mach, meth)))

    def _wrap_inner(self, meth, orig):
        """update_y, compute_latent_x, compute_accumulators_V/U are public too: when a step goes through them, the
        latent_z (and latent_x) they are given is observed directly."""
        import inspect
        sig = inspect.signature(orig)

        def call(*args, **kw):
            try:
                a = sig.bind(*args, **kw).arguments
                self.inner.append((meth, _is_zero(a.get("latent_z")),
                                   _is_zero(a.get("latent_x")) if meth != "compute_accumulators_U" else True))
            except TypeError:
                pass
            return orig(*args, **kw)

        return call

    # version of the array the machine holds now (latest first); -9 = not a recorded version
    @staticmethod
    def _version(cur, versions):
        for v in range(len(versions) - 1, -1, -1):
            if np.shape(cur) == versions[v].shape and np.array_equal(np.asarray(cur, dtype=float), versions[v]):
                return v
        return -9

    def _ytag(self, y):
        if _is_zero(y):
            return -1
        for v in range(len(self.Vs) - 1, -1, -1):
            if _same(y, self.o.mean_y(self.Vs[v])):
                return v
        return -9

    def _xtag(self, x, y, V):
        """(version of U, tag of the y held fixed) such that x is the exact posterior mean of the channel
        factors given that U, the y passed along and the current V."""
        if _is_zero(x):
            return -1, -1
        yt = self._ytag(y)
        for u in range(len(self.Us) - 1, -1, -1):
            exp = self.o.mean_x(self.Us[u], V, None if y is None else np.asarray(y, dtype=float))
            if len(exp) == len(x) and all(_same(a, b) for a, b in zip(x, exp)):
                return u, yt
        return -9, -9

    def _shapes_ok(self):
        m = self.mach
        return bool((np.shape(m.V), np.shape(m.U), np.shape(m.D)) == self.shapes
                    and all(np.all(np.isfinite(np.asarray(a, dtype=float))) for a in (m.V, m.U, m.D)))

    def _wrap(self, meth, orig):
        name = METHODS[meth]

        def call(*args, **kw):
            m, o = self.mach, self.o
            V0, U0, D0 = (np.array(a, dtype=float) for a in (m.V, m.U, m.D))
            ev = {"name": name, "v": self._version(V0, self.Vs), "u": self._version(U0, self.Us),
                  "d": self._version(D0, self.Ds), "y": -1, "xu": -1, "xy": -1, "z": 0, "exact": True, "shapes": True}
            import inspect
            bound = inspect.signature(orig).bind(*args, **kw)
            a = bound.arguments
            ly, lx = a.get("latent_y"), a.get("latent_x")
            self.inner = []
            out = orig(*args, **kw)
            if name in ("EStepV", "FinalizeV", "EStepU", "FinalizeU"):
                # directly observed where the step goes through the public helpers; otherwise z = 0 is part of
                # the independent evaluation behind `exact`
                ev["z"] = 0 if all(zz for _, zz, _ in self.inner) else 1
                if name in ("EStepV", "FinalizeV") and not all(xz for _, _, xz in self.inner):
                    ev["xu"] = ev["xy"] = -9
            if name == "EStepV":
                ev["exact"] = self._acc_eq(out, o.acc_V(V0))
                self.last_acc = out
            elif name == "FinalizeV":
                self.ly = out
                ev["y"] = self._ytag(out)
                ev["exact"] = _same(out, o.mean_y(V0))
            elif name == "EStepU":
                ev["y"] = self._ytag(ly)
                ev["exact"] = self._acc_eq(out, o.acc_U(U0, V0, None if ly is None else np.asarray(ly, dtype=float)))
                self.last_acc = out
            elif name == "FinalizeU":
                ev["y"] = self._ytag(ly)
                self.lx = out
                ev["xu"], ev["xy"] = self._xtag(out, ly, V0)
                exp = o.mean_x(U0, V0, None if ly is None else np.asarray(ly, dtype=float))
                ev["exact"] = len(exp) == len(out) and all(_same(p, q) for p, q in zip(out, exp))
            elif name == "EStepD":
                ev["y"] = self._ytag(ly)
                ev["xu"], ev["xy"] = self._xtag(lx, ly, V0)
                ev["z"] = 1
                if ly is not None and lx is not None:
                    ev["exact"] = self._acc_eq(out, o.acc_D(D0, U0, V0, np.asarray(ly, dtype=float), lx))
                else:
                    ev["exact"] = False
                self.last_acc = out
            else:       # an M-step: the accumulators of the latest E-step, solved per component
                lst = a.get(list(a)[0])
                fresh = self.last_acc is not None and len(lst) == 1 and self._acc_eq(lst[0], self.last_acc)
                A1, A2 = np.asarray(lst[0][0], dtype=float), np.asarray(lst[0][1], dtype=float)
                cur, vers = {"MStepV": (m.V, self.Vs), "MStepU": (m.U, self.Us), "MStepD": (m.D, self.Ds)}[name]
                ev["exact"] = bool(fresh and o.solves(np.asarray(cur, dtype=float), A1, A2))
                vers.append(np.array(cur, dtype=float))
            ev["shapes"] = self._shapes_ok()
            self.events.append(ev)
            return out

        return call

    @staticmethod
    def _acc_eq(got, exp):
        return len(got) == 2 and _same(got[0], exp[0]) and _same(got[1], exp[1])
