"""Binding of specs/FaLatent.tla to ISVMachine / JFAMachine: configuration generation, TLC runs,
replay of exported edges through the public block updates and `enroll`, and the independent
NumPy evaluators of the enrolment objective J and of its mode (DESIGN.md Appendix D)."""
from fractions import Fraction as F

import json
import numpy as np

from . import mc, tlc
from .common import allclose, fr, tla

DEVIATION = "JFA_FN_Y_MINUS_DZ"
INVARIANTS = ["PrecisionPositive", "BlockIsArgmax", "EnrollIsBlockwise"]
PROPERTIES = ["AffineInvariant"]

# value sets of the exact model (small integers and simple fractions)
M_VALS = [F(-1), F(0), F(2)]
S_VALS = [F(1, 2), F(1), F(2)]
U_VALS = [F(-1), F(1), F(2)]
V_VALS = [F(-1), F(1), F(2)]
D_VALS = [F(1, 2), F(1), F(2)]
N_VALS = [F(1, 2), F(1), F(2)]
F_VALS = [F(-2), F(0), F(1), F(3)]
LAT_VALS = [F(-1), F(-1, 2), F(0), F(1, 2), F(1), F(2)]
AFFS = [(F(2), F(1)), (F(-1), F(3)), (F(1, 2), F(-1))]


def config(jfa, m, s, U, V, D, N, Fs, enroll="no"):
    return {"jfa": bool(jfa), "enroll": enroll, "m": list(m), "s": list(s), "U": list(U), "V": list(V), "D": list(D),
            "N": [list(r) for r in N], "F": [list(r) for r in Fs]}


def _axes(C, H, jfa):
    """The coordinate axes of the configuration space of one shape (mixed radix, fixed order)."""
    ax = [("m", c) for c in range(C)] + [("s", c) for c in range(C)] + [("U", c) for c in range(C)]
    if jfa:
        ax += [("V", c) for c in range(C)]
    ax += [("D", c) for c in range(C)]
    ax += [("N", (h, c)) for h in range(H) for c in range(C)] + [("F", (h, c)) for h in range(H) for c in range(C)]
    return ax


VALS = dict(m=M_VALS, s=S_VALS, U=U_VALS, V=V_VALS, D=D_VALS, N=N_VALS, F=F_VALS)


def space_size(C, H, jfa):
    n = 1
    for k, _ in _axes(C, H, jfa):
        n *= len(VALS[k])
    return n


def config_at(C, H, jfa, index, enroll="no"):
    """The index-th configuration of the shape (mixed-radix decoding of the index)."""
    k = {"m": [None] * C, "s": [None] * C, "U": [None] * C, "V": [F(0)] * C, "D": [None] * C,
         "N": [[None] * C for _ in range(H)], "F": [[None] * C for _ in range(H)]}
    for name, pos in _axes(C, H, jfa):
        vals = VALS[name]
        index, d = divmod(index, len(vals))
        if name in ("N", "F"):
            k[name][pos[0]][pos[1]] = vals[d]
        else:
            k[name][pos] = vals[d]
    return config(jfa, k["m"], k["s"], k["U"], k["V"], k["D"], k["N"], k["F"], enroll=enroll)


def fixed_configs(C, H, jfa, n, enroll="no", salt=0):
    """A seed-independent list: the whole space of the shape when it has at most n elements, otherwise n
    configurations at a constant stride (a prime that divides no axis length, so all indices differ).
    Used where the checked formula stays within 32 bits only on part of the domain: these lists were
    run through TLC when the check was built and never change."""
    total = space_size(C, H, jfa)
    if total <= n:
        return [config_at(C, H, jfa, i, enroll) for i in range(total)]
    return [config_at(C, H, jfa, (salt + 7919 + i * 1000003) % total, enroll) for i in range(n)]


def random_config(rng, C, H, jfa, enroll="no"):
    return config_at(C, H, jfa, rng.randrange(space_size(C, H, jfa)), enroll)


def model_run(ck, name, cfgs, lat=LAT_VALS, affs=AFFS, dev=(), invariants=INVARIANTS, properties=(), export=False,
              expect_violation=False, coverage=False, workers=16):
    """One exhaustive TLC run: every configuration x every latent state over `lat` x every action."""
    defs = {"MC_Configs": mc.Expr("{" + ",\n  ".join(tla(c) for c in cfgs) + "}"),
            "MC_LatVals": mc.Expr("{" + ", ".join(tla(q) for q in lat) + "}"),
            "MC_Affs": mc.Expr("{" + ", ".join(tla([a, b]) for a, b in affs) + "}"),
            "MC_Dev": mc.Expr("{" + ", ".join('"%s"' % d for d in dev) + "}")}
    text = mc.module("MC_FaLatent", ["FaLatent"], defs)
    cfg = mc.cfg(subst={"Configs": "MC_Configs", "LatVals": "MC_LatVals", "Affs": "MC_Affs", "Dev": "MC_Dev"},
                 invariants=invariants, properties=properties, action_constraints=["Export"] if export else [])
    r = tlc.run(ck.work, "MC_FaLatent", cfg, root_text=text, workers=workers, coverage=coverage,
                expect_violation=expect_violation)
    ck.account(name, r, expect_violation=expect_violation)
    return r


# ------------------------------------------------------------------ the implementation side
def _f(q):
    return float(fr(q))


def build_machine(em, k, iterations=1, past=0):
    """ISVMachine / JFAMachine of rank 1 on a UBM with one feature per component; parameters and
    statistics set directly from the exported configuration."""
    C = len(k["m"])
    ubm = em.GMMMachine(C)
    ubm.means = np.array([[_f(q)] for q in k["m"]])
    ubm.variances = np.array([[_f(q)] for q in k["s"]])
    ubm.weights = np.full(C, 1.0 / C)
    if k["jfa"]:
        mach = em.JFAMachine(r_U=1, r_V=1, ubm=ubm, enroll_iterations=iterations)
        mach.V = np.array([[_f(q)] for q in k["V"]])
    else:
        mach = em.ISVMachine(r_U=1, ubm=ubm, enroll_iterations=iterations)
    mach.U = np.array([[_f(q)] for q in k["U"]])
    mach.D = np.array([_f(q) for q in k["D"]])
    if past:
        # a machine with a past (round eight): it held OTHER subspaces / a UBM with other variances, enrolled a client
        # in that state, and is then brought into the scenario's state -- past 1: in place through the documented
        # U / V / D arrays and by assigning the variances of the SAME UBM object; past 2: by assigning new arrays
        U0, D0, s0 = np.array(mach.U), np.array(mach.D), np.array(ubm.variances)
        V0 = np.array(mach.V) if k["jfa"] else None
        mach.U, mach.D = U0 * 2.0 + 0.5, D0 * 0.5 + 0.25
        if k["jfa"]:
            mach.V = V0 * 0.5 - 0.75
        ubm.variances = s0 * 2.0 + 0.5
        warm = em.GMMStats(C, 1)
        warm.n, warm.sum_px, warm.sum_pxx, warm.t = np.full(C, 1.5), np.full((C, 1), 0.75), np.ones((C, 1)), 3
        mach.enroll([warm, warm])
        ubm.variances = s0
        if past == 1:
            mach.U[...] = U0
            mach.D[...] = D0
            if k["jfa"]:
                mach.V[...] = V0
        else:
            mach.U, mach.D = U0.copy(), D0.copy()
            if k["jfa"]:
                mach.V = V0.copy()
    stats = []
    for Nh, Fh in zip(k["N"], k["F"]):
        st = em.GMMStats(C, 1)
        st.n = np.array([_f(q) for q in Nh])
        st.sum_px = np.array([[_f(q)] for q in Fh])
        st.sum_pxx = np.zeros((C, 1))
        st.t = 1
        stats.append(st)
    return mach, stats


def subspace_prod(mach, M):
    """M_c' diag(1/var_c) M_c per component, shape (C, r, r): the `UProd` / `VProd` argument the public block
    updates take, computed here from public attributes (U/V, ubm.variances)."""
    var = np.asarray(mach.ubm.variances, dtype=float)
    C, D = var.shape
    Mc = np.asarray(M, dtype=float).reshape(C, D, -1)
    return np.einsum("cdr,cd,cds->crs", Mc, 1.0 / var, Mc)


def class_sums(X):
    """Zeroth and first order statistics pooled over the sessions of the single class: the `n_acc` / `f_acc`
    arguments of the public block updates."""
    n_acc = np.sum([np.asarray(s.n, dtype=float) for s in X], axis=0)[None]
    f_acc = np.sum([np.asarray(s.sum_px, dtype=float) for s in X], axis=0)[None]
    return n_acc, f_acc


def call_step(em, rec):
    """Perform the exported action on the real objects, with the model's current latent state, the
    way `enroll` calls the block updates.  Returns the projected post-state {y, x, z}."""
    k, act, pre = rec["cfg"], rec["act"], rec["pre"]
    import zlib
    past = zlib.crc32(json.dumps([k, act], sort_keys=True, default=str).encode()) % 3 if act == "EnrollIter" else 0
    mach, X = build_machine(em, k, past=past)
    H = len(X)
    labels = list(np.zeros(H, dtype=np.int32))
    ly = np.array([[_f(pre["y"])]]) if k["jfa"] else None
    lx = [np.array([[_f(q) for q in pre["x"]]])]            # (r_U, n_sessions) for the single class
    lz = np.array([[_f(q) for q in pre["z"]]])              # (1, C*D)
    n_acc, f_acc = class_sums(X)
    if act == "UpdY":
        ly = mach.update_y(X=X, y=labels, n_classes=1, VProd=subspace_prod(mach, mach.V), latent_x=lx, latent_y=ly,
                           latent_z=lz, n_acc=n_acc, f_acc=f_acc)
    elif act == "UpdX":
        lx = mach.compute_latent_x(X=X, y=labels, n_classes=1, UProd=subspace_prod(mach, mach.U), latent_y=ly, latent_z=lz)
    elif act == "UpdZ":
        lz = mach.update_z(X=X, y=labels, latent_x=lx, latent_y=ly, latent_z=lz, n_acc=n_acc, f_acc=f_acc)
    elif act == "EnrollIter":
        out = mach.enroll(X)
        if k["jfa"]:
            ey, ez = out
            ly = np.asarray(ey, dtype=float).reshape(1, -1)
            lz = np.asarray(ez, dtype=float).reshape(1, -1)
        else:
            lz = np.asarray(out, dtype=float).reshape(1, -1)
        # the channel factors are not returned: x of the first iteration = compute_latent_x at (y_1, z = 0)
        lx = mach.compute_latent_x(X=X, y=labels, n_classes=1, UProd=subspace_prod(mach, mach.U), latent_y=ly,
                                   latent_z=np.zeros_like(lz))
    else:
        raise ValueError(act)
    return {"y": float(np.asarray(ly, dtype=float).reshape(-1)[0]) if k["jfa"] else 0.0,
            "x": np.asarray(lx[0], dtype=float).reshape(-1).tolist(),
            "z": np.asarray(lz, dtype=float).reshape(-1).tolist()}


def replay_edge(em, rec):
    """-> (verdict, detail): 'ok' | name of the mismatching field; detail carries expected / observed."""
    exp = {"y": _f(rec["post"]["y"]), "x": [_f(q) for q in rec["post"]["x"]], "z": [_f(q) for q in rec["post"]["z"]]}
    try:
        obs = call_step(em, rec)
    except Exception as e:      # an exception on a valid configuration is a mismatch, not a machinery failure
        return "raised", {"expected": exp, "observed": "%s: %s" % (type(e).__name__, e)}
    for fld in ("y", "x", "z"):
        if not allclose(obs[fld], exp[fld]):
            d = {"field": fld, "expected": exp, "observed": obs}
            if rec["act"] == "UpdY" and fld == "y" and allclose(obs["y"], _f(rec["asimpl"])) \
                    and not allclose(_f(rec["asimpl"]), exp["y"]):
                d["matches_deviation"] = DEVIATION
            return fld, d
    return "ok", None


# ------------------------------------------------------------------ independent evaluators (M3, trusted base)
class Problem:
    """Enrolment problem in plain NumPy: J(y, x, z) and its mode.  Written from Appendix D only:
    log p = sum_h sum_c [ d_hc' S_c^-1 Ft_hc - 1/2 N_hc d_hc' S_c^-1 d_hc ],  d_hc = V_c y + U_c x_h + D_c o z_c,
    J = log p - 1/2 |y|^2 - 1/2 sum_h |x_h|^2 - 1/2 |z|^2."""

    def __init__(self, m, s, U, V, D, N, Fs):
        self.m = np.asarray(m, dtype=float).reshape(-1)          # (C*D,) supervector
        self.s = np.asarray(s, dtype=float).reshape(-1)
        self.CD = self.m.size
        self.U = np.asarray(U, dtype=float).reshape(self.CD, -1)
        self.V = None if V is None else np.asarray(V, dtype=float).reshape(self.CD, -1)
        self.D = np.asarray(D, dtype=float).reshape(-1)
        N = np.asarray(N, dtype=float)                              # (H, C)
        Fs = np.asarray(Fs, dtype=float)                            # (H, C, D)
        self.H = N.shape[0]
        dim = Fs.shape[2]
        self.Nsv = np.repeat(N, dim, axis=1)                        # (H, C*D)
        self.Ft = Fs.reshape(self.H, -1) - self.Nsv * self.m        # centred first-order statistics
        self.rU = self.U.shape[1]
        self.rV = 0 if self.V is None else self.V.shape[1]
        self.size = self.rV + self.H * self.rU + self.CD

    def offsets(self, y, x, z):
        """x: (H, r_U).  -> (H, C*D)"""
        d = np.tile(self.D * z, (self.H, 1)) + x @ self.U.T
        if self.rV:
            d = d + self.V @ y
        return d

    def J(self, y, x, z):
        d = self.offsets(y, x, z)
        ll = np.sum(d * self.Ft / self.s) - 0.5 * np.sum(self.Nsv * d * d / self.s)
        pr = 0.5 * np.sum(z * z) + 0.5 * np.sum(x * x) + (0.5 * np.sum(y * y) if self.rV else 0.0)
        return float(ll - pr)

    def design(self):
        """Matrix A_h with d_h = A_h theta, theta = [y | x_1 .. x_H | z]."""
        A = np.zeros((self.H, self.CD, self.size))
        for h in range(self.H):
            if self.rV:
                A[h, :, :self.rV] = self.V
            o = self.rV + h * self.rU
            A[h, :, o:o + self.rU] = self.U
            A[h, :, self.rV + self.H * self.rU:] = np.diag(self.D)
        return A

    def normal_equations(self):
        """grad J = b - P theta;  P = I + sum_h A_h' diag(N_h / s) A_h,  b = sum_h A_h' (Ft_h / s)."""
        A = self.design()
        P = np.eye(self.size)
        b = np.zeros(self.size)
        for h in range(self.H):
            P += A[h].T @ (A[h] * (self.Nsv[h] / self.s)[:, None])
            b += A[h].T @ (self.Ft[h] / self.s)
        return P, b

    def split(self, theta):
        y = theta[:self.rV]
        x = theta[self.rV:self.rV + self.H * self.rU].reshape(self.H, self.rU)
        z = theta[self.rV + self.H * self.rU:]
        return y, x, z

    def mode(self):
        P, b = self.normal_equations()
        theta = np.linalg.solve(P, b)
        return self.split(theta), P, b

    def contraction(self):
        """Spectral radius of the exact block Gauss-Seidel sweep (y, then all x_h, then z) on P: the
        asymptotic per-iteration error factor of exact alternating maximisation of J."""
        P, _ = self.normal_equations()
        bounds = [0, self.rV, self.rV + self.H * self.rU, self.size]
        blocks = [(a, b) for a, b in zip(bounds[:-1], bounds[1:]) if b > a]
        L = np.zeros_like(P)
        for i, (a, b) in enumerate(blocks):
            for (c, d) in blocks[:i + 1]:
                L[a:b, c:d] = P[a:b, c:d]
        G = -np.linalg.solve(L, P - L)
        return float(np.max(np.abs(np.linalg.eigvals(G))))


def selfcheck_evaluators(rng):
    """The evaluators against brute force on a 1-D instance (no library code involved): the mode from the
    linear solve must beat 200 random perturbations of every scale, the gradient b - P theta must match
    central finite differences of J, and J must equal its definition written out with explicit loops.
    Returns None or a description of the failure."""
    p = Problem(m=[0.3], s=[0.7], U=[[0.9]], V=[[-0.6]], D=[0.8], N=[[1.5], [0.5]], Fs=[[[1.1]], [[-0.4]]])
    (y, x, z), P, b = p.mode()
    j0 = p.J(y, x, z)
    th0 = np.concatenate([y, x.reshape(-1), z])
    for _ in range(200):
        d = rng.normal(size=th0.size) * 10 ** rng.uniform(-4, 0)
        if p.J(*p.split(th0 + d)) > j0 + 1e-12:
            return "mode is not a maximum of J"
    th = rng.normal(size=th0.size)
    g = b - P @ th
    for i in range(th.size):
        e = np.zeros(th.size)
        e[i] = 1e-5
        fd = (p.J(*p.split(th + e)) - p.J(*p.split(th - e))) / 2e-5
        if abs(fd - g[i]) > 1e-6 * max(1.0, abs(g[i])):
            return "gradient of J does not match finite differences"
    # J against the definition written out with explicit loops (one feature, two sessions)
    yy, xx, zz = p.split(th)
    ref = -0.5 * yy[0] ** 2 - 0.5 * zz[0] ** 2
    for h, (n, f) in enumerate([(1.5, 1.1), (0.5, -0.4)]):
        dlt = -0.6 * yy[0] + 0.9 * xx[h, 0] + 0.8 * zz[0]
        ref += dlt * (f - n * 0.3) / 0.7 - 0.5 * n * dlt * dlt / 0.7 - 0.5 * xx[h, 0] ** 2
    if abs(ref - p.J(yy, xx, zz)) > 1e-12 * max(1.0, abs(ref)):
        return "J does not match its written-out definition"
    return None
