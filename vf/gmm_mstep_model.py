"""Binding of specs/GmmMStep.tla to ml_gmm_m_step / map_gmm_m_step."""
import itertools
from fractions import Fraction as F

import numpy as np

from . import mc, tlc
from .common import allclose, fr, tla

INV_ML = ["MLStationary", "WeightsOnSimplex", "VarAboveFloor", "AffineEquivariant"]
INV_MAP = ["MAPIsBlend", "MAPFixedAlpha", "MAPWeights", "NoEvidenceKeepsPrior", "RelevanceLimits", "WeightsOnSimplex",
           "VarAboveFloor", "AffineEquivariant"]
CTHR = F(1, 1000)
XV = [-1, 0, 2, 3]
RV = [F(0), F(1, 4), F(1, 2), F(1)]
OLD_MEANS = [[F(0), F(3)], [F(-2), F(1)], [F(1), F(1)]]
OLD_VARS = [[F(1), F(4)]]
OLD_W = [[F(1, 4), F(3, 4)]]
RELS = [(True, F(4)), (True, F(1, 2)), (True, F(20)), (False, F(1, 2)), (False, F(0)), (False, F(1))]
VFL = [F(1, 1000), F(1, 2)]


def samples(n):
    out = []
    for x in itertools.combinations_with_replacement(XV, n):
        for r in itertools.product(RV, repeat=n):
            out.append({"x": list(x), "r": list(r)})
    return out


def model_run(ck, name, smp, kinds, dev=(), expect_violation=False, export=True, coverage=False, invariants=None,
              rels=RELS, old_means=OLD_MEANS):
    n = len(smp[0]["x"])
    defs = {"MC_S": mc.Expr("{" + ", ".join(tla(s) for s in smp) + "}"),
            "MC_OM": mc.Expr("{" + ", ".join(tla(m) for m in old_means) + "}"),
            "MC_OV": mc.Expr("{" + ", ".join(tla(m) for m in OLD_VARS) + "}"),
            "MC_OW": mc.Expr("{" + ", ".join(tla(m) for m in OLD_W) + "}"),
            "MC_Rels": mc.Expr("{" + ", ".join("[reynolds |-> %s, val |-> %s]" % ("TRUE" if a else "FALSE", tla(v))
                                               for a, v in rels) + "}"),
            "MC_VF": mc.Expr("{" + ", ".join(tla(v) for v in VFL) + "}"),
            "MC_Scales": mc.Expr("{<<-2, 1>>, <<3, 1>>}"), "MC_Shifts": mc.Expr("{-1, 5}"),
            "MC_CThr": CTHR, "MC_Kinds": mc.Expr("{" + ", ".join('"%s"' % k for k in kinds) + "}"),
            "MC_Dev": mc.Expr("{" + ", ".join('"%s"' % d for d in dev) + "}")}
    text = mc.module("MC_GmmMStep", ["GmmMStep"], defs)
    inv = invariants if invariants is not None else sorted(set((INV_ML if "ml" in kinds else []) + (INV_MAP if "map" in kinds else [])))
    cfg = mc.cfg(consts={"N": n, "C": 2},
                 subst={"Samples": "MC_S", "OldMeans": "MC_OM", "OldVars": "MC_OV", "OldWeights": "MC_OW", "Kinds": "MC_Kinds",
                        "Rels": "MC_Rels", "CThr": "MC_CThr", "VFloors": "MC_VF", "Scales": "MC_Scales",
                        "Shifts": "MC_Shifts", "Dev": "MC_Dev"},
                 invariants=inv, constraints=["Export"] if export else [])
    r = tlc.run(ck.work, "MC_GmmMStep", cfg, root_text=text, workers=16, coverage=coverage,
                expect_violation=expect_violation)
    ck.account(name, r, expect_violation=expect_violation)
    return r.records


def col(v):
    return np.array([[float(fr(x))] for x in v])


def vec(v):
    return np.array([float(fr(x)) for x in v])


def scenario_key(rec):
    return repr([rec[k] for k in ("smp", "mu0", "var0", "w0", "kind", "rel", "vfl", "uw", "um", "uv", "cur")])


def run_real(em, rec, via=None):
    """Execute the recorded M-step on a real machine; returns (weights, means, variances).
    via = "function": ml_gmm_m_step / map_gmm_m_step with explicit options; via = "machine": the module-level
    m_step(statistics, machine) reading every option from the estimator; None: chosen by a hash of the scenario."""
    import zlib
    from bob.learn.em.gmm import m_step as module_m_step
    from bob.learn.em.gmm import map_gmm_m_step, ml_gmm_m_step
    hbits = zlib.crc32(repr(scenario_key(rec)).encode())
    if via is None:
        via = ("function", "machine")[hbits % 2]
    # every second machine-level replay: the trainer kind is set through the estimator protocol AFTER construction
    # (set_params / attribute assignment), the machine having been built as the other kind
    switched = via == "machine" and (hbits // 2) % 2 == 1
    # every second machine-level replay: the switches are NumPy booleans (what a machine read from a file carries, or
    # the result of a NumPy comparison), not the Python singletons
    if via == "machine" and (hbits // 4) % 2 == 1:
        rec = dict(rec, um=np.bool_(rec["um"]), uv=np.bool_(rec["uv"]), uw=np.bool_(rec["uw"]))
    C = 2
    cthr = float(CTHR)
    vfl = float(fr(rec["vfl"]))
    st = em.GMMStats(C, 1)
    st.t = len(rec["smp"]["x"])
    st.n = vec(rec["n"])
    st.sum_px = col(rec["px"])
    st.sum_pxx = col(rec["pxx"])
    if rec["kind"] == "ml":
        if switched:
            other = em.GMMMachine(C)
            other.means, other.variances = col(rec["mu0"]) + 7.0, col(rec["var0"]) * 3.0
            m = em.GMMMachine(C, trainer="map", ubm=other, weights=vec(rec["w0"]), mean_var_update_threshold=cthr)
            if hbits % 3:
                m.set_params(trainer="ml")
            else:
                m.trainer = "ml"
        else:
            m = em.GMMMachine(C, weights=vec(rec["w0"]), mean_var_update_threshold=cthr)
        m.variance_thresholds = vfl
        m.means = col(rec["mu0"])
        m.variances = col(rec["var0"])
        if via == "machine":
            m.update_means, m.update_variances, m.update_weights = rec["um"], rec["uv"], rec["uw"]
            module_m_step([st, em.GMMStats(C, 1)], m)
        else:
            ml_gmm_m_step(m, st, update_means=rec["um"], update_variances=rec["uv"], update_weights=rec["uw"],
                          mean_var_update_threshold=cthr)
    else:
        prior = em.GMMMachine(C, weights=vec(rec["w0"]), mean_var_update_threshold=cthr)
        prior.variance_thresholds = vfl
        prior.means = col(rec["mu0"])
        prior.variances = col(rec["var0"])
        val = float(fr(rec["rel"]["val"]))
        if via == "machine":
            # the same step through the estimator's own configuration: the module-level m_step reads the switches,
            # the relevance factor / fixed ratio and the count threshold from the machine
            m = em.GMMMachine(C, trainer="ml" if switched else "map", ubm=prior, mean_var_update_threshold=cthr,
                              update_means=rec["um"], update_variances=rec["uv"], update_weights=rec["uw"],
                              map_relevance_factor=val if rec["rel"]["reynolds"] else None,
                              map_alpha=0.5 if rec["rel"]["reynolds"] else val)
            if switched:
                if hbits % 3:
                    m.set_params(trainer="map")
                else:
                    m.trainer = "map"
            m.means = col(rec["cur"])
            module_m_step([st, em.GMMStats(C, 1)], m)
        else:
            m = em.GMMMachine(C, trainer="map", ubm=prior, mean_var_update_threshold=cthr)
            m.means = col(rec["cur"])       # a warm start: the machine's means need not be the prior's
            map_gmm_m_step(m, st, update_means=rec["um"], update_variances=rec["uv"], update_weights=rec["uw"],
                           reynolds_adaptation=rec["rel"]["reynolds"], relevance_factor=val, alpha=val,
                           mean_var_update_threshold=cthr)
    return np.asarray(m.weights, dtype=float), np.asarray(m.means, dtype=float)[:, 0], np.asarray(m.variances, dtype=float)[:, 0]


def compare(rec, got):
    """None if the code's result equals the model's; else (clause, detail)."""
    w, mu, var = got
    free = rec["free"]
    vfl = float(fr(rec["vfl"]))
    for c in range(2):
        if free[c]:
            if not (np.isfinite(w[c]) and np.isfinite(mu[c]) and np.isfinite(var[c]) and var[c] >= vfl):
                return "BelowCountFloor", "component %d below the count floor: w=%r mu=%r var=%r (floor %r)" % (c, w[c], mu[c], var[c], vfl)
            continue
        if not allclose([w[c]], [float(fr(rec["w"][c]))]):
            return "Weights", "component %d: expected weight %s, observed %r" % (c, fr(rec["w"][c]), w[c])
        if not allclose([mu[c]], [float(fr(rec["mu"][c]))]):
            return "Means", "component %d: expected mean %s, observed %r" % (c, fr(rec["mu"][c]), mu[c])
        if not allclose([var[c]], [float(fr(rec["var"][c]))]):
            return "Variances", "component %d: expected variance %s (=%.12g), observed %r" % (c, fr(rec["var"][c]), float(fr(rec["var"][c])), var[c])
    return None
