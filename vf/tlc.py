"""Running TLC and reading what it prints.

One TLC invocation = one `TLCRun`.  The root module and its .cfg are generated into
a private work directory; the design modules are found through -DTLA-Library.
"""
import json
import os
import re
import shutil
import subprocess
import time

SPECS = os.path.join(os.path.dirname(os.path.dirname(os.path.abspath(__file__))), "specs")
JAR = "/opt/veriftools/tla/tla2tools.jar"
DEPS = "/opt/veriftools/tla/CommunityModules-deps.jar"


class MachineryError(Exception):
    """TLC/SANY failed in a way that is not a verdict (exit 2)."""


class TLCRun:
    def __init__(self):
        self.stdout = ""
        self.exit = None
        self.generated = 0      # states generated  (= transitions explored + initial states)
        self.distinct = 0       # distinct states
        self.records = []       # JSON records printed through PrintT(ToJson(..))
        self.tuples = []        # <<...>> tuples printed through PrintT
        self.violation = None   # name of violated invariant/property, if any
        self.cex = None         # raw counterexample text
        self.coverage = {}      # action name -> (distinct, total)
        self.wall = 0.0
        self.cmd = ""


_RE_STATES = re.compile(r"^(\d+) states generated, (\d+) distinct states found", re.M)
_RE_INV = re.compile(r"Invariant (\S+) is violated")
_RE_PROP = re.compile(r"(?:Action|Temporal) property (\S+) is violated|Temporal properties were violated")
_RE_COV = re.compile(r"^<(\w+) line \d+, col \d+ to line \d+, col \d+ of module (\w+)>: (\d+):(\d+)", re.M)


def run(workdir, root, cfg_text, root_text=None, workers=16, simulate=None, depth=None,
        seed=None, env=None, timeout=3600, coverage=True, deadlock=False, heap="4g",
        expect_violation=False, dfs=False):
    """Run TLC on module `root` (text given, or taken from SPECS) with the given cfg."""
    os.makedirs(workdir, exist_ok=True)
    if root_text is not None:
        with open(os.path.join(workdir, root + ".tla"), "w") as f:
            f.write(root_text)
    else:
        shutil.copy(os.path.join(SPECS, root + ".tla"), workdir)
    with open(os.path.join(workdir, root + ".cfg"), "w") as f:
        f.write(cfg_text)
    meta = os.path.join(workdir, "meta-" + root)
    shutil.rmtree(meta, ignore_errors=True)
    # TLC unpacks its standard modules into java.io.tmpdir on every run: keep that litter inside the check's own
    # work directory (removed when the check finishes) instead of /tmp
    jtmp = os.path.join(workdir, "jtmp")
    os.makedirs(jtmp, exist_ok=True)
    jopts = ["-XX:+UseParallelGC", "-XX:ParallelGCThreads=2", "-Xms512m", "-Xmx" + heap,
             "-DTLA-Library=" + SPECS, "-Djava.io.tmpdir=" + jtmp]
    if dfs:
        jopts.append("-Dtlc2.tool.queue.IStateQueue=StateDeque")
    cmd = ["java"] + jopts + ["-cp", JAR + ":" + DEPS, "tlc2.TLC",
                              "-workers", str(workers), "-metadir", meta, "-noGenerateSpecTE",
                              "-config", root + ".cfg"]
    if coverage and not simulate:
        cmd += ["-coverage", "1"]
    if deadlock:
        cmd += ["-deadlock"]
    if simulate:
        cmd += ["-simulate", "num=%d" % simulate]
        if depth:
            cmd += ["-depth", str(depth)]
    if seed is not None:
        cmd += ["-seed", str(seed)]
    cmd += [root]
    e = dict(os.environ)
    e.pop("JAVA_TOOL_OPTIONS", None)
    if env:
        e.update(env)
    r = TLCRun()
    r.cmd = " ".join(cmd)
    t0 = time.time()
    try:
        p = subprocess.run(cmd, cwd=workdir, env=e, capture_output=True, text=True, timeout=timeout)
    except subprocess.TimeoutExpired:
        raise MachineryError("TLC timed out after %ss: %s" % (timeout, r.cmd))
    r.wall = time.time() - t0
    r.stdout = p.stdout + ("\n" + p.stderr if p.stderr.strip() else "")
    r.exit = p.returncode
    shutil.rmtree(meta, ignore_errors=True)
    _parse(r)
    ok_exits = (0,)
    if r.exit not in ok_exits and r.violation is None:
        raise MachineryError("TLC failed (exit %s) on %s:\n%s" % (r.exit, root, _tail(r.stdout)))
    if r.violation is None and re.search(r"^Error: ", r.stdout, re.M):
        # e.g. a Java StackOverflowError while computing initial states: TLC may still exit 0 with a
        # truncated state space -- never accept that as a completed run
        raise MachineryError("TLC reported an error without a property violation on %s:\n%s" % (root, _tail(r.stdout)))
    if r.violation is not None and not expect_violation:
        pass  # the caller decides; a violated design property is reported by the check
    return r


def _tail(s, n=40):
    lines = [l[:300] for l in s.strip().splitlines() if not l.lstrip().startswith('"{')]
    return "\n".join(lines[-n:])


def _parse(r):
    out = r.stdout
    m = None
    for m in _RE_STATES.finditer(out):
        pass
    if m:
        r.generated, r.distinct = int(m.group(1)), int(m.group(2))
    mi = _RE_INV.search(out)
    if mi:
        r.violation = mi.group(1)
    else:
        mp = _RE_PROP.search(out)
        if mp:
            r.violation = mp.group(1) or "temporal"
    if r.violation:
        i = out.find("Error:")
        r.cex = out[i:i + 6000]
    for mc in _RE_COV.finditer(out):
        r.coverage[mc.group(1)] = (int(mc.group(3)), int(mc.group(4)))
    # printed values: JSON strings are printed by PrintT as "...." with escaped quotes
    for line in out.splitlines():
        s = line.strip()
        if s.startswith('"{') or s.startswith('"['):
            try:
                r.records.append(json.loads(json.loads(s)))
                continue
            except Exception:
                pass
            try:  # TLC prints strings without escaping in some versions
                r.records.append(json.loads(s[1:-1]))
            except Exception:
                raise MachineryError("unparseable PrintT line: " + s[:200])
        elif s.startswith("{") and s.endswith("}") and '"' in s:
            try:
                r.records.append(json.loads(s))
            except Exception:
                pass
        elif s.startswith("<<") and s.endswith(">>"):
            r.tuples.append(_parse_tuple(s))
    # with several workers the print order varies from run to run: make it canonical so that seeded
    # sampling of the records is reproducible
    # (a constraint that prints may be evaluated more than once for the same state: drop exact duplicates)
    uniq = {}
    for x in r.records:
        uniq.setdefault(json.dumps(x, sort_keys=True), x)
    r.records = [uniq[k] for k in sorted(uniq)]


def _parse_tuple(s):
    inner = s[2:-2]
    parts = [x.strip() for x in inner.split(",")]
    res = []
    for x in parts:
        if x.startswith('"') and x.endswith('"'):
            res.append(x[1:-1])
        else:
            try:
                res.append(int(x))
            except ValueError:
                res.append(x)
    return res


def sany(path):
    p = subprocess.run(["java", "-DTLA-Library=" + SPECS, "-cp", JAR + ":" + DEPS, "tla2sany.SANY", path],
                       capture_output=True, text=True, cwd=os.path.dirname(path) or ".")
    ok = p.returncode == 0 and "Semantic errors" not in p.stdout and "*** Errors" not in p.stdout \
        and "Could not parse" not in p.stdout and "Fatal errors" not in p.stdout
    return ok, p.stdout + p.stderr
