"""Scenario domains and TLC runs for specs/LinearScoring.tla (C08; re-usable by C11 / C15).

A matrix is a list (components) of lists (features) of Fractions; a GMM is {"means", "vars"};
a statistic is {"t", "n", "f"}; a test set is {"stats": [...], "offs": {"present", "val"}}."""
from fractions import Fraction as F

from . import mc, tlc
from .common import tla

INVARIANTS = ["IsFormula", "Shape", "ZeroForUbm", "LinearInOffset", "AdditiveOverStats", "MachinesEqArrays",
              "MapUbmEqPrior", "ZeroFrameIsZero", "AffineInvariant"]
DEVIATIONS = ["LS_OFFSET_IGNORED", "LS_DIVIDE_BY_MODEL_VAR", "LS_NO_ZERO_FRAME_GUARD", "LS_MAP_UBM_NOT_UNWRAPPED"]

MEANS = [F(-1), F(0), F(1, 2), F(2)]
VARS = [F(1, 2), F(1), F(2), F(3)]
OCC = [F(0), F(1, 2), F(1), F(3, 2), F(2)]
FIRST = [F(-1), F(0), F(1, 2), F(3)]
OFFS = [F(-1, 2), F(0), F(1)]
ALPHAS = [F(2), F(-1, 2), F(3)]
BETAS = [F(0), F(1), F(-3, 2)]
SCALES = [F(0), F(-1), F(1, 2), F(3)]


def set_of(items):
    seen, out = set(), []
    for x in items:
        s = tla(x)
        if s not in seen:
            seen.add(s)
            out.append(s)
    return mc.Expr("{" + ",\n   ".join(out) + "}")


def rmat(rng, c, d, vals):
    return [[rng.choice(vals) for _ in range(d)] for _ in range(c)]


def rgmm(rng, c, d):
    return {"means": rmat(rng, c, d, MEANS), "vars": rmat(rng, c, d, VARS)}


def zero_stat(c, d):
    return {"t": F(0), "n": [F(0)] * c, "f": [[F(0)] * d for _ in range(c)]}


def rstat(rng, c, d):
    """A statistic with an integer frame count t = sum of the occupations >= 1; a component without
    occupation has no first-order mass."""
    while True:
        n = [rng.choice(OCC) for _ in range(c)]
        t = sum(n)
        if t >= 1 and t.denominator == 1:
            break
    f = [[rng.choice(FIRST) if n[k] != 0 else F(0) for _ in range(d)] for k in range(c)]
    # the frame count is a field of its own: hand-made, pruned or frame-weighted statistics have t != sum(n)
    if rng.random() < 0.4:
        t = t + rng.choice([1, 2, 5])
    return {"t": t, "n": n, "f": f}


def domain(rng, c, d, n_ubm, n_models, n_tests, n_map, n_aff=2):
    """Seeded component sets of a LinearScoring run.  Always present: a model list containing a UBM's own
    means, one and two models, one and two test items, a zero-frame statistic alone and beside a
    non-empty one, offsets absent and per item."""
    ubms = [rgmm(rng, c, d) for _ in range(n_ubm)]
    mlists = [[{"means": ubms[0]["means"], "vars": rmat(rng, c, d, VARS)}, rgmm(rng, c, d)]]
    while len(mlists) < n_models:
        mlists.append([rgmm(rng, c, d) for _ in range(1 + len(mlists) % 2)])
    stat_lists = [[zero_stat(c, d)], [rstat(rng, c, d), zero_stat(c, d)], [rstat(rng, c, d)],
                  [rstat(rng, c, d), rstat(rng, c, d)]]
    while 2 * len(stat_lists) < n_tests:
        k = len(stat_lists)
        sl = [rstat(rng, c, d) for _ in range(1 + k % 2)]
        if k % 5 == 4:
            sl[rng.randrange(len(sl))] = zero_stat(c, d)
        stat_lists.append(sl)
    tests = []
    for sl in stat_lists:
        tests.append({"stats": sl, "offs": {"present": False, "val": []}})
        tests.append({"stats": sl, "offs": {"present": True, "val": [rmat(rng, c, d, OFFS) for _ in sl]}})
    tests = tests[:max(n_tests, 4)]
    mapowns = [rgmm(rng, c, d) for _ in range(n_map)]
    affines = [[[rng.choice(ALPHAS), rng.choice(BETAS)] for _ in range(d)] for _ in range(n_aff)]
    return {"C": c, "D": d, "ubms": ubms, "models": mlists, "tests": tests, "mapowns": mapowns,
            "affines": affines, "scales": SCALES}


def dev_domain(c=2, d=1):
    """A fixed tiny domain on which each named deviation changes a score."""
    ubm = {"means": [[F(0)] * d, [F(1, 2)] * d][:c], "vars": [[F(2)] * d, [F(1)] * d][:c]}
    model = {"means": [[F(2)] * d, [F(-1)] * d][:c], "vars": [[F(1, 2)] * d, [F(3)] * d][:c]}
    stat = {"t": F(2), "n": ([F(1, 2), F(3, 2)] if c == 2 else [F(2)]), "f": [[F(3)] * d, [F(-1)] * d][:c]}
    tests = [{"stats": [stat, zero_stat(c, d)], "offs": {"present": True, "val": [[[F(1)] * d] * c, [[F(-1, 2)] * d] * c]}}]
    return {"C": c, "D": d, "ubms": [ubm], "models": [[model]], "tests": tests,
            "mapowns": [{"means": model["means"], "vars": [[F(3)] * d] * c}],
            "affines": [[[F(2), F(1)]] * d], "scales": [F(3)]}


def model_run(ck, name, dom, dev=(), invariants=INVARIANTS, export=True, expect_violation=False, coverage=False,
              workers=16):
    defs = {"MC_Ubms": set_of(dom["ubms"]), "MC_ModelLists": set_of(dom["models"]), "MC_Tests": set_of(dom["tests"]),
            "MC_MapOwns": set_of(dom["mapowns"]), "MC_Affines": set_of(dom["affines"]),
            "MC_Scales": set_of(dom["scales"]),
            "MC_Dev": mc.Expr("{" + ", ".join('"%s"' % x for x in dev) + "}")}
    text = mc.module("MC_LinearScoring", ["LinearScoring"], defs)
    cfg = mc.cfg(consts={"C": dom["C"], "D": dom["D"]},
                 subst={"Ubms": "MC_Ubms", "ModelLists": "MC_ModelLists", "Tests": "MC_Tests", "MapOwns": "MC_MapOwns",
                        "Affines": "MC_Affines", "Scales": "MC_Scales", "Dev": "MC_Dev"},
                 invariants=invariants, constraints=["Export"] if export else [])
    r = tlc.run(ck.work, "MC_LinearScoring", cfg, root_text=text, workers=workers, coverage=coverage,
                expect_violation=expect_violation)
    ck.account(name, r, expect_violation=expect_violation)
    return r
