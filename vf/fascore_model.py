"""Scenario domains and TLC runs for specs/FaScore.tla (C11).

A matrix is a list (components) of lists (features) of Fractions; a model is
{"jfa", "m", "s", "U", "V", "Dd", "z", "y"}; a statistic is {"t", "n", "f"}; a probe is a list of 1..2 statistics."""
from fractions import Fraction as F

from . import mc, tlc
from .linscore_model import rmat, rstat, set_of, zero_stat

INVARIANTS = ["XSolvesSystem", "UxIsUTimesX", "ScoreIsCompensatedLinearScore", "ListEqSum", "TransformEqEstimateUx",
              "Shapes"]
# named deviation -> the formulas TLC must refute with it switched on
DEVIATIONS = {
    "ISV_TRANSFORM_NOT_A_LIST": ["TransformEqEstimateUx"],
    "FS_X_FROM_FIRST_STAT": ["XSolvesSystem", "ListEqSum"],
    "FS_NO_FRAME_NORM": ["ScoreIsCompensatedLinearScore"],
    "FS_UX_NOT_PASSED": ["ScoreIsCompensatedLinearScore"],
    "FS_CLIENT_MEAN_WITHOUT_D": ["ScoreIsCompensatedLinearScore"],
}

M_VALS = [F(-1), F(0), F(1, 2), F(2)]
S_VALS = [F(1, 2), F(1), F(2)]
U_VALS = [F(-1), F(1, 2), F(1), F(2)]
V_VALS = [F(-1), F(1), F(2)]
D_VALS = [F(1, 2), F(2), F(1), F(3)]
Z_VALS = [F(-1), F(1, 2), F(1), F(2), F(0)]
Y_VALS = [F(-1), F(1, 2), F(2)]


def zeros(c, d):
    return [[F(0)] * d for _ in range(c)]


def rmodel(rng, c, d, jfa):
    z = rmat(rng, c, d, Z_VALS)
    if all(v == 0 for row in z for v in row):
        z[0][0] = F(1)
    return {"jfa": bool(jfa), "m": rmat(rng, c, d, M_VALS), "s": rmat(rng, c, d, S_VALS),
            "U": rmat(rng, c, d, U_VALS), "V": rmat(rng, c, d, V_VALS) if jfa else zeros(c, d),
            "Dd": rmat(rng, c, d, D_VALS), "z": z, "y": rng.choice(Y_VALS) if jfa else F(0)}


def domain(rng, c, d, n_models, n_probes):
    """Seeded models (ISV and JFA alternating) and probes.  Always present: a probe of one statistic, of two
    different statistics, a zero-frame statistic alone and beside a non-empty one, a probe of more than one frame."""
    models = [rmodel(rng, c, d, i % 2 == 1) for i in range(n_models)]
    while True:
        long_one = rstat(rng, c, d)
        if long_one["t"] >= 2:
            break
    probes = [[long_one], [rstat(rng, c, d), rstat(rng, c, d)], [zero_stat(c, d)], [rstat(rng, c, d), zero_stat(c, d)]]
    while len(probes) < n_probes:
        probes.append([rstat(rng, c, d) for _ in range(1 + len(probes) % 2)])
    return {"C": c, "D": d, "models": models, "probes": probes[:max(n_probes, 4)]}


def dev_domain():
    """A fixed tiny domain (C = 2, D = 1) on which every named deviation changes a result."""
    def col(*v):
        return [[F(x)] for x in v]
    isv = {"jfa": False, "m": col(0, F(1, 2)), "s": col(1, 2), "U": col(1, 2), "V": col(0, 0), "Dd": col(2, F(1, 2)),
           "z": col(1, -1), "y": F(0)}
    jfa = dict(isv, jfa=True, V=col(1, -1), y=F(2))
    s1 = {"t": F(2), "n": [F(1, 2), F(3, 2)], "f": col(3, -1)}
    s2 = {"t": F(1), "n": [F(1), F(0)], "f": col(F(1, 2), 0)}
    return {"C": 2, "D": 1, "models": [isv, jfa], "probes": [[s1], [s1, s2]]}


def model_run(ck, name, dom, dev=(), invariants=INVARIANTS, export=True, expect_violation=False, coverage=False,
              workers=16):
    defs = {"MC_Models": set_of(dom["models"]), "MC_Probes": set_of(dom["probes"]),
            "MC_Dev": mc.Expr("{" + ", ".join('"%s"' % x for x in dev) + "}")}
    text = mc.module("MC_FaScore", ["FaScore"], defs)
    cfg = mc.cfg(consts={"C": dom["C"], "D": dom["D"]},
                 subst={"Models": "MC_Models", "Probes": "MC_Probes", "Dev": "MC_Dev"},
                 invariants=invariants, constraints=["Export"] if export else [])
    r = tlc.run(ck.work, "MC_FaScore", cfg, root_text=text, workers=workers, coverage=coverage,
                expect_violation=expect_violation)
    ck.account(name, r, expect_violation=expect_violation)
    return r
