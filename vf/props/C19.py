"""C19 - training and scoring never modify or alias caller-owned data.

M1  specs/Ownership.tla: a heap of caller-owned cells (training array, labels, initial centroids, model
    means, latent model, two statistics objects with three arrays each, a trained prior/UBM with three
    arrays) and library-owned cells; one action per public entry point with its effect summary (cells
    read / written / aliased by what it returns) plus the caller's own later overwrites and `+=`; every
    call sequence of length <= 3 per family of entry points, NumPy and Dask forms.  Invariants
    CallerCellsNeverWritten, ResultsDisjointFromInputs, ReuseGivesSameResult,
    LaterOverwriteDoesNotMoveModel (and the stronger ModelsNeverMove); five named deviations must each be
    refuted by TLC.
M2  every exported behaviour is executed on the real objects with seeded small data (C = 2, D = 2, 8
    samples / 8 statistics).  After EVERY call: the set of caller cells whose bytes changed must equal
    the set TLC printed (`written`); the set of caller cells any returned / trained array shares memory
    with must equal `alias`; the result must be bitwise equal to every earlier result TLC tagged as the
    same value (`same`); the set of trained machines whose parameters changed must equal `moved`."""
import copy
import random

import numpy as np

from .. import mc, tlc
from ..common import key, pin_repo

INV = ["CallerCellsNeverWritten", "ResultsDisjointFromInputs", "ReuseGivesSameResult",
       "LaterOverwriteDoesNotMoveModel", "ModelsNeverMove"]
FAMILIES = ["kmeans", "gmm", "stats", "isv", "jfa", "ivector", "linear"]
DEVS = [("KMEANS_INIT_ALIASED_AT_ZERO_ITER", "kmeans"), ("MAP_SHARES_PRIOR_ARRAYS", "gmm"),
        ("SCORE_POOLS_IN_PLACE", "isv"), ("STATS_ADD_EMPTY_ALIASES_OPERAND", "stats"),
        ("STATS_IADD_EMPTY_ADOPTS_OPERAND", "stats"), ("FIT_CENTRES_X_IN_PLACE", "linear"), ("IVECTOR_ESTEP_IN_PLACE", "ivector")]
CELLS = ["X", "y", "init", "mm", "z", "s1n", "s1px", "s1pxx", "s2n", "s2px", "s2pxx", "pm", "pv", "pw"]
NSTAT = 8
OPS = ["KMeansFit", "KMeansTransform", "KMeansPredict", "KMeansVarWeights", "GmmFitML", "MapConstruct", "GmmFitMAP",
       "GmmAccStats", "GmmTransform", "GmmLogLikelihood", "StatsAdd", "StatsIAdd", "LinearScoring", "FaFit",
       "FaFitUsingArray", "FaEnroll", "FaEnrollUsingArray", "FaScore", "FaScoreUsingArray", "FaEstimateX", "FaEstimateUx",
       "IsvTransform", "IvFit", "IvProject", "IvTransform", "WccnFit", "WccnTransform", "WhiteningFit",
       "WhiteningTransform", "CallerOverwrites"]


def build(fams, kinds, maxlen, maxow, dev=()):
    def s(xs):
        return mc.Expr("{" + ", ".join('"%s"' % x for x in xs) + "}")
    text = mc.module("MC_Ownership", ["Ownership"], {"MC_Fam": s(fams), "MC_Kinds": s(kinds), "MC_Dev": s(dev)})
    return text, {"MaxLen": maxlen, "MaxOverwrites": maxow}, {"Families": "MC_Fam", "Kinds": "MC_Kinds", "Dev": "MC_Dev"}


# ------------------------------------------------------------------------------------------ the caller's world
class World:
    """Everything the caller owns in one behaviour, and the objects the library returned so far."""

    def __init__(self, em, fam, kind, seed):
        self.em, self.fam, self.kind = em, fam, kind
        r = np.random.RandomState(seed)
        self.X = r.normal(size=(8, 2)) * np.array([1.5, 0.7]) + np.repeat([[0.0, 0.0], [3.0, 1.0]], 4, axis=0)
        self.y = np.array([0, 0, 0, 0, 1, 1, 1, 1])
        self.init = np.array([[0.25, -0.5], [2.5, 1.25]]) + r.normal(size=(2, 2)) * 0.1
        self.mm = r.normal(size=(2, 2, 2)) + np.array([[0.0, 0.5], [2.5, 1.0]])
        pm = np.array([[0.0, 0.5], [2.5, 1.0]]) + r.normal(size=(2, 2)) * 0.1
        pv = np.array([[1.0, 2.0], [1.5, 0.75]])
        pw = np.array([0.375, 0.625])
        self.prior = em.GMMMachine(2)
        self.prior.weights = pw
        self.prior.means = pm
        self.prior.variances = pv
        # the caller's statistics: eight objects holding their own arrays
        self.stats = []
        for k in range(NSTAT):
            frames = r.normal(size=(3 + k % 3, 2)) * 1.5 + (k // 4) * np.array([3.0, 1.0])
            s = self.prior.acc_stats(frames)
            c = em.GMMStats(2, 2)
            c.t, c.log_likelihood = int(s.t), float(s.log_likelihood)
            c.n, c.sum_px, c.sum_pxx = np.array(s.n), np.array(s.sum_px), np.array(s.sum_pxx)
            self.stats.append(c)
        # one utterance lies in the far tail of the second component: its occupancy is positive but below machine
        # precision (value-dependent code paths must not write into the caller's statistics either)
        tiny = 3e-220
        st = self.stats[2]
        scale = tiny / max(float(st.n[1]), 1e-300)
        st.n[1], st.sum_px[1], st.sum_pxx[1] = tiny, st.sum_px[1] * scale, st.sum_pxx[1] * scale
        self.stat_ids = [id(s) for s in self.stats]
        self.z = [r.normal(size=4) * 0.3] if fam != "jfa" else [r.normal(size=1) * 0.3, r.normal(size=4) * 0.3]
        # explicit starting point of ML training (handed over to the machine through its setters)
        # (the weights are the caller's own array, not normalised -- raw counts or rounded fractions --, and are given
        # to the constructor / the setter BY REFERENCE: they belong to the caller like every other input)
        self.g0 = (np.array([[0.33, 0.66], [40.0, 80.0], [0.5, 0.5]][int(r.randint(0, 3))]), np.array([[0.5, 0.0], [2.0, 1.5]]),
                   np.array([[1.0, 1.0], [2.0, 0.5]]))
        self.g0_copy = tuple(np.array(a) for a in self.g0)
        self.objs = {}      # step index -> {"rk", "obj", "value" (copies taken when returned), "lazy"}
        # non-default configurations of the entry points, constant within one behaviour (so that a repeated call
        # is the same call): i-vector training without covariance updating and with a floor above some of the
        # UBM's variances, k-means / GMM with or without a convergence threshold
        self.cfg = {"iv_update_sigma": bool(r.rand() < 0.5), "iv_floor": float(r.choice([1e-10, 0.9, 1.2])),
                    # ISV / JFA given a trained UBM AND the options from which they would build one if they had none
                    "fa_enroll_iterations": int(r.randint(1, 4)),
                    "gmm_weights_via_constructor": bool(r.randint(0, 2)),
                    "fa_ubm_kwargs": [None, dict(n_gaussians=2), dict(n_gaussians=2, max_fitting_steps=3, update_variances=True,
                                                                       update_weights=True)][r.randint(0, 3)]}

    # -- caller cells
    def cell(self, name):
        p, s = self.prior, self.stats
        if name == "X":
            return [self.X]
        if name == "y":
            return [self.y]
        if name == "init":
            return [self.init]
        if name == "mm":
            return [self.mm]
        if name == "z":
            return list(self.z)
        if name in ("pm", "pv", "pw"):
            return [{"pm": p.means, "pv": p.variances, "pw": p.weights}[name]]
        which = s[:1] if name.startswith("s1") else s[1:]
        attr = {"n": "n", "px": "sum_px", "pxx": "sum_pxx"}[name[2:]]
        return [getattr(x, attr) for x in which]

    def snapshot(self):
        snap = {}
        for c in CELLS:
            extra = b""
            if c in ("s1n", "s2n"):     # the scalar fields travel with the counts
                which = self.stats[:1] if c == "s1n" else self.stats[1:]
                extra = repr([(type(x.t).__name__, x.t, float(x.log_likelihood)) for x in which]).encode()
            snap[c] = b"|".join(_bytes(a) for a in self.cell(c)) + extra
        snap["statslist"] = repr(([id(s) for s in self.stats] == self.stat_ids, len(self.stats))).encode()
        # the starting parameters the caller hands to GMMMachine (no step of the model writes them)
        snap["gmm_start_parameters"] = b"|".join(_bytes(a) for a in self.g0)
        return snap

    def overwrite(self, name):
        for a in self.cell(name):
            if name in ("y", "pw"):
                a[...] = a[::-1].copy()
            else:
                a[...] = a[::-1] * 0.5 + 0.75

    # -- input forms
    def arr(self, form):
        if form == "dask":
            import dask.array as da
            return da.from_array(self.X, chunks=(4, 2))
        return self.X

    def lst(self, form):
        if form == "bag":
            import dask.bag as db
            return db.from_sequence(self.stats, npartitions=2)
        return self.stats

    def halves(self, form):
        x = self.arr(form)
        return [x[:4], x[4:]]

    def model(self):
        return self.z[0] if self.fam != "jfa" else (self.z[0], self.z[1])

    def machine(self, m):
        return self.prior if m == 0 else self.objs[m]["obj"]

    # -- the entry points
    def call(self, st):
        em, op, arg, form, m = self.em, st["op"], st["arg"], st["form"], st["m"]
        if op == "KMeansFit":
            return em.KMeansMachine(2, init_method=self.init, max_iter=arg).fit(self.arr(form))
        if op == "KMeansTransform":
            return self.machine(m).transform(self.arr(form))
        if op == "KMeansPredict":
            return self.machine(m).predict(self.arr(form))
        if op == "KMeansVarWeights":
            return self.machine(m).get_variances_and_weights_for_each_cluster(self.arr(form))
        if op == "GmmFitML":
            if self.cfg["gmm_weights_via_constructor"]:
                g = em.GMMMachine(2, max_fitting_steps=2, convergence_threshold=None, update_means=True,
                                  update_variances=True, update_weights=True, weights=self.g0[0])
                g.means, g.variances = self.g0[1], self.g0[2]
            else:
                g = em.GMMMachine(2, max_fitting_steps=2, convergence_threshold=None, update_means=True,
                                  update_variances=True, update_weights=True)
                g.weights, g.means, g.variances = self.g0
            return g.fit(self.arr(form))
        if op == "MapConstruct":
            g = em.GMMMachine(2, trainer="map", ubm=self.prior)
            if form == "initialize":
                g.initialize_gaussians()
            return g
        if op == "GmmFitMAP":
            g = em.GMMMachine(2, trainer="map", ubm=self.prior, max_fitting_steps=2, convergence_threshold=None,
                              update_means=True, update_variances=bool(arg), update_weights=bool(arg))
            return g.fit(self.arr(form))
        if op == "GmmAccStats":
            return self.machine(m).acc_stats(self.arr(form))
        if op == "GmmTransform":
            return self.machine(m).transform(self.halves(form))
        if op == "GmmLogLikelihood":
            return self.machine(m).log_likelihood(self.arr(form))
        if op == "StatsAdd" and arg:
            # an empty container (zero statistics) as one operand: left (the seed of a sum) or right
            empty = em.GMMStats(2, 2)
            return (empty + self.stats[0]) if arg == 1 else (self.stats[0] + empty)
        if op == "StatsIAdd" and arg:
            acc = em.GMMStats(2, 2)
            for t in self.stats:
                acc += t
            return acc
        if op == "StatsAdd":
            tot = self.stats[0] + self.stats[1]
            for s in self.stats[2:]:
                tot = tot + s
            return tot
        if op == "StatsIAdd":
            s = self.stats[0]
            for t in self.stats[1:]:
                s += t
            self.stats[0] = s
            return None
        if op == "LinearScoring":
            models = self.mm if form == "array" else [self.prior]
            return em.linear_scoring(models, self.prior, self.stats, 0, True)
        if op in ("FaFit", "FaFitUsingArray"):
            if self.fam == "isv":
                f = em.ISVMachine(r_U=1, em_iterations=2, ubm=self.prior, random_state=0, ubm_kwargs=self.cfg["fa_ubm_kwargs"],
                                  enroll_iterations=self.cfg["fa_enroll_iterations"])
            else:
                f = em.JFAMachine(r_U=1, r_V=1, em_iterations=2, ubm=self.prior, random_state=0,
                                  ubm_kwargs=self.cfg["fa_ubm_kwargs"], enroll_iterations=self.cfg["fa_enroll_iterations"])
            return f.fit(self.lst(form), self.y) if op == "FaFit" else f.fit_using_array(self.arr(form), self.y)
        if op == "FaEnroll":
            return self.machine(m).enroll(self.stats)
        if op == "FaEnrollUsingArray":
            return self.machine(m).enroll_using_array(self.X)
        if op == "FaScore":
            data = {"single": self.stats[:1], "list": self.stats, "nested": [self.stats[:4], self.stats[4:]]}[form]
            return self.machine(m).score(self.model(), data)
        if op == "FaScoreUsingArray":
            return self.machine(m).score_using_array(self.model(), self.halves("numpy"))
        if op == "FaEstimateX":
            return self.machine(m).estimate_x(self.stats)
        if op == "FaEstimateUx":
            return self.machine(m).estimate_ux(self.stats)
        if op == "IsvTransform":
            return self.machine(m).transform(self.X)
        if op == "IvFit":
            np.random.seed(20260927)    # the initial T is drawn from NumPy's global generator
            return em.IVectorMachine(self.prior, dim_t=2, max_iterations=2, update_sigma=self.cfg["iv_update_sigma"],
                                     variance_floor=self.cfg["iv_floor"]).fit(self.lst(form))
        if op == "IvProject":
            return self.machine(m).project(self.stats[0])
        if op == "IvTransform":
            return self.machine(m).transform(self.stats)
        if op == "WccnFit":
            return em.WCCN().fit(self.arr(form), self.y)
        if op == "WhiteningFit":
            return em.Whitening().fit(self.arr(form))
        if op in ("WccnTransform", "WhiteningTransform"):
            return self.machine(m).transform(self.arr(form))
        raise KeyError(op)


PARAMS = {"KMeansMachine": ["centroids_"], "GMMMachine": ["means", "variances", "weights"],
          "ISVMachine": ["U", "D"], "JFAMachine": ["U", "V", "D"], "IVectorMachine": ["T", "sigma"],
          "WCCN": ["weights", "input_subtract", "input_divide"], "Whitening": ["weights", "input_subtract", "input_divide"]}


def _bytes(a):
    a = np.asarray(a)
    return repr((a.shape, a.dtype.str)).encode() + np.ascontiguousarray(a).tobytes()


def leaves(em, obj):
    """The arrays of a returned object, as the library holds / returned them (Dask parts still lazy)."""
    import dask.array as da
    name = type(obj).__name__
    if name in PARAMS:
        return [getattr(obj, a) for a in PARAMS[name]]
    if isinstance(obj, em.GMMStats):
        return [obj.n, obj.sum_px, obj.sum_pxx, obj.t, obj.log_likelihood]
    if isinstance(obj, (list, tuple)):
        return [x for o in obj for x in leaves(em, o)]
    if isinstance(obj, (np.ndarray, da.Array)):
        return [obj]
    return [np.asarray(obj)]


def materialise(xs):
    import dask
    return [np.array(v) for v in dask.compute(*xs)] if xs else []


def same_bytes(a, b):
    return len(a) == len(b) and all(_bytes(x) == _bytes(y) for x, y in zip(a, b))


# ------------------------------------------------------------------------------------------ replay of one behaviour
def replay(ck, em, beh, seed, nested_ok):
    fam, kind, hist = beh["fam"], beh["kind"], beh["hist"]
    if not nested_ok and any(st["op"] == "FaScore" and st["form"] == "nested" for st in hist):
        return None             # documented input is one list of statistics; see run()
    w = World(em, fam, kind, seed)
    scn = {"family": fam, "kind": kind, "data_seed": seed,
           "calls": [{k: s[k] for k in ("op", "arg", "form", "cell", "m")} for s in hist]}
    ck.replayed += 1
    ck.seen([fam, kind, scn["calls"]])
    ok = True

    def bad(clause, step, st, expected, observed, fid=None):
        rep = {"mechanism": "M2", "module": "Ownership", "behaviour": scn, "step_index": step + 1, "call": scn["calls"][step],
               "expected": expected, "observed": observed,
               "input": {"X": w.X.tolist(), "init": w.init.tolist(), "y": w.y.tolist()}}
        name = "M2:Ownership:%s:%s" % (clause, st["op"])
        if fid:
            ck.finding(fid, name, rep)
        else:
            ck.violation(name, rep)

    for k, st in enumerate(hist):
        idx = k + 1
        before = w.snapshot()
        mbefore = {i: [_bytes(a) for a in model_params(em, o)] for i, o in w.objs.items() if o["rk"] == "model"}
        try:
            if st["op"] == "CallerOverwrites":
                w.overwrite(st["cell"])
                res = None
            else:
                res = w.call(st)
                if res is not None:
                    live = leaves(em, res)
                    value = materialise(live)
        except Exception as e:      # a legitimate public call raised
            import traceback
            bad("Raised", k, st, "the call returns", "%s: %s\n%s" % (type(e).__name__, e, traceback.format_exc()[-1500:]))
            return False
        after = w.snapshot()
        # 1. who was written
        written = sorted(c for c in before if before[c] != after[c])
        if written != sorted(st["written"]):
            ok = False
            extra = [c for c in written if c not in st["written"]]
            bad("CallerCellsNeverWritten" if extra else "EffectSummary.written", k, st,
                {"written": sorted(st["written"]), "asked": sorted(st["asked"])}, {"written": written})
        if res is not None:
            lazy = [i for i, a in enumerate(live) if not isinstance(a, np.ndarray)]
            w.objs[idx] = {"rk": st["rk"], "obj": res, "value": [a.copy() for a in value],
                           "lazy": {i: value[i] for i in lazy}}
            # 2. where the returned arrays live
            arrays = [a if isinstance(a, np.ndarray) else value[i] for i, a in enumerate(live)]
            alias = sorted(c for c in CELLS if any(np.shares_memory(a, b) for a in arrays for b in w.cell(c)
                                                   if isinstance(b, np.ndarray) and a.ndim and b.ndim))
            if alias != sorted(st["alias"]):
                ok = False
                d11 = st["op"] == "KMeansFit" and st["arg"] == 0 and alias == ["init"]
                bad("ResultsDisjointFromInputs", k, st, {"shares_memory_with": sorted(st["alias"])},
                    {"shares_memory_with": alias}, fid="D11" if d11 else None)
            # 3. the same value as before
            for i in st["same"]:
                if i in w.objs and not same_bytes(w.objs[i]["value"], w.objs[idx]["value"]):
                    ok = False
                    bad("ReuseGivesSameResult", k, st, {"bitwise_equal_to_result_of_call": i},
                        {"first": [np.asarray(a).tolist() for a in w.objs[i]["value"]][:3],
                         "again": [np.asarray(a).tolist() for a in w.objs[idx]["value"]][:3]})
        # 4. which trained machines changed
        moved = sorted(i for i, b in mbefore.items() if b != [_bytes(a) for a in model_params(em, w.objs[i])])
        if moved != sorted(st["moved"]):
            ok = False
            d11 = all(hist[i - 1]["op"] == "KMeansFit" and hist[i - 1]["arg"] == 0 for i in moved) and st.get("cell") == "init"
            bad("LaterOverwriteDoesNotMoveModel" if st["op"] in ("CallerOverwrites", "StatsIAdd") else "ModelsNeverMove",
                k, st, {"machines_changed": sorted(st["moved"])},
                {"machines_changed": moved, "trained_by": [scn["calls"][i - 1] for i in moved]}, fid="D11" if d11 and moved else None)
    if ok:
        ck.sample({"mechanism": "M2", "family": fam, "kind": kind,
                   "calls": [s["op"] + (":" + s["cell"] if s["cell"] else "") for s in hist], "verdict": "ok"})
    return ok


def model_params(em, o):
    """Current parameter arrays of a trained machine (lazy Dask parameters: the values they had when returned)."""
    live = leaves(em, o["obj"])
    return [o["lazy"][i] if i in o["lazy"] else a for i, a in enumerate(live)]


def nested_score_supported(em, seed):
    """`score` documents `data` as ONE list of statistics; a code comment also promises a list of such lists."""
    out = {}
    for fam in ("isv", "jfa"):
        w = World(em, fam, "numpy", seed)
        try:
            w.objs[1] = {"rk": "model", "obj": w.call({"op": "FaFit", "arg": 0, "form": "list", "m": 0}), "lazy": {}}
            w.call({"op": "FaScore", "arg": 0, "form": "nested", "m": 1})
            out[fam] = True
        except (AttributeError, TypeError) as e:
            out[fam] = "%s: %s" % (type(e).__name__, e)
    return out


# ------------------------------------------------------------------------------------------ the check
def run(ck):
    em = pin_repo()
    rng = random.Random(ck.seed)
    quick = ck.tier == "quick"
    ck.assumptions += [
        "cells are whole arrays; all arrays of one returned object are one library cell; contents are value-tags "
        "(a result is a function of the entry point, its arguments and the values read)",
        "arrays assigned through GMMMachine's means / variances / weights setters are handed over to the machine: "
        "sharing with them is not counted; the ML machine of GmmFitML starts from such arrays",
        "the caller's later overwrite is arr[...] = reversed(arr) * 0.5 + 0.75 (labels / prior weights: reversed), "
        "so that every later call still gets valid input; the buffer behind a Dask array is never overwritten",
        "Dask results and parameters (WCCN / Whitening trained from a Dask array return lazy Dask parameters) are "
        "computed as soon as they are returned and compared by those values",
        "IVectorMachine.fit draws its initial T from NumPy's global generator: the harness reseeds it before each fit",
        "repeated calls are compared bitwise only where TLC gives them the same value-tag (same entry point, same "
        "arguments, same input form, same machine, unchanged inputs)"]
    maxow = 1 if quick else 2
    text, consts, subst = build(FAMILIES, ["numpy", "dask"], 3, maxow)
    cfg = mc.cfg(consts=consts, subst=subst, invariants=INV, constraints=["Export"])
    r = tlc.run(ck.work, "MC_Ownership", cfg, root_text=text, workers=16, coverage=not quick)
    ck.account("ownership-len3", r)
    ck.exhaustive = True
    refuted = {}
    for d, fam in DEVS:
        t2, c2, s2 = build([fam], ["numpy"], 3, 1, dev=[d])
        r2 = tlc.run(ck.work, "MC_Ownership", mc.cfg(consts=c2, subst=s2, invariants=INV), root_text=t2, workers=4,
                     coverage=False, expect_violation=True)
        ck.account("deviation:" + d, r2, expect_violation=True)
        refuted[d] = [r2.violation]
        if not quick:       # which formulas refute the deviation (recorded, informative)
            refuted[d] = []
            for inv in INV[:4]:
                r3 = tlc.run(ck.work, "MC_Ownership", mc.cfg(consts=c2, subst=s2, invariants=[inv]), root_text=t2,
                             workers=4, coverage=False, expect_violation=True)
                if r3.violation:
                    refuted[d].append(inv)
            if not refuted[d]:
                ck.violation("TLC:deviation:%s:not-refuted" % d, {"mechanism": "M1", "deviation": d})
    ck.extra["deviation_refuted_by"] = refuted

    # every behaviour of length 1..3 is a prefix of an exported complete behaviour
    prefixes = {}
    for rec in r.records:
        for n in range(1, len(rec["hist"]) + 1):
            b = {"fam": rec["fam"], "kind": rec["kind"], "hist": rec["hist"][:n]}
            prefixes.setdefault(key([b["fam"], b["kind"], [[s["op"], s["arg"], s["form"], s["cell"], s["m"]] for s in b["hist"]]]), b)
    behs = [prefixes[k] for k in sorted(prefixes)]
    ck.extra["behaviours_exported"] = len(r.records)
    # self-checks against vacuity: every entry point occurs, results are reused, machines exist when the caller overwrites
    calls = {}
    reuse = over = 0
    for rec in r.records:
        for k, s in enumerate(rec["hist"]):
            calls[s["op"]] = calls.get(s["op"], 0) + 1
            reuse += bool(s["same"])
            over += s["op"] == "CallerOverwrites" and any(t["rk"] == "model" for t in rec["hist"][:k])
    missing = [o for o in OPS if o not in calls]
    if missing or not reuse or not over:
        raise tlc.MachineryError("Ownership: entry points never taken %s; reused results %d; overwrites after training %d"
                                 % (missing, reuse, over))
    ck.extra["calls_per_entry_point_in_exported_behaviours"] = dict(sorted(calls.items()))
    ck.extra["steps_repeating_an_earlier_call"] = reuse
    ck.extra["overwrites_after_training"] = over
    ck.extra["behaviours_with_prefixes"] = len(behs)
    nested = nested_score_supported(em, ck.seed + 19)
    for fam, v in nested.items():
        if v is not True:
            ck.notes.append("%s.score(model, [[stats..], [stats..]]) is not usable (%s); the documented input is one list "
                            "of statistics; behaviours with the nested form are not replayed" % (fam.upper(), v))
    short = [b for b in behs if len(b["hist"]) < 3]
    full = [b for b in behs if len(b["hist"]) == 3]
    if quick:
        # every behaviour of length 1 and 2; of length 3 one per family x input form x (second, last) call, plus a sample
        strata = {}
        for b in full:
            s1, s2 = b["hist"][-2], b["hist"][-1]
            strata.setdefault((b["fam"], b["kind"], s1["op"], s2["op"], s2["form"]), []).append(b)
        picked = [rng.choice(strata[k]) for k in sorted(strata)]
        if len(picked) > 260:
            picked = rng.sample(picked, 260)
        chosen = short + picked
    else:
        full_np = [b for b in full if b["kind"] == "numpy"]
        full_da = [b for b in full if b["kind"] == "dask"]
        chosen = short + rng.sample(full_np, min(8000, len(full_np))) + rng.sample(full_da, min(2500, len(full_da)))
    skipped = 0
    for n, b in enumerate(chosen):
        res = replay(ck, em, b, ck.seed + 19 + n % 3, nested.get(b["fam"], True) is True)
        if res is None:
            skipped += 1
    ck.extra["behaviours_replayed"] = len(chosen) - skipped
    ck.extra["behaviours_skipped_nested_score"] = skipped
