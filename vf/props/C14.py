"""C14 - WCCN / whitening map (within-class) covariance to the identity; WCCN depends only on the partition.

M1  specs/Wccn.tla: class means listed in the (arbitrary) iteration order of the label set, scatter, scaling
    by the class count; MeanLookupByClassNotByValue, ScatterDependsOnlyOnPartition (every label bijection
    of {0,1,2}, {5,7,9}, {-3,-2,-1} and their prefixes, every iteration order), SampleOrderInvariant,
    ScaledByClassCount.  With the deviation WCCN_MEAN_BY_LABEL_VALUE (the list of means indexed by the
    label value, Python index semantics) TLC must refute.
    specs/Whitening.tla: MeanIsSampleMean, CovIsSampleCov ((N-1)-normalised, declarative pairwise form),
    CentredHasZeroMean, CentredCovUnchanged.  With WHITENING_BIASED_COV TLC must refute.
M2  every exported scenario (exact scaled scatter / covariance and its exact inverse) is replayed through
    WCCN().fit(X, y) / Whitening().fit(X): weights lower-triangular with positive diagonal,
    inv(W W^T) = model, W W^T = model inverse, transformed training data with zero mean / identity
    covariance resp. within-class scatter / #classes = identity, the same W for every relabelling and
    reordering TLC generated for one partition, Dask (row compositions, feature split, synchronous and
    replaying scheduler, shared and isolated) = NumPy.
    A WCCN mismatch is classified against the as-implemented model (TLC run with the deviation on, the
    iteration order Python actually used)."""
import itertools
import random

import numpy as np

from .. import kmeans_model as km
from .. import mc, tlc
from ..common import allclose, fr, key, pin_repo
from ..sched import ReplayScheduler

WCCN_INV = ["AffineLaw", "MeanLookupByClassNotByValue", "ScatterDependsOnlyOnPartition", "SampleOrderInvariant",
            "ScaledByClassCount"]
WHIT_INV = ["AffineLaw", "MeanIsSampleMean", "CovIsSampleCov", "CentredHasZeroMean", "CentredCovUnchanged"]
LABEL_SETS = [(0, 1, 2), (5, 7, 9), (-3, -2, -1)]
DEV_WCCN = "WCCN_MEAN_BY_LABEL_VALUE"
DEV_WHIT = "WHITENING_BIASED_COV"


# ------------------------------------------------------------------ scenario generation
def partitions(n, kmax):
    """Restricted-growth strings of length n with at most kmax classes (classes numbered 1..K)."""
    out = []

    def rec(prefix, m):
        if len(prefix) == n:
            out.append(tuple(prefix))
            return
        for c in range(1, min(m + 1, kmax) + 1):
            rec(prefix + [c], max(m, c))
    rec([], 0)
    return out


def label_maps():
    """Every bijection class -> label value for the three label sets (sorted and unsorted)."""
    return [p for s in LABEL_SETS for p in itertools.permutations(s)]


def flat_set(items):
    from ..common import tla
    return mc.Expr("{" + ", ".join(tla(list(x)) for x in items) + "}")


def dev_expr(dev):
    return mc.Expr("{" + ", ".join('"%s"' % d for d in dev) + "}")


def wccn_run(ck, name, n, dm, data, parts, labs, sperms, dev=(), invariants=WCCN_INV, export=True,
             expect_violation=False, coverage=False):
    defs = {"MC_Data": km.set_of(data), "MC_Parts": flat_set(parts), "MC_Labs": flat_set(labs),
            "MC_SPerms": flat_set(sperms), "MC_Dev": dev_expr(dev)}
    text = mc.module("MC_Wccn", ["Wccn"], defs)
    cfg = mc.cfg(consts={"N": n, "Dm": dm},
                 subst={"DataSets": "MC_Data", "Parts": "MC_Parts", "LabelMaps": "MC_Labs", "SPerms": "MC_SPerms",
                        "Dev": "MC_Dev"},
                 invariants=invariants, constraints=["Export"] if export else [])
    r = tlc.run(ck.work, "MC_Wccn", cfg, root_text=text, workers=16, coverage=coverage,
                expect_violation=expect_violation)
    return _accounted(ck, name, r, expect_violation)


def whit_run(ck, name, n, dm, data, dev=(), export=True, expect_violation=False, coverage=False):
    defs = {"MC_Data": km.set_of(data), "MC_Dev": dev_expr(dev)}
    text = mc.module("MC_Whitening", ["Whitening"], defs)
    cfg = mc.cfg(consts={"N": n, "Dm": dm}, subst={"DataSets": "MC_Data", "Dev": "MC_Dev"},
                 invariants=WHIT_INV, constraints=["Export"] if export else [])
    r = tlc.run(ck.work, "MC_Whitening", cfg, root_text=text, workers=16, coverage=coverage,
                expect_violation=expect_violation)
    return _accounted(ck, name, r, expect_violation)


def _accounted(ck, name, r, expect_violation):
    # TLC can report an evaluation error (e.g. a Java StackOverflowError while computing initial states) and
    # still exit 0 with a truncated state space: never a verdict
    if r.violation is None and "Error:" in r.stdout:
        i = r.stdout.find("Error:")
        raise tlc.MachineryError("TLC reported an error in run %s:\n%s" % (name, r.stdout[i:i + 600]))
    ck.account(name, r, expect_violation=expect_violation)
    never = [a for a, (d, t) in r.coverage.items() if t == 0 and a not in ("Init", "Export")]
    if never and not expect_violation:
        raise tlc.MachineryError("run %s: actions never taken: %s" % (name, never))
    return r.records


def some_perms(n, count, rng):
    ident = tuple(range(1, n + 1))
    out = [ident, tuple(reversed(ident))]
    while len(out) < count:
        p = list(ident)
        rng.shuffle(p)
        if tuple(p) not in out:
            out.append(tuple(p))
    return out[:count]


# ------------------------------------------------------------------ numeric helpers
def mat(m):
    return np.array([[float(fr(x)) for x in row] for row in m])


def check_factor(W, dm):
    """lower-triangular with positive diagonal (public observable `weights`)"""
    if W.shape != (dm, dm) or not np.all(np.isfinite(W)):
        return "weights of shape %s / not finite: %s" % (W.shape, W.tolist())
    scale = max(1.0, float(np.abs(W).max()))
    if np.any(np.abs(np.triu(W, 1)) > 1e-12 * scale):
        return "weights not lower-triangular: %s" % W.tolist()
    if np.any(np.diag(W) <= 0):
        return "weights with non-positive diagonal: %s" % W.tolist()
    return None


def within_scatter(Z, y):
    y = np.asarray(y)
    S = np.zeros((Z.shape[1], Z.shape[1]))
    for v in sorted(set(int(t) for t in y)):
        C = Z[y == v]
        C = C - C.mean(axis=0)
        S += C.T @ C
    return S


def dask_variant(rng, n, dm):
    """(chunks, y kind, scheduler kind) for one Dask replay"""
    comp = rng.choice(list(km.compositions(n)))
    fchunks = (1, 1) if dm == 2 and rng.random() < 0.2 else (dm,)
    return (tuple(comp), fchunks), rng.choice(["list", "array"]), rng.choice(["synchronous", "replay", "replay-isolated"])


def scheduler(kind, rng):
    if kind == "synchronous":
        return "synchronous"
    return ReplayScheduler(rng=random.Random(rng.randrange(10 ** 6)), isolate=kind.endswith("isolated"))


# ------------------------------------------------------------------ replay: WCCN
class WccnReplay:
    def __init__(self, ck, em, rng):
        self.ck, self.em, self.rng = ck, em, rng
        self.groups = {}        # (data, part) -> (W, scenario) first seen
        self.fails = []         # (clause, detail dict, rec, observed)

    def fail(self, clause, rec, kind, detail, observed=None, pyorder=None, variant=None):
        self.fails.append({"clause": clause, "rec": rec, "input": kind, "detail": detail, "observed": observed,
                           "pyorder": pyorder, "variant": variant})

    def fit(self, rec, kind, variant=None):
        """-> (W, Z) or raises"""
        import dask
        import dask.array as da
        X = np.array(rec["X"], dtype=float)
        y = [int(v) for v in rec["y"]]
        if kind == "numpy":
            t = self.em.WCCN().fit(X, np.array(y))
            return np.asarray(t.weights, dtype=float), np.array([np.asarray(z, dtype=float) for z in t.transform(X)])
        if kind == "numpy-offset":
            # the same samples far from the origin: the within-class scatter is a function of the deviations from
            # the class means, so neither W nor the transformed scatter may move
            X = X + variant
            t = self.em.WCCN().fit(X, np.array(y))
            return np.asarray(t.weights, dtype=float), np.array([np.asarray(z, dtype=float) for z in t.transform(X)])
        if kind == "numpy-units":
            # the same samples in other units (Wccn.AffineLaw): W scales by 1 / s, the transformed data do not move;
            # W is reported back in the original units
            X = X * variant
            t = self.em.WCCN().fit(X, np.array(y))
            return np.asarray(t.weights, dtype=float) * variant, np.array([np.asarray(z, dtype=float) for z in t.transform(X)])
        chunks, ykind, sk = variant
        with dask.config.set(scheduler=scheduler(sk, self.rng)):
            Xd = da.from_array(X, chunks=chunks)
            t = self.em.WCCN().fit(Xd, y if ykind == "list" else np.array(y))
            W = np.asarray(t.weights, dtype=float)
            Z = np.array([np.asarray(z, dtype=float) for z in t.transform(da.from_array(X, chunks=chunks))])
        return W, Z

    def one(self, rec, with_dask, forced=None):
        ck = self.ck
        dm = len(rec["X"][0])
        n = len(rec["X"])
        K = len(rec["order"])
        exp = mat(rec["Ssc"])
        P = mat(rec["P"])
        y = [int(v) for v in rec["y"]]
        pyorder = [int(v) for v in set(np.array(y))]
        scn = {k: rec[k] for k in ("data", "part", "lab", "sp", "X", "y")}
        kinds = [("numpy", None)]
        if self.rng.random() < 0.3:
            kinds.append(("numpy-offset", float(self.rng.choice([1e5, -1e6, 3e6]))))
        if self.rng.random() < 0.3:
            kinds.append(("numpy-units", float(self.rng.choice([1e-6, 1e-5, 1e-4, 1e-2, 1e3]))))
        if with_dask:
            kinds.append(("dask", forced or dask_variant(self.rng, n, dm)))
        Wnp = None
        allok = True
        for kind, variant in kinds:
            ck.replayed += 1
            ck.seen([scn, kind, variant])
            tag = kind if variant is None else ("offset %g" % variant if kind == "numpy-offset" else
                                                  "units x%g" % variant if kind == "numpy-units"
                                                  else "dask chunks=%s y=%s scheduler=%s" % variant)
            try:
                W, Z = self.fit(rec, kind, variant)
            except Exception as e:       # the property promises a projection for every full-rank labelled set
                self.fail("FitRaised", rec, tag, "%s: %s" % (type(e).__name__, e),
                          observed={"raised": type(e).__name__}, pyorder=pyorder, variant=variant)
                allok = False
                continue
            bad = check_factor(W, dm)
            if bad:
                self.fail("LowerTriangularPositiveDiagonal", rec, tag, bad, pyorder=pyorder, variant=variant)
                allok = False
                continue
            G = W @ W.T
            try:
                Gi = np.linalg.inv(G)
            except np.linalg.LinAlgError:
                Gi = np.full((dm, dm), np.nan)
            if not (allclose(Gi, exp) and allclose(G, P)):
                self.fail("ScaledScatterIsModel", rec, tag,
                          "inv(W W^T) = %s, model S/K = %s (K = %d); W W^T = %s, model inverse = %s"
                          % (Gi.tolist(), exp.tolist(), K, G.tolist(), P.tolist()),
                          observed={"Ssc": Gi.tolist()}, pyorder=pyorder, variant=variant)
                allok = False
                continue
            Sz = within_scatter(Z, y) / K if Z.shape == (n, dm) else None
            if Sz is None or not allclose(Sz, np.eye(dm)):
                self.fail("TransformedScatterIsIdentity", rec, tag,
                          "within-class scatter of transform(X) / %d = %s" % (K, None if Sz is None else Sz.tolist()),
                          pyorder=pyorder, variant=variant)
                allok = False
                continue
            if kind == "numpy":
                Wnp = W
                g = self.groups.setdefault(key([rec["data"], rec["part"]]), (W, scn))
                if not allclose(W, g[0]):
                    self.fail("SamePartitionSameW", rec, tag,
                              "weights %s differ from %s obtained for the same partition with X=%s y=%s"
                              % (W.tolist(), g[0].tolist(), g[1]["X"], g[1]["y"]), pyorder=pyorder, variant=variant)
                    allok = False
            elif Wnp is not None and not allclose(W, Wnp):
                self.fail("DaskEqNumpy", rec, tag, "Dask weights %s, NumPy weights %s" % (W.tolist(), Wnp.tolist()),
                          pyorder=pyorder, variant=variant)
                allok = False
        if allok:
            ck.sample({"mechanism": "M2", "module": "Wccn", "scenario": scn, "iteration_order_in_model": rec["order"],
                       "expected_scaled_scatter": rec["Ssc"], "inputs": [k for k, _ in kinds], "verdict": "ok"}, limit=4)

    # -- classification of mismatches against the as-implemented model
    def report(self):
        ck = self.ck
        if not self.fails:
            return
        scen = {}
        for f in self.fails:
            r = f["rec"]
            scen.setdefault(key([r["data"], r["part"], r["lab"], r["sp"]]), f)
        # a seeded sample of the failing scenarios (TLC explores the product of their components)
        pick = self.rng.sample(sorted(scen), min(10, len(scen)))
        scen = {k: scen[k] for k in pick}
        devrecs = {}
        try:
            by_shape = {}
            for f in scen.values():
                r = f["rec"]
                by_shape.setdefault((len(r["data"]), len(r["data"][0])), []).append(r)
            for (n, dm), rs in by_shape.items():
                data = sorted({tuple(map(tuple, r["data"])) for r in rs})
                parts = sorted({tuple(r["part"]) for r in rs})
                labs = sorted({tuple(r["lab"]) for r in rs})
                sps = sorted({tuple(r["sp"]) for r in rs})
                out = wccn_run(ck, "wccn-as-implemented-%dx%d" % (n, dm), n, dm, data, parts, labs, sps,
                               dev=(DEV_WCCN,), invariants=[], export=True)
                for d in out:
                    devrecs[key([d["data"], d["part"], d["lab"], d["sp"], d["order"]])] = d
        except tlc.MachineryError as e:
            ck.notes.append("classification run failed: %s" % str(e)[:200])
        out = []
        counts, classes = {}, {"matches_as_implemented_model": 0, "not_explained_by_deviation": 0, "not_classified": 0}
        for f in self.fails:
            r = f["rec"]
            counts[f["clause"]] = counts.get(f["clause"], 0) + 1
            d = devrecs.get(key([r["data"], r["part"], r["lab"], r["sp"], f["pyorder"]]))
            cls = "not classified"
            if d is not None and f["observed"] is not None:
                if d["status"] == "error":
                    same = f["observed"].get("raised") == "IndexError"
                    pred = "IndexError"
                else:
                    pred = mat(d["Ssc"]).tolist()
                    same = "Ssc" in f["observed"] and allclose(np.array(f["observed"]["Ssc"]), mat(d["Ssc"]))
                cls = ("matches the as-implemented model exactly (deviation %s with iteration order %s predicts %s)"
                       % (DEV_WCCN, f["pyorder"], pred)) if same else \
                      ("NOT explained by deviation %s (it predicts %s for iteration order %s)" % (DEV_WCCN, pred, f["pyorder"]))
                classes["matches_as_implemented_model" if same else "not_explained_by_deviation"] += 1
            else:
                classes["not_classified"] += 1
            out.append((cls == "not classified", "M2:Wccn:" + f["clause"],
                         {"mechanism": "M2", "module": "Wccn", "input": f["input"],
                          "scenario": {"X": r["X"], "y": r["y"], "data": r["data"], "part": r["part"], "lab": r["lab"],
                                       "sp": r["sp"]},
                          "python_set_order": f["pyorder"],
                          "expected": {"scaled_scatter": r["Ssc"], "inverse": r["P"]},
                          "detail": f["detail"], "classification": cls,
                          "record": r, "dask_variant": f["variant"]}))
        out.sort(key=lambda t: t[0])          # the replay file of a clause shows a classified case when there is one
        for _, clause, rep in out:
            ck.violation(clause, rep)
        ck.extra["wccn_mismatches"] = {"by_clause": counts, "classification": classes}


# ------------------------------------------------------------------ replay: whitening
def replay_whitening(ck, em, rec, rng, with_dask, forced=None):
    import dask
    import dask.array as da
    X = np.array(rec["data"], dtype=float)
    n, dm = X.shape
    exp = mat(rec["cov"])
    P = mat(rec["P"])
    mean = np.array([float(fr(x)) for x in rec["mean"]])
    scn = {"data": rec["data"]}
    kinds = [("numpy", None)]
    if rng.random() < 0.3:
        # other units and another origin (Whitening.AffineLaw): W scales by 1 / s, the whitened data do not move
        kinds.append(("numpy-units", (float(rng.choice([1e-6, 1e-5, 1e-4, 1e-2, 1e3])), float(rng.choice([0.0, 0.0, 1e3])))))
    if with_dask:
        chunks, _, sk = dask_variant(rng, n, dm)
        kinds.append(("dask", forced or (chunks, sk)))
    Wnp = None
    allok = True
    for kind, variant in kinds:
        ck.replayed += 1
        ck.seen([scn, "whitening", kind, variant])
        tag = kind if variant is None else ("units x%g, origin moved by %g units" % variant if kind == "numpy-units"
                                            else "dask chunks=%s scheduler=%s" % variant)

        def bad(clause, detail):
            ck.violation("M2:Whitening:" + clause,
                         {"mechanism": "M2", "module": "Whitening", "input": tag, "scenario": scn,
                          "expected": {"mean": rec["mean"], "cov": rec["cov"], "inverse": rec["P"]}, "detail": detail,
                          "record": rec, "dask_variant": variant})
        try:
            if kind == "numpy":
                t = em.Whitening().fit(X)
                W = np.asarray(t.weights, dtype=float)
                mu = np.asarray(t.input_subtract, dtype=float)
                Z = np.asarray(t.transform(X), dtype=float)
            elif kind == "numpy-units":
                sc, off = variant
                Xs = (X + off) * sc
                t = em.Whitening().fit(Xs)
                W = np.asarray(t.weights, dtype=float) * sc           # back in the original units
                mu = np.asarray(t.input_subtract, dtype=float) / sc - off
                Z = np.asarray(t.transform(Xs), dtype=float)
            else:
                with dask.config.set(scheduler=scheduler(variant[1], rng)):
                    t = em.Whitening().fit(da.from_array(X, chunks=variant[0]))
                    W = np.asarray(t.weights, dtype=float)
                    mu = np.asarray(t.input_subtract, dtype=float)
                    Z = np.asarray(t.transform(da.from_array(X, chunks=variant[0])), dtype=float)
        except Exception as e:
            bad("FitRaised", "%d samples x %d feature(s): %s: %s" % (n, dm, type(e).__name__, e))
            allok = False
            continue
        msg = check_factor(W, dm)
        if msg:
            bad("LowerTriangularPositiveDiagonal", msg)
            allok = False
            continue
        if mu.shape != mean.shape or not allclose(mu, mean):
            bad("MeanIsSampleMean", "input_subtract = %s, sample mean = %s" % (mu.tolist(), mean.tolist()))
            allok = False
            continue
        G = W @ W.T
        try:
            Gi = np.linalg.inv(G)
        except np.linalg.LinAlgError:
            Gi = np.full((dm, dm), np.nan)
        if not (allclose(Gi, exp) and allclose(G, P)):
            bad("CovIsSampleCov", "inv(W W^T) = %s, sample covariance (N-1) = %s; W W^T = %s, its inverse = %s"
                % (Gi.tolist(), exp.tolist(), G.tolist(), P.tolist()))
            allok = False
            continue
        ok = Z.shape == (n, dm)
        if ok:
            zm = Z.mean(axis=0)
            zc = np.atleast_2d(np.cov(Z.T))
            ok = allclose(zm, np.zeros(dm)) and allclose(zc, np.eye(dm))
        if not ok:
            bad("TransformedIsWhite", "transform(X): shape %s, mean %s, sample covariance %s"
                % (Z.shape, zm.tolist() if Z.shape == (n, dm) else None, zc.tolist() if Z.shape == (n, dm) else None))
            allok = False
            continue
        if kind == "numpy":
            Wnp = W
        elif Wnp is not None and not allclose(W, Wnp):
            bad("DaskEqNumpy", "Dask weights %s, NumPy weights %s" % (W.tolist(), Wnp.tolist()))
            allok = False
    if allok:
        ck.sample({"mechanism": "M2", "module": "Whitening", "scenario": scn, "expected_cov": rec["cov"],
                   "inputs": [k for k, _ in kinds], "verdict": "ok"}, limit=6)


# ------------------------------------------------------------------ the check
def run(ck):
    em = pin_repo()
    rng = random.Random(ck.seed)
    quick = ck.tier == "quick"
    ck.assumptions += [
        "full-rank scenarios only (Init filters on a non-zero determinant of the scatter / covariance)",
        "the iteration order of the label set is an arbitrary permutation in the model; the code is run with whatever "
        "order Python's set gives and must produce the order-independent result",
        "W itself is not computed by TLC: it is characterised by lower-triangular, positive diagonal, W W^T = exact inverse",
        "float comparison |obs-exp| <= 1e-8 max(1,|exp|)"]
    case = getattr(ck, "replay_case", None)
    if case and case.get("record"):      # ./check C14 --replay <file>: re-execute exactly that scenario
        v = case.get("dask_variant")
        if v:
            v = [tuple(tuple(c) for c in v[0])] + list(v[1:])
        if case.get("module") == "Whitening":
            replay_whitening(ck, em, case["record"], rng, True, forced=tuple(v) if v else None)
        else:
            wr = WccnReplay(ck, em, rng)
            wr.one(case["record"], True, forced=tuple(v) if v else None)
            wr.report()
        return
    labs = label_maps()
    vals1 = [0, 1, 2, 3, 5]
    vals2 = [0, 1, 3]
    cov = not quick

    # ---- M1 + export: WCCN
    wrecs = []
    n1 = 4
    d1 = km.datasets(n1, 1, vals1)
    d1 = rng.sample(d1, 4 if quick else 20)
    wrecs += wccn_run(ck, "wccn-1d", n1, 1, d1, partitions(n1, 3), labs, some_perms(n1, 2 if quick else 3, rng),
                      coverage=cov)
    n2 = 5 if quick else 6
    d2 = rng.sample(km.datasets(n2, 2, vals2), 4 if quick else 10)
    p2 = partitions(n2, 3)
    p2 = rng.sample(p2, 6 if quick else 20)
    wrecs += wccn_run(ck, "wccn-2d", n2, 2, d2, p2, labs, some_perms(n2, 2 if quick else 3, rng), coverage=cov)
    # the deviating variant must be refuted (non-vacuity; this is what wccn.py:75 does)
    wccn_run(ck, "wccn-1d-dev-" + DEV_WCCN, n1, 1, d1[:2], partitions(n1, 3), labs, some_perms(n1, 2, rng),
             dev=(DEV_WCCN,), export=False, expect_violation=True)

    # ---- M1 + export: whitening
    hrecs = []
    dw1 = km.datasets(4, 1, vals1)
    hrecs += whit_run(ck, "whitening-1d", 4, 1, rng.sample(dw1, 30) if quick else dw1, coverage=cov)
    nw = 5 if quick else 6
    dw2 = rng.sample(km.datasets(nw, 2, vals2), 200 if quick else 700)
    hrecs += whit_run(ck, "whitening-2d", nw, 2, dw2, coverage=cov)
    # the smallest full-rank training sets: n = d + 1 samples in general position (and one more)
    for nb, db, vb in ((2, 1, vals1), (3, 1, vals1), (3, 2, vals2 + [5]), (4, 2, vals2)):
        dsb = km.datasets(nb, db, vb)
        if len(dsb) > (60 if quick else 400):
            dsb = rng.sample(dsb, 60 if quick else 400)
        hrecs += whit_run(ck, "whitening-%dd-n%d" % (db, nb), nb, db, dsb, coverage=cov)
    whit_run(ck, "whitening-1d-dev-" + DEV_WHIT, 4, 1, dw1[:20], dev=(DEV_WHIT,), export=False, expect_violation=True)
    ck.exhaustive = True
    ck.extra["exported"] = {"wccn": len(wrecs), "whitening": len(hrecs)}

    # ---- M2
    wrecs.sort(key=key)      # TLC's workers print in a varying order; sampling must depend on the seed only
    hrecs.sort(key=key)
    wr = WccnReplay(ck, em, rng)
    if quick and len(wrecs) > 3000:
        wrecs = rng.sample(wrecs, 3000)
    n_dask = 50 if quick else 400
    dask_idx = set(rng.sample(range(len(wrecs)), min(n_dask, len(wrecs))))
    for i, rec in enumerate(wrecs):
        wr.one(rec, i in dask_idx)
    wr.report()
    n_dask_w = 60 if quick else 300
    dask_idx = set(rng.sample(range(len(hrecs)), min(n_dask_w, len(hrecs))))
    for i, rec in enumerate(hrecs):
        replay_whitening(ck, em, rec, rng, i in dask_idx)
