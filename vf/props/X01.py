"""X01 (extra, not a listed property) - the configuration life cycle of the estimators (specs/Estimator.tla).

M1  TLC: behaviours of <= 4 public calls (construct, set_params, fit, clone, deepcopy / pickle) on <= 3 objects,
    for the two shapes of estimator (fit() starts afresh / continues; with / without a parameter fit() fills in);
    FitKeepsConfiguration, CloneIsUnfittedTwin, CopyIsTwin, SetParamVisible, NoCrossTalk,
    LearnedIsFunctionOfCfgAndData; four named deviations refuted.
M2  every exported behaviour (a seeded sample in the quick tier) executed on each real class; after every call the
    configuration of every object (get_params()) is classified back into the model's abstract values and compared,
    fitted-ness is compared, and learned parameters with equal abstract tokens must be equal.

Run with `./check X01`; it is not registered in MANIFEST.json and writes its evidence under notes/extra/."""
import copy
import inspect
import json
import pickle
import random

import numpy as np

from .. import mc, tlc
from ..common import pin_repo

PROPS = ["FitKeepsConfiguration", "CloneIsUnfittedTwin", "CopyIsTwin", "SetParamVisible", "NoCrossTalk"]
DEVS = {"FIT_OVERWRITES_PARAM": "FitKeepsConfiguration", "CLONE_DROPS_PARAM": "CloneIsUnfittedTwin",
        "COPY_DROPS_LEARNED": "CopyIsTwin", "SETPARAM_NOT_VISIBLE": "SetParamVisible"}


def model(ck, name, params, fills, refit, dev=(), expect_violation=False, maxlen=4, coverage=False, clonable=True):
    s = lambda xs: mc.Expr("{" + ", ".join('"%s"' % x for x in xs) + "}")
    text = mc.module("MC_Estimator", ["Estimator"], {"MC_Params": s(params), "MC_Fills": s(fills), "MC_Dev": s(dev),
                                                     "MC_Vals": s(["d", "x", "none"]), "MC_Data": mc.Expr("{1, 2}")})
    cfg = mc.cfg(consts={"MaxObjs": 3, "MaxLen": maxlen, "Refit": mc.Expr("TRUE" if refit else "FALSE"),
                         "Clonable": mc.Expr("TRUE" if clonable else "FALSE")},
                 subst={"Params": "MC_Params", "Fills": "MC_Fills", "Dev": "MC_Dev", "Vals": "MC_Vals", "DataSets": "MC_Data"},
                 invariants=["LearnedIsFunctionOfCfgAndData"], properties=PROPS,
                 constraints=[] if expect_violation else ["Export"])
    r = tlc.run(ck.work, "MC_Estimator", cfg, root_text=text, workers=8, coverage=coverage, expect_violation=expect_violation)
    ck.account(name, r, expect_violation=expect_violation)
    return r.records


# ---------------------------------------------------------------------------- the real classes
class Kind:
    """One estimator class: which real hyper-parameters play a, b (and u), their non-default values, its data."""

    def __init__(self, em, name):
        self.em, self.name = em, name
        r = np.random.RandomState(7)
        self.X = {1: r.normal(size=(24, 2)) + np.repeat([[0, 0], [4, 1], [1, 5]], 8, axis=0),
                  2: r.normal(size=(24, 2)) * 1.5 + np.repeat([[2, 2], [-3, 1], [0, -4]], 8, axis=0)}
        self.y = np.repeat([0, 1, 2], 8)
        ubm = em.GMMMachine(2)
        ubm.means, ubm.variances, ubm.weights = np.array([[0.0, 0.0], [3.0, 3.0]]), np.ones((2, 2)) * 2, np.array([0.5, 0.5])
        self.ubm = ubm
        self.fixed = {}
        self.params = {}
        if name == "KMeansMachine":
            self.cls, self.fixed = em.KMeansMachine, dict(n_clusters=2, init_method=np.array([[0.0, 0.0], [3.0, 3.0]]))
            self.params = {"a": ("max_iter", 3), "b": ("convergence_threshold", 1e-3)}
            self.refit, self.learned = True, ["centroids_"]
        elif name == "GMMMachine":
            self.cls, self.fixed = em.GMMMachine, dict(n_gaussians=2)
            self.params = {"a": ("max_fitting_steps", 2), "b": ("update_variances", True)}
            self.fixed["k_means_trainer"] = em.KMeansMachine(2, init_method=np.array([[0.0, 0.0], [3.0, 3.0]]), max_iter=1)
            self.refit, self.learned = False, ["means", "variances", "weights"]
        elif name in ("ISVMachine", "JFAMachine"):
            self.cls = getattr(em, name)
            self.fixed = dict(r_U=1, ubm_kwargs=dict(n_gaussians=2, max_fitting_steps=2, random_state=1))
            if name == "JFAMachine":
                self.fixed["r_V"] = 1
            self.params = {"a": ("em_iterations", 1), "b": ("relevance_factor", 2.0), "u": ("ubm", lambda: copy.deepcopy(self.ubm))}
            self.refit, self.learned = False, ["U", "D"] + (["V"] if name == "JFAMachine" else [])
        elif name == "IVectorMachine":
            self.cls, self.fixed = em.IVectorMachine, dict(ubm=ubm, dim_t=2)
            self.params = {"a": ("max_iterations", 1), "b": ("update_sigma", False)}
            self.refit, self.learned = True, ["T", "sigma"]
        else:
            self.cls = getattr(em, name)
            self.params = {"a": ("pinv", True)}
            self.refit, self.learned = True, ["weights", "input_subtract"]
        sig = inspect.signature(self.cls.__init__).parameters
        self.defaults = {k: sig[p].default for k, (p, _) in self.params.items()}

    def value(self, k, v):
        p, x = self.params[k]
        if v == "x":
            return x() if callable(x) else x
        return None if v == "none" else self.defaults[k]

    def construct(self, cfg):
        return self.cls(**dict(self.fixed), **{self.params[k][0]: self.value(k, v) for k, v in cfg.items()})

    def classify(self, m, k, before=None):
        """The abstract value of parameter k as get_params() reports it."""
        p, x = self.params[k]
        got = m.get_params(deep=False)[p]
        if callable(x):      # an estimator-valued parameter
            if got is None:
                return "none"
            want = x()
            same = type(got) is type(want) and _eq(_plain(got.get_params(deep=False)), _plain(want.get_params(deep=False)))
            if before == "none" and got is not None:
                return "filled"
            return "x" if same else "other:%s" % type(got).__name__
        if _eq(got, x):
            return "x"
        if _eq(got, self.defaults[k]):
            return "d"
        return "other:%r" % (got,)

    def fit(self, m, d):
        if self.name in ("ISVMachine", "JFAMachine"):
            return m.fit_using_array(self.X[d], self.y)
        if self.name == "IVectorMachine":
            np.random.seed(5)
            return m.fit([self.ubm.acc_stats(self.X[d][i:i + 4]) for i in range(0, 24, 4)])
        if self.name == "WCCN":
            return m.fit(self.X[d], self.y)
        return m.fit(self.X[d])

    def is_fitted(self, m):
        if self.name in ("ISVMachine", "JFAMachine"):
            return None          # U, D exist as soon as the machine has a UBM: fitted-ness is not observable
        try:
            return all(getattr(m, a, None) is not None for a in self.learned)
        except Exception:      # GMMMachine.means raises while unset
            return False

    def learned_of(self, m):
        return [np.array(getattr(m, a), dtype=float) for a in self.learned]


def _plain(d):
    # GMMMachine's constructor argument `weights` doubles as a learned parameter (training overwrites it): it is not
    # part of the configuration compared here
    d = {k: v for k, v in d.items() if k != "weights"}
    return {k: (v.tolist() if isinstance(v, np.ndarray) else (type(v).__name__ if hasattr(v, "get_params") else v)) for k, v in d.items()}


def _eq(a, b):
    try:
        if isinstance(a, np.ndarray) or isinstance(b, np.ndarray):
            return np.array_equal(np.asarray(a), np.asarray(b))
        return type(a) is type(b) and a == b or (a is None and b is None) or (isinstance(a, (int, float)) and isinstance(b, (int, float))
                                                                                and not isinstance(a, bool) and not isinstance(b, bool) and a == b)
    except Exception:
        return False


def replay(ck, kind, rec):
    from sklearn.base import clone
    objs, cfgs, tokens = [], [], {}
    trace = []

    def bad(clause, step, detail):
        ck.violation("M2:Estimator:" + clause, {"mechanism": "M2", "module": "Estimator", "class": kind.name,
                                                "behaviour": rec["h"], "step": step, "calls": trace, "detail": detail})
    ck.replayed += 1
    ck.seen([kind.name, rec["h"]])
    for n, st in enumerate(rec["h"], 1):
        a, i, j, x = st["a"], st["i"], st["j"], st["x"]
        try:
            if a == "Construct":
                objs.append(kind.construct(x))
                cfgs.append(dict(x))
                trace.append("o%d = %s(%s)" % (i, kind.name, x))
            elif a == "SetParam":
                k, v = x
                objs[i - 1].set_params(**{kind.params[k][0]: kind.value(k, v)})
                cfgs[i - 1][k] = v
                trace.append("o%d.set_params(%s=%s)" % (i, kind.params[k][0], v))
            elif a == "Fit":
                out = kind.fit(objs[i - 1], x)
                trace.append("o%d.fit(data %d)" % (i, x))
                if out is not objs[i - 1]:
                    return bad("FitReturnsSelf", n, "fit() returned %r" % (type(out).__name__,))
            elif a == "Clone":
                objs.append(clone(objs[i - 1]))
                cfgs.append(dict(cfgs[i - 1]))
                trace.append("o%d = clone(o%d)" % (j, i))
            elif a == "Copy":
                objs.append(copy.deepcopy(objs[i - 1]) if x == "deepcopy" else pickle.loads(pickle.dumps(objs[i - 1])))
                cfgs.append(dict(cfgs[i - 1]))
                trace.append("o%d = %s(o%d)" % (j, x, i))
        except Exception as e:        # noqa: BLE001 - any exception of these public calls is a verdict here
            return bad(a + "Raised", n, "%s: %s" % (type(e).__name__, str(e)[:300]))
    # the final state of every object against the model's
    for idx, (m, o) in enumerate(zip(objs, rec["o"]), 1):
        for k, want in o["cfg"].items():
            got = kind.classify(m, k, before=cfgs[idx - 1].get(k))
            if got != want and not (want == "filled" and got in ("filled", "x")):
                clause = "FitKeepsConfiguration" if o["fitted"] else "ConfigurationVisible"
                return bad(clause, len(rec["h"]), "object %d: parameter %s (%s) is %r, the model says %r"
                           % (idx, k, kind.params[k][0], got, want))
        if kind.is_fitted(m) is not None and kind.is_fitted(m) != bool(o["fitted"]):
            return bad("Fittedness", len(rec["h"]), "object %d: fitted=%s, the model says %s" % (idx, kind.is_fitted(m), o["fitted"]))
        if o["fitted"]:
            tok = json.dumps(o["gen"], sort_keys=True)
            val = kind.learned_of(m)
            if tok in tokens:
                ref = tokens[tok]
                if not all(a.shape == b.shape and np.allclose(a, b, rtol=1e-9, atol=1e-12) for a, b in zip(val, ref)):
                    return bad("LearnedIsFunctionOfCfgAndData", len(rec["h"]),
                               "object %d learned something else than another object fitted with the same configuration "
                               "and data (token %s)" % (idx, tok))
            else:
                tokens[tok] = val
    ck.sample({"mechanism": "M2", "class": kind.name, "calls": trace, "verdict": "ok"}, limit=12)


def run(ck):
    em = pin_repo()
    rng = random.Random(ck.seed)
    quick = ck.tier == "quick"
    ck.assumptions += ["an extra specification (estimator life cycle), not one of the listed properties",
                       "parameters a, b (, u) of the model are two (three) real hyper-parameters per class; other "
                       "constructor arguments are held fixed",
                       "GMMMachine / ISVMachine / JFAMachine continue training on a second fit (by design): fitted once here"]
    shapes = {}
    for name, params, fills, refit, clonable in (("plain-refit", ["a", "b"], [], True, True), ("one-param-refit", ["a"], [], True, True),
                                                 ("plain-refit-noclone", ["a", "b"], [], True, False),
                                                 ("plain-once", ["a", "b"], [], False, True),
                                                 ("fill-once", ["a", "b", "u"], ["u"], False, True)):
        shapes[name] = model(ck, "estimator:" + name, params, fills, refit, coverage=not quick, clonable=clonable)
    for d, f in DEVS.items():
        model(ck, "deviation:" + d, ["a", "b", "u"], ["u"], False, dev=[d], expect_violation=True, maxlen=3)
    ck.exhaustive = True
    classes = [("KMeansMachine", "plain-refit"), ("IVectorMachine", "plain-refit-noclone"), ("WCCN", "one-param-refit"),
               ("Whitening", "one-param-refit"), ("GMMMachine", "plain-once"), ("ISVMachine", "fill-once"), ("JFAMachine", "fill-once")]
    for cname, shape in classes:
        kind = Kind(em, cname)
        recs = sorted(shapes[shape], key=lambda r: json.dumps(r, sort_keys=True))
        n = 120 if quick else 1500
        if len(recs) > n:
            # behaviours with a fit are the interesting ones
            withfit = [r for r in recs if any(s["a"] == "Fit" for s in r["h"])]
            recs = rng.sample(withfit, min(len(withfit), n * 3 // 4)) + rng.sample(recs, n // 4)
        before = len(ck.violations)
        for rec in recs:
            replay(ck, kind, rec)
            if len(ck.violations) - before >= 3:
                break
