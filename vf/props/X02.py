"""X02 (extra, not a listed property) - the comparison relations of GMMStats and GMMMachine (specs/Equality.tla).

M1  TLC: behaviours of <= 5 public operations (construct, deepcopy / pickle, assign one field) on <= 3 objects, for the
    two kinds; EqReflexiveOnTrained, UntrainedNeverEqual, EqSymmetric, StatsEqTransitive, StatsEqIsIdentity,
    EqImpliesSimilar, MachineEqIsDefaultSimilar, SimilarMonotone, SimilarNeedsEveryField, CopyIsEqual,
    EqSeesEveryField; MachineEqNotTransitive refuted on purpose (the as-implemented `==` of machines is a tolerance
    relation); three named deviations refuted.
M2  every exported behaviour (a seeded sample in the quick tier) executed on real objects; the full matrices of
    `a == b` and `a.is_similar_to(b, rtol)` at three tolerances over all ordered pairs of objects compared with the
    model's, for several placements of the grid (base value, which array element carries the position).

Run with `./check X02`; it is not registered in MANIFEST.json and writes its evidence under notes/extra/."""
import copy
import json
import pickle
import random

import numpy as np

from .. import mc, tlc
from ..common import pin_repo

INVS = ["EqReflexiveOnTrained", "UntrainedNeverEqual", "EqSymmetric", "StatsEqTransitive", "StatsEqIsIdentity",
        "EqImpliesSimilar", "MachineEqIsDefaultSimilar", "SimilarMonotone", "SimilarNeedsEveryField"]
PROPS = ["CopyIsEqual", "EqSeesEveryField"]
FIELDS = {"stats": ["ll", "t", "n", "sx", "sxx"], "machine": ["m", "v", "w", "th"]}
DEVS = {"EQ_IGNORES_FIELD": ("machine", "EqSeesEveryField"), "SIMILAR_ANY_FIELD": ("stats", "SimilarNeedsEveryField"),
        "STATS_EQ_TOLERANT": ("stats", "StatsEqIsIdentity")}
STEP = 7e-6                      # one grid step, relative: 0.7 of numpy's default rtol
RTOL = [1e-6, 1e-5, 1.6e-5]      # tolerance levels 0, 1, 2


def model(ck, name, kind, dev=(), expect=None, maxlen=5, coverage=False, invs=INVS, props=PROPS, export=True):
    fs = FIELDS[kind]
    s = lambda xs: mc.Expr("{" + ", ".join('"%s"' % x for x in xs) + "}")
    text = mc.module("MC_Equality", ["Equality"], {"MC_Fields": s(fs), "MC_Dev": s(dev), "MC_Grid": mc.Expr("0..3")})
    cfg = mc.cfg(consts={"MaxObjs": 3, "MaxLen": maxlen, "Kind": mc.Expr('"%s"' % kind), "Ignored": mc.Expr('"%s"' % fs[-1])},
                 subst={"Fields": "MC_Fields", "Dev": "MC_Dev", "Grid": "MC_Grid"},
                 invariants=invs, properties=props, constraints=["Export"] if export else [])
    r = tlc.run(ck.work, "MC_Equality", cfg, root_text=text, workers=8, coverage=coverage, expect_violation=bool(expect))
    ck.account(name, r, expect_violation=bool(expect))
    if expect and r.violation and expect not in str(r.violation):
        ck.violation("TLC:%s:wrong-property" % name, {"mechanism": "M1", "run": name, "violated": r.violation, "expected": expect})
    return r.records


class Placement:
    """How a grid position becomes a concrete value: base magnitude and which element of the array carries it."""

    def __init__(self, em, kind, base, elem, rng):
        self.em, self.kind, self.base, self.elem = em, kind, base, elem
        self.K, self.D = 2, 3

    def val(self, f, k):
        if f == "t":
            return int(1000000 + 7 * (k - 1))
        b = {"ll": -self.base, "w": 0.5, "th": 0.25 * self.base, "v": self.base, "n": self.base, "sx": -self.base,
             "sxx": self.base, "m": -self.base}[f]
        return b * (1.0 + STEP * (k - 1))

    def new(self, o):
        em = self.em
        if self.kind == "stats":
            s = em.GMMStats(self.K, self.D)
            s.n = np.full(self.K, 3.0)
            s.sum_px = np.full((self.K, self.D), 2.0)
            s.sum_pxx = np.full((self.K, self.D), 5.0)
            s.t, s.log_likelihood = 0, 0.0
            for f, k in o.items():
                self.assign(s, f, k)
            return s
        m = em.GMMMachine(self.K)
        if all(v == -1 for v in o.values()):
            return m
        m.means = np.full((self.K, self.D), 1.5)
        m.variance_thresholds = np.full((self.K, self.D), 0.01)
        m.variances = np.full((self.K, self.D), 2.0)
        m.weights = np.full(self.K, 0.5)
        for f in ("th", "v", "m", "w"):      # the thresholds first: assigning them re-clamps the variances
            self.assign(m, f, o[f])
        return m

    def assign(self, x, f, k):
        attr = {"ll": "log_likelihood", "t": "t", "n": "n", "sx": "sum_px", "sxx": "sum_pxx", "m": "means", "v": "variances",
                "w": "weights", "th": "variance_thresholds"}[f]
        v = self.val(f, k)
        if f in ("ll", "t"):
            setattr(x, attr, v)
            return
        a = np.array(getattr(x, attr), dtype=float, copy=True)
        a.flat[self.elem % a.size] = v
        setattr(x, attr, a)


def rel(fn):
    try:
        return "T" if bool(fn()) else "F"
    except Exception:      # noqa: BLE001 - the model says where a comparison raises
        return "raises"


def replay(ck, pl, rec):
    objs, trace = [], []

    def bad(clause, detail):
        ck.violation("M2:Equality:" + clause, {"mechanism": "M2", "module": "Equality", "kind": pl.kind, "base": pl.base,
                                               "element": pl.elem, "behaviour": rec["h"], "calls": trace, "detail": detail})
    ck.replayed += 1
    ck.seen([pl.kind, pl.base, pl.elem, rec["h"]])
    for st in rec["h"]:
        a, i = st["a"], st["i"]
        try:
            if a == "New":
                objs.append(pl.new(st["o"]))
                trace.append("o%d = new %s" % (i, st["o"]))
            elif a == "Copy":
                how = "deepcopy" if (len(trace) + i) % 2 else "pickle"
                objs.append(copy.deepcopy(objs[i - 1]) if how == "deepcopy" else pickle.loads(pickle.dumps(objs[i - 1])))
                trace.append("o%d = %s(o%d)" % (len(objs), how, i))
            else:
                pl.assign(objs[i - 1], st["f"], st["k"])
                trace.append("o%d.%s <- position %d" % (i, st["f"], st["k"]))
        except Exception as e:      # noqa: BLE001
            return bad(a + "Raised", "%s: %s" % (type(e).__name__, str(e)[:300]))
    n = len(objs)
    for i in range(n):
        for j in range(n):
            got = rel(lambda: objs[i] == objs[j])
            want = rec["eq"][i][j]
            if got != want:
                return bad("Eq", "o%d == o%d is %s, the model says %s" % (i + 1, j + 1, got, want))
            for t in range(3):
                got = rel(lambda: objs[i].is_similar_to(objs[j], rtol=RTOL[t], atol=0.0))
                want = rec["sim"][t][i][j]
                if pl.kind == "stats" and want == "raises":
                    continue
                if got != want:
                    return bad("Similar", "o%d.is_similar_to(o%d, rtol=%g) is %s, the model says %s" % (i + 1, j + 1, RTOL[t], got, want))
    ck.sample({"mechanism": "M2", "kind": pl.kind, "calls": trace, "eq": rec["eq"], "verdict": "ok"}, limit=8)


def run(ck):
    em = pin_repo()
    rng = random.Random(ck.seed)
    quick = ck.tier == "quick"
    ck.assumptions += ["an extra specification (comparison relations), not one of the listed properties",
                       "one grid step = 0.7 x numpy's default rtol; positions are carried by one element of each array field; base magnitudes >= 1 so that the absolute tolerance 1e-8 of `==` plays no part",
                       "GMMMachine.__eq__ is numpy.allclose at the default tolerance (as implemented): reflexive and symmetric on "
                       "the grid, not transitive; an untrained left operand compares unequal, an untrained right operand raises"]
    recs = {}
    for kind in ("stats", "machine"):
        recs[kind] = model(ck, "equality:" + kind, kind, coverage=not quick)
    model(ck, "equality:machine-eq-is-not-transitive", "machine", expect="MachineEqNotTransitive", invs=["MachineEqNotTransitive"],
          props=[], export=False)
    for d, (kind, prop) in DEVS.items():
        model(ck, "deviation:" + d, kind, dev=[d], expect=prop, export=False,
              invs=[prop] if prop in INVS else [], props=[prop] if prop in PROPS else [])
    ck.exhaustive = True
    for kind in ("stats", "machine"):
        rs = sorted(recs[kind], key=lambda r: json.dumps(r, sort_keys=True))
        n = 400 if quick else 6000
        if len(rs) > n:
            rs = rng.sample(rs, n)
        before = len(ck.violations)
        for q, rec in enumerate(rs):
            pl = Placement(em, kind, [1.0, 250.0, 40.0][q % 3], q % 7, rng)
            replay(ck, pl, rec)
            if len(ck.violations) - before >= 3:
                break
