"""C20 - k-means assigns to the nearest centroid; cluster-derived GMM initialisation is exact.

M1  specs/KMeansStats.tla: distances are squared Euclidean, labels are nearest centroids, weights are
    the member fractions, variances the biased member variances, for every row composition and every
    order of the block tasks; translation invariance (exact).
M2  every exported scenario replayed through transform / predict (batch, single sample, Dask),
    get_variances_and_weights_for_each_cluster (NumPy, Dask with the scenario's composition under the
    replaying scheduler, shared and isolated), and the GMM hand-over; each at harness-level offsets
    0, 1e4, 1e8 (justified by the TLC-checked translation invariance)."""
import random

import numpy as np

from .. import kmeans_model as km
from .. import mc, tlc
from ..common import allclose, fr, pin_repo
from ..sched import ReplayScheduler

INV = ["DistancesAreSquaredEuclidean", "LabelIsNearest", "WeightsAreFractions", "VarIsBiasedVar",
       "HandOverExact", "TranslationInvariant", "ScaleEquivariant"]
# harness-level placements of the exact scenario: (unit scale, offset)
PLACEMENTS = [(1.0, 0.0), (1.0, 1e4), (1.0, 1e8), (1e-5, 0.0), (1e3, 0.0)]


def model_run(ck, name, n, dm, k, data, cents, comps, coverage=False):
    defs = {"MC_Data": km.set_of(data), "MC_Cent": km.set_of(cents), "MC_Comps": km.set_of(comps),
            "MC_Shifts": mc.Expr("{-3, 7}")}
    text = mc.module("MC_KMeansStats", ["KMeansStats"], defs)
    cfg = mc.cfg(consts={"N": n, "Dm": dm, "K": k},
                 subst={"DataSets": "MC_Data", "CentSets": "MC_Cent", "Comps": "MC_Comps", "Shifts": "MC_Shifts"},
                 invariants=INV, constraints=["Export"])
    r = tlc.run(ck.work, "MC_KMeansStats", cfg, root_text=text, workers=16, coverage=coverage)
    ck.account(name, r)
    return r.records


def run(ck):
    em = pin_repo()
    rng = random.Random(ck.seed)
    quick = ck.tier == "quick"
    ck.assumptions += ["ties between centroids are excluded from the domain (as the property states)",
                       "expected values at offsets 1e4 / 1e8 rest on the TLC-checked translation invariance",
                       "float comparison |obs-exp| <= 1e-8 max(1,|exp|)"]
    recs = []
    vals = [0, 1, 2, 4, 7]
    n1 = 4 if quick else 5
    d1 = km.datasets(n1, 1, vals)
    c1 = km.initsets(2, 1, vals)
    comps = list(km.compositions(n1))
    recs += model_run(ck, "stats-1d-k2", n1, 1, 2, rng.sample(d1, 30) if quick else rng.sample(d1, min(len(d1), 60)), c1, comps,
                      coverage=not quick)
    vals2 = [0, 1, 3]
    n2 = 4 if quick else 5
    d2 = rng.sample(km.datasets(n2, 2, vals2), 25 if quick else 40)
    c2 = rng.sample(km.initsets(3, 2, vals2), 6 if quick else 8)
    comps2 = [c for c in km.compositions(n2) if len(c) <= (2 if quick else 3)]
    recs += model_run(ck, "stats-2d-k3", n2, 2, 3, d2, c2, comps2, coverage=not quick)
    ck.exhaustive = True
    if len(recs) > (170 if quick else 400):
        recs = rng.sample(recs, 170 if quick else 400)
    for rec in recs:
        replay(ck, em, rec, rng)
    stored_narrow(ck, em, rng, 12 if quick else 80)


def replay(ck, em, rec, rng):
    import dask
    import dask.array as da
    K = len(rec["cent"])
    data = np.array(rec["data"], dtype=float)
    cent = np.array(rec["cent"], dtype=float)
    exp_d = np.array([[float(fr(x)) for x in row] for row in rec["dists"]])
    exp_l = np.array(rec["labels"]) - 1
    exp_w = np.array([float(fr(x)) for x in rec["weights"]])
    free = np.array([[x == [0, 0] for x in row] for row in rec["variances"]])
    exp_v = np.array([[0.0 if x == [0, 0] else float(fr(x)) for x in row] for row in rec["variances"]])
    comp = tuple(rec["comp"])
    for S, B in PLACEMENTS:
        ck.replayed += 1
        ck.seen([rec["data"], rec["cent"], rec["comp"], S, B])
        X = data * S + B
        C = cent * S + B
        S2 = S * S
        scn = {"data": rec["data"], "cent": rec["cent"], "comp": rec["comp"], "unit_scale": S, "offset": B}

        def bad(clause, detail):
            ck.violation("M2:KMeansStats:" + clause, {"mechanism": "M2", "module": "KMeansStats", "scenario": scn,
                                                      "detail": detail})
        m = em.KMeansMachine(K)
        m.centroids_ = C.copy()
        # transform / predict
        d = np.asarray(m.transform(X)) / S2
        if d.shape != exp_d.shape or not allclose(d, exp_d) or np.any(d < 0):
            bad("DistancesAreSquaredEuclidean", "transform(batch): expected %s, observed %s" % (exp_d.tolist(), d.tolist()))
            continue
        if not np.array_equal(np.asarray(m.predict(X)), exp_l):
            bad("LabelIsNearest", "predict(batch): expected %s, observed %s" % (exp_l.tolist(), np.asarray(m.predict(X)).tolist()))
            continue
        i = rng.randrange(len(X))
        d1 = np.asarray(m.transform(X[i])) / S2
        if d1.shape != (K, 1) or not allclose(d1[:, 0], exp_d[:, i]):
            bad("DistancesAreSquaredEuclidean", "transform(single sample %d): expected %s, observed %s" % (i, exp_d[:, i].tolist(), d1.tolist()))
            continue
        p1 = np.asarray(m.predict(X[i]))
        if p1.tolist() != [exp_l[i]]:
            bad("LabelIsNearest", "predict(single sample %d): expected %s, observed %s" % (i, exp_l[i], p1.tolist()))
            continue
        with dask.config.set(scheduler="synchronous"):
            Xd = da.from_array(X, chunks=(comp, X.shape[1]))
            # (asked lazily; evaluated after the machine was given other centroids, which are then put back: the
            # answer is that of the centroids the machine had when asked)
            lazy_d, lazy_p = m.transform(Xd), m.predict(Xd)
            m.centroids_ = C[::-1] * 1.5 + S
            dd = np.asarray(dask.compute(lazy_d)[0]) / S2
            pd = np.asarray(dask.compute(lazy_p)[0])
            m.centroids_ = C.copy()
            # two machines asked about the same samples, their lazy answers evaluated in ONE graph
            m2 = em.KMeansMachine(K)
            m2.centroids_ = C[::-1].copy() * 1.25 + 0.5 * S
            j1, j2, q1, q2 = dask.compute(m.transform(Xd), m2.transform(Xd), m.predict(Xd), m2.predict(Xd))
            e2 = np.asarray(m2.transform(X))
            if not (allclose(np.asarray(j1) / S2, exp_d) and allclose(np.asarray(j2) / S2, e2 / S2) and np.array_equal(np.asarray(q1), exp_l)
                    and np.array_equal(np.asarray(q2), np.asarray(m2.predict(X)))):
                bad("DistancesAreSquaredEuclidean", "two machines on the same Dask samples computed in one graph: the second reports %s, "
                    "alone it reports %s" % ((np.asarray(j2) / S2).tolist(), (e2 / S2).tolist()))
                continue
        if dd.shape != exp_d.shape or not allclose(dd, exp_d):
            bad("DistancesAreSquaredEuclidean", "transform(dask %s): expected %s, observed %s" % (comp, exp_d.tolist(), dd.tolist()))
            continue
        if not np.array_equal(pd, exp_l):
            bad("LabelIsNearest", "predict(dask %s): expected %s, observed %s" % (comp, exp_l.tolist(), pd.tolist()))
            continue
        # the same samples stored in single precision (when they are exactly representable): the centroids stay double
        # precision values and the distances are those of the same points
        X32 = X.astype(np.float32)
        if np.array_equal(X32.astype(float), X):
            with dask.config.set(scheduler="synchronous"):
                Xd32 = da.from_array(X32, chunks=(comp, X.shape[1]))
                got = {"NumPy float32 batch": (np.asarray(m.transform(X32)) / S2, np.asarray(m.predict(X32))),
                       "Dask float32 array %s" % (comp,): (np.asarray(m.transform(Xd32).compute()) / S2, np.asarray(dask.compute(m.predict(Xd32))[0])),
                       "one float32 sample as a Dask array": (np.asarray(m.transform(da.from_array(X32[i], chunks=(X.shape[1],))).compute()) / S2, None)}
            stop = False
            for how, (dg, pg) in got.items():
                want = exp_d if pg is not None else exp_d[:, [i]]
                if dg.shape != want.shape or not allclose(dg, want):
                    bad("DistancesAreSquaredEuclidean", "transform(%s): expected %s, observed %s" % (how, want.tolist(), dg.tolist()))
                    stop = True
                    break
                if pg is not None and not np.array_equal(pg, exp_l):
                    bad("LabelIsNearest", "predict(%s): expected %s, observed %s" % (how, exp_l.tolist(), pg.tolist()))
                    stop = True
                    break
            if stop:
                continue
        # variances / weights, NumPy and chunked Dask (both memory modes, random task order)
        ok = True
        for mode in ("numpy", "dask-shared", "dask-isolated"):
            if mode == "numpy":
                v, w = m.get_variances_and_weights_for_each_cluster(X)
            else:
                sch = ReplayScheduler(rng=random.Random(rng.randrange(10 ** 6)), isolate=(mode == "dask-isolated"))
                with dask.config.set(scheduler=sch):
                    v, w = m.get_variances_and_weights_for_each_cluster(da.from_array(X, chunks=(comp, X.shape[1])))
            v, w = np.asarray(v, dtype=float) / S2, np.asarray(w, dtype=float)
            if w.shape != exp_w.shape or not allclose(w, exp_w) or abs(w.sum() - 1) > 1e-9:
                bad("WeightsAreFractions", "%s: expected weights %s, observed %s" % (mode, exp_w.tolist(), w.tolist()))
                ok = False
                break
            vv = np.where(free, 0.0, v)
            if v.shape != exp_v.shape or not allclose(vv, exp_v) or np.any(vv < -1e-12):
                bad("VarIsBiasedVar", "%s: expected variances %s, observed %s" % (mode, exp_v.tolist(), v.tolist()))
                ok = False
                break
        if not ok:
            continue
        # hand-over to a GMM
        if not free.any():
            g = em.GMMMachine(K, k_means_trainer=em.KMeansMachine(K, init_method=C.copy(), max_iter=0), max_fitting_steps=0)
            g.fit(X)
            eps = np.finfo(float).eps
            if not (allclose((np.asarray(g.means) - B) / S, cent, 1e-9 if B else 1e-12) and allclose(np.asarray(g.weights), exp_w)
                    and allclose(np.asarray(g.variances) / S2, np.maximum(exp_v, eps / S2))):
                bad("HandOverExact", "GMM initialised from k-means: means %s variances %s weights %s; expected %s %s %s"
                    % (np.asarray(g.means).tolist(), np.asarray(g.variances).tolist(), np.asarray(g.weights).tolist(),
                       C.tolist(), exp_v.tolist(), exp_w.tolist()))
                continue
        ck.sample({"mechanism": "M2", "scenario": scn, "expected": {"labels": exp_l.tolist(), "weights": exp_w.tolist(),
                                                                    "variances": exp_v.tolist()}, "verdict": "ok"})
    # ---- clusters moved far apart from EACH OTHER: every sample is translated together with its own centroid
    # (by k * 1e8 for cluster k).  Labels, weights and per-cluster variances are those of the scenario (within-cluster
    # translation invariance; the nearest centroid stays the own one because the clusters only move apart).
    if not free.any():
        ck.replayed += 1
        ck.seen([rec["data"], rec["cent"], rec["comp"], "clusters apart"])
        shift = np.zeros_like(cent)
        shift[:, 0] = np.arange(K) * 1e8
        Xs = data + shift[exp_l]
        Cs = cent + shift
        scn = {"data": rec["data"], "cent": rec["cent"], "comp": rec["comp"], "placement": "cluster k translated by k*1e8"}
        ms = em.KMeansMachine(K)
        ms.centroids_ = Cs.copy()
        if not np.array_equal(np.asarray(ms.predict(Xs)), exp_l):
            ck.violation("M2:KMeansStats:LabelIsNearest", {"mechanism": "M2", "module": "KMeansStats", "scenario": scn,
                                                           "detail": "labels %s, expected %s" % (np.asarray(ms.predict(Xs)).tolist(), exp_l.tolist())})
            return
        for mode in ("numpy", "dask"):
            if mode == "numpy":
                v, w = ms.get_variances_and_weights_for_each_cluster(Xs)
            else:
                with dask.config.set(scheduler="synchronous"):
                    v, w = ms.get_variances_and_weights_for_each_cluster(da.from_array(Xs, chunks=(comp, Xs.shape[1])))
            v, w = np.asarray(v, dtype=float), np.asarray(w, dtype=float)
            if not (allclose(w, exp_w) and allclose(v, exp_v, 1e-6) and np.all(v >= -1e-9)):
                ck.violation("M2:KMeansStats:VarIsBiasedVar", {"mechanism": "M2", "module": "KMeansStats", "scenario": scn,
                                                               "detail": "%s: variances %s weights %s, expected %s %s"
                                                               % (mode, v.tolist(), w.tolist(), exp_v.tolist(), exp_w.tolist())})
                return


def stored_narrow(ck, em, rng, count):
    """KMeansStats.DistancesAreSquaredEuclidean / LabelIsNearest with samples STORED in a narrow type (float32, int16,
    uint8) far from the origin and double-precision centroids that no narrow type can hold: the reference is the
    definition sum_j (x_j - c_j)^2 evaluated in double precision on the very numbers stored."""
    import dask
    import dask.array as da
    for i in range(count):
        seed = rng.randrange(10 ** 6)
        r = np.random.RandomState(seed)
        K, D, n = int(r.randint(1, 7)), int(r.randint(1, 4)), int(r.randint(6, 40))
        dtype = ["float32", "float32", "int16", "uint8"][i % 4]
        off = {"float32": float(r.choice([0.0, 1e4, -3e4])), "int16": float(r.choice([0.0, 9000.0])), "uint8": 120.0}[dtype]
        spread = 2.0 if dtype == "float32" else 25.0
        cent = off + r.normal(size=(K, D)) * spread + r.uniform(-1e-4, 1e-4, size=(K, D))
        X = (cent[r.randint(0, K, size=n)] + r.normal(size=(n, D)) * spread * 0.6).astype(dtype)
        ref = ((X.astype(np.float64)[None, :, :] - cent[:, None, :]) ** 2).sum(-1)        # (K, n)
        srt = np.sort(ref, axis=0)
        decisive = (srt[1] - srt[0]) > 1e-6 * np.maximum(1.0, srt[1]) if K > 1 else np.ones(n, bool)
        lab = ref.argmin(axis=0)
        m = em.KMeansMachine(K)
        m.centroids_ = cent.copy()
        cuts = sorted(set(r.randint(1, n, size=r.randint(1, 4)).tolist()))
        comp = tuple(int(v) for v in np.diff([0] + cuts + [n]))
        scn = {"seed": seed, "stored_as": dtype, "offset": off, "K": K, "D": D, "n": n, "row_chunks": list(comp)}
        ck.replayed += 1
        ck.seen(["narrow", seed, dtype])

        def close(a, b):
            return a.shape == b.shape and np.all(np.isfinite(a)) and np.all(np.abs(a - b) <= 1e-9 * np.maximum(1.0, np.abs(b)))
        j = int(r.randint(0, n))
        with dask.config.set(scheduler="synchronous"):
            Xd = da.from_array(X, chunks=(comp, D))
            forms = [("NumPy batch", np.asarray(m.transform(X), dtype=float), np.asarray(m.predict(X)), ref, lab, decisive),
                     ("Dask array", np.asarray(m.transform(Xd).compute(), dtype=float), np.asarray(dask.compute(m.predict(Xd))[0]), ref, lab, decisive),
                     ("one sample", np.asarray(m.transform(X[j]), dtype=float), np.asarray(m.predict(X[j])), ref[:, [j]], lab[[j]], decisive[[j]]),
                     ("one sample as a Dask array", np.asarray(m.transform(da.from_array(X[j], chunks=(D,))).compute(), dtype=float),
                      None, ref[:, [j]], None, None)]
        ok = True
        for how, d, p, rd, rl, dec in forms:
            if not close(d, rd):
                ck.violation("M2:KMeansStats:DistancesAreSquaredEuclidean", {"mechanism": "M2", "module": "KMeansStats", "scenario": scn,
                             "detail": "transform(%s of %s samples): largest relative error %.3e" % (
                                 how, dtype, float(np.max(np.abs(d - rd) / np.maximum(1.0, np.abs(rd)))) if d.shape == rd.shape else float("inf")),
                             "centroids": cent.tolist(), "samples": X.tolist()})
                ok = False
                break
            if p is not None and not np.array_equal(np.asarray(p).ravel()[dec], rl[dec]):
                ck.violation("M2:KMeansStats:LabelIsNearest", {"mechanism": "M2", "module": "KMeansStats", "scenario": scn,
                             "detail": "predict(%s of %s samples): %s, nearest centroids %s" % (how, dtype, np.asarray(p).tolist(), rl.tolist()),
                             "centroids": cent.tolist(), "samples": X.tolist()})
                ok = False
                break
        if ok:
            ck.sample({"mechanism": "M2", "stored_narrow": scn, "verdict": "ok"}, limit=3)
