"""C07 - ISV and JFA enrolment climbs to the joint posterior mode of the latent factors.

M1  specs/FaLatent.tla (exact rationals, rank 1, C in 1..2 components, one feature, 1..2 sessions with
    fractional counts), inductive one-step form: from EVERY latent state (y, x, z) over the small
    rationals each of UpdY / UpdX / UpdZ lands where the gradient of the joint log-posterior J in that
    block vanishes (BlockIsArgmax, block precisions positive), J never decreases along a block update
    (JNonDecreasing, action property), the updates do not depend on an affine change of the feature
    scale (AffineInvariant); EnrollIter (Y -> X -> Z from zero; ISV: X -> Z) is block-wise and does not
    decrease J where J' stays within 32 bits.  The deviating variant JFA_FN_Y_MINUS_DZ (speaker-factor
    residual centred on m - D z) must be refuted by TLC.
M2  every exported edge is replayed through the public update_y / compute_latent_x / update_z called
    with the model's current latent state the way `enroll` calls them, and every exported EnrollIter
    through ISVMachine.enroll / JFAMachine.enroll with enroll_iterations = 1.
M3  seeded real-valued machines (ranks 1..3, C 1..3, D 1..3) and 1..4 statistics with fractional counts:
    enroll with enroll_iterations = 1..K, J by an independent NumPy evaluation, rank traces validated by
    TLC against specs/TraceLoop.tla (direction up); J_K <= J(mode) for every K and the gap to the mode
    (dense solve of grad J = 0 in the harness) at K = 400 at most 1e-6 of the gap at K = 1."""
import collections
import random
from fractions import Fraction as F

import numpy as np

from .. import falatent_model as fm
from .. import tlc, traces
from ..common import relayout, pin_repo

SHAPES = [(1, 1, True), (1, 1, False), (1, 2, True), (1, 2, False), (2, 1, True), (2, 1, False), (2, 2, False),
          (2, 2, True)]
# number of configurations per shape: seeded sample for the step run, fixed lists for the J run and the
# enrolment run (validated to stay within 32 bits), seeded sample exported for the replay
SIZES = {
    "quick": {"step": [30, 15, 8, 15, 6, 10, 4, 1], "J": [40, 20, 6, 15, 5, 8, 3, 1],
              "enroll": [500, 250, 150, 250, 150, 250, 150, 100], "export": [6, 4, 2, 4, 2, 3, 2, 1]},
    "thorough": {"step": [400, 200, 120, 150, 60, 100, 40, 12], "J": [300, 150, 60, 100, 30, 50, 20, 6],
                 "enroll": [2916, 972, 2000, 3000, 2000, 3000, 2000, 2000], "export": [40, 20, 12, 20, 8, 12, 6, 2]},
}
# shapes on which J after the three chained updates of EnrollIter stays within 32 bits (established by running
# the complete configuration space of each: 2916 + 972 + 11664 configurations)
ENROLL_J_SHAPES = {(1, 1, True), (1, 1, False), (1, 2, False)}
LAT_EXPORT_QUICK = [F(-1), F(0), F(1, 2), F(2)]
MAX_REPORTED = 4      # replay files kept per clause


def run(ck):
    em = pin_repo()
    rng = random.Random(ck.seed)
    quick = ck.tier == "quick"
    ck.assumptions += [
        "exact model bounded to rank 1 (r_U = 1, r_V in {none, 1}), C <= 2 components, one feature, <= 2 sessions, "
        "values from small sets of integers and halves; larger shapes only through rank traces (M3)",
        "inductive one-step form: the step properties are checked from every latent state over "
        "{-1,-1/2,0,1/2,1,2}, which covers every iteration count without iterating exact rationals",
        "J along a block update / along EnrollIter is compared on fixed configuration lists validated to stay "
        "within TLC's 32-bit integers (an overflow is a machinery failure, never a verdict)",
        "float comparison |obs-exp| <= 1e-8 max(1,|exp|) against exact rationals",
        "the channel factors are not returned by enroll: x_K is obtained from the public compute_latent_x at "
        "(y_K, z_{K-1}), which is what the K-th iteration computes",
        "trusted base of M3: the NumPy evaluation of J and the dense solve of grad J = 0 (self-checked against "
        "finite differences and perturbations at the start of every run)"]
    if getattr(ck, "replay_case", None):
        return replay_case(ck, em)
    sizes = SIZES[ck.tier]
    cov = not quick

    # ---------------- M1
    step = [fm.random_config(rng, C, H, j) for (C, H, j), n in zip(SHAPES, sizes["step"]) for _ in range(n)]
    # (the large runs go without -coverage: it switches off TLC's caching of LET definitions, which the
    # rational arithmetic lives on - 20 times slower; per-action counts come from a small run of their own)
    fm.model_run(ck, "steps", step, invariants=["PrecisionPositive", "BlockIsArgmax"],
                 properties=["AffineInvariant"])
    jl = [k for (C, H, j), n in zip(SHAPES, sizes["J"]) for k in fm.fixed_configs(C, H, j, n)]
    fm.model_run(ck, "steps-J", jl, invariants=["PrecisionPositive", "BlockIsArgmax"], properties=["JNonDecreasing"])
    en = [k for (C, H, j), n in zip(SHAPES, sizes["enroll"])
          for k in fm.fixed_configs(C, H, j, n, enroll="J" if (C, H, j) in ENROLL_J_SHAPES else "yes", salt=11)]
    r_en = fm.model_run(ck, "enroll-from-zero", en, lat=[F(0)], invariants=["PrecisionPositive", "EnrollIsBlockwise"],
                        properties=["JNonDecreasingEnroll"], export=True)
    # the deviating variant must be refuted, by the stationarity clause and by the ascent clause
    dv = fm.fixed_configs(1, 1, True, 12, salt=3) + fm.fixed_configs(2, 1, True, 2, salt=3)
    fm.model_run(ck, "deviation:%s:BlockIsArgmax" % fm.DEVIATION, dv, dev=[fm.DEVIATION], invariants=["BlockIsArgmax"],
                 properties=[], expect_violation=True)
    fm.model_run(ck, "deviation:%s:JNonDecreasing" % fm.DEVIATION, dv, dev=[fm.DEVIATION], invariants=[],
                 properties=["JNonDecreasing"], expect_violation=True)
    if cov:
        fm.model_run(ck, "action-coverage", fm.fixed_configs(1, 1, True, 6, enroll="J", salt=3)
                     + fm.fixed_configs(1, 2, False, 6, enroll="J", salt=3),
                     invariants=["PrecisionPositive", "BlockIsArgmax", "EnrollIsBlockwise"],
                     properties=["JNonDecreasing", "JNonDecreasingEnroll", "AffineInvariant"], coverage=True)
    # edges for the replay: a seeded part of the step run's configurations
    ex, i = [], 0
    for n_step, n_ex in zip(sizes["step"], sizes["export"]):
        ex += step[i:i + min(n_ex, n_step)]
        i += n_step
    r_ex = fm.model_run(ck, "export", ex, lat=LAT_EXPORT_QUICK if quick else fm.LAT_VALS, invariants=[], properties=[],
                        export=True)
    ck.exhaustive = True

    # ---------------- M2
    edges = [e for e in r_ex.records if e["act"] != "EnrollIter"]
    enrolls = [e for e in r_en.records if e["act"] == "EnrollIter"]
    if quick:
        edges = rng.sample(edges, min(len(edges), 6000))
        enrolls = rng.sample(enrolls, min(len(enrolls), 1200))
    outcomes = collections.Counter()
    reported = collections.Counter()
    for rec in edges + enrolls:
        verdict, detail = fm.replay_edge(em, rec)
        ck.replayed += 1
        ck.seen([rec["cfg"], rec["act"], rec["pre"]])
        kind = "jfa" if rec["cfg"]["jfa"] else "isv"
        outcomes["%s:%s:%s" % (kind, rec["act"], "ok" if verdict == "ok" else "mismatch")] += 1
        if verdict == "ok":
            if rec["act"] in ("UpdY", "EnrollIter") or len(ck.samples) < 2:
                ck.sample({"mechanism": "M2", "edge": rec, "verdict": "ok"}, limit=5)
            continue
        clause = "M2:FaLatent:" + rec["act"]
        reported[clause] += 1
        if reported[clause] > MAX_REPORTED:
            continue
        rep = {"mechanism": "M2", "module": "FaLatent", "machine": "JFAMachine" if rec["cfg"]["jfa"] else "ISVMachine",
               "edge": rec, "mismatch": verdict, "detail": detail}
        if detail.get("matches_deviation"):
            ck.finding("D5", clause, rep)
        else:
            ck.violation(clause, rep)
    ck.extra["m2_outcomes"] = dict(outcomes)
    ck.extra["m2_mismatches"] = dict(reported)

    # ---------------- M3
    m3(ck, em, rng, 24 if quick else 150, 6 if quick else 8)


# ------------------------------------------------------------------ M3
K_BIG = 400


def problem(em, seed):
    """A seeded real-valued machine and its enrolment statistics; returns (machine, stats, Problem, meta)."""
    r = np.random.RandomState(seed)
    jfa = bool(r.randint(0, 2))
    C, dim, H = int(r.randint(1, 4)), int(r.randint(1, 4)), int(r.randint(1, 5))
    rU = int(r.randint(1, 4))
    rV = int(r.randint(1, 4)) if jfa else None
    means = r.normal(size=(C, dim)) * 2
    var = r.uniform(0.5, 2.0, size=(C, dim))
    U = r.normal(size=(C * dim, rU))
    V = r.normal(size=(C * dim, rV)) if jfa else None
    D = r.uniform(0.05, 1.5, size=C * dim) if r.rand() < 0.7 else r.normal(size=C * dim) * 0.8
    N = np.array([[float(r.choice([0.5, 1.0, 2.0])) if r.rand() < 0.5 else float(r.uniform(0.1, 6.0)) for _ in range(C)]
                  for _ in range(H)])
    if C > 1 and r.rand() < 0.15:
        N[r.randint(0, H), r.randint(0, C)] = 0.0        # a component without frames in one session
    Fs = N[:, :, None] * (means[None] + r.normal(size=(H, C, dim)) * 1.5)
    ubm = em.GMMMachine(C)
    ubm.means, ubm.variances, ubm.weights = means.copy(), var.copy(), np.full(C, 1.0 / C)
    if jfa:
        mach = em.JFAMachine(r_U=rU, r_V=rV, ubm=ubm)
        mach.V = V.copy()
    else:
        mach = em.ISVMachine(r_U=rU, ubm=ubm)
    mach.U, mach.D = U.copy(), D.copy()
    stats = []
    for h in range(H):
        st = em.GMMStats(C, dim)
        st.n, st.sum_px, st.sum_pxx, st.t = N[h].copy(), relayout(Fs[h], r), np.zeros((C, dim)), 1
        stats.append(st)
    history = bool(r.rand() < 0.35)
    if history:
        # the same object has already enrolled a client and has then been trained further: whatever it keeps
        # from before must not show in the next enrolment (the problem is posed with its CURRENT U, V, D)
        mach.enroll_iterations = 2
        mach.enroll(stats)
        train, ytrain = [], []
        for cls in range(2):
            for _ in range(2):
                st = em.GMMStats(C, dim)
                nn = r.uniform(0.5, 5.0, size=C)
                st.n, st.sum_px, st.sum_pxx, st.t = nn, nn[:, None] * (means + r.normal(size=(C, dim)) * 1.5), np.zeros((C, dim)), 1
                train.append(st)
                ytrain.append(cls)
        mach.em_iterations = 1
        mach.fit(train, ytrain)
        U = np.array(mach.U, dtype=float)
        D = np.array(mach.D, dtype=float)
        if jfa:
            V = np.array(mach.V, dtype=float)
    P = fm.Problem(means, var, U, V, D, N, Fs)
    meta = {"seed": seed, "machine": "JFAMachine" if jfa else "ISVMachine", "history": "enroll, fit, enroll" if history else "fresh",
            "C": C, "D": dim, "sessions": H, "r_U": rU,
            "r_V": rV, "ubm_means": means.tolist(), "ubm_variances": var.tolist(), "U": U.tolist(),
            "V": None if V is None else V.tolist(), "Dvec": D.tolist(), "n": N.tolist(), "sum_px": Fs.tolist()}
    return mach, stats, P, meta


def enrolled_state(mach, stats, P, k, z_prev):
    """(y_k, x_k, z_k) after enroll with enroll_iterations = k; z_prev = z_{k-1} (zero for k = 1)."""
    mach.enroll_iterations = k
    out = mach.enroll(stats)
    if P.rV:
        y, z = np.asarray(out[0], dtype=float).reshape(-1), np.asarray(out[1], dtype=float).reshape(-1)
    else:
        y, z = np.zeros(0), np.asarray(out, dtype=float).reshape(-1)
    labels = list(np.zeros(len(stats), dtype=np.int32))
    lx = mach.compute_latent_x(X=stats, y=labels, n_classes=1, UProd=fm.subspace_prod(mach, mach.U),
                               latent_y=y.reshape(1, -1) if P.rV else None, latent_z=z_prev.reshape(1, -1))
    x = np.asarray(lx[0], dtype=float).T            # (sessions, r_U)
    return y, x, z


def record(em, seed, K):
    """Two traces of one seeded problem: the ranks of J over enroll_iterations = 1..K, and the convergence
    fact at K_BIG iterations."""
    mach, stats, P, meta = problem(em, seed)
    if seed % 2:
        # a machine with a past: it has enrolled these very statistics OBJECTS before, when they held other counts
        # (the caller accumulated more frames into them since): nothing of that may survive
        saved = [(np.array(st.n), np.array(st.sum_px), np.array(st.sum_pxx), st.t) for st in stats]
        for st in stats:
            st.n = np.asarray(st.n) * 0.37 + 0.05
            st.sum_px = np.asarray(st.sum_px) * 0.37
            st.sum_pxx = np.asarray(st.sum_pxx) * 0.37
        mach.enroll_iterations = 2
        mach.enroll(stats)
        for st, (n0, f0, s0, t0) in zip(stats, saved):
            st.n, st.sum_px, st.sum_pxx, st.t = n0, f0, s0, t0
        meta["machine_enrolled_the_same_objects_before"] = True
    (my, mx, mz), _, _ = P.mode()
    jmode = P.J(my, mx, mz)
    tol = 1e-9 * max(1.0, abs(jmode))
    Js, z_prev = [], np.zeros(P.CD)
    for k in range(1, K + 1):
        y, x, z = enrolled_state(mach, stats, P, k, z_prev)
        Js.append(P.J(y, x, z))
        z_prev = z
    rk = traces.ranks([0.0] + Js)       # J(0, 0, 0) = 0 is the value before the first iteration
    ev = []
    for k in range(1, K + 1):
        ok = bool(np.isfinite(Js[k - 1]) and Js[k - 1] <= jmode + tol and (k > 1 or rk[1] >= rk[0]))
        ev.append({"ev": "Iter", "k": k, "rank": rk[k], "rel": "na", "guard": False, "valid": ok, "why": ""})
    ev.append({"ev": "Stop", "k": K, "rank": 0, "rel": "na", "guard": False, "valid": True, "why": ""})
    t_rank = {"kind": "enrol-J", "cap": K, "thr": False, "dir": "up", "ev": ev}
    # convergence: gap to the mode after K_BIG iterations against the gap after one
    rho = P.contraction()
    predicted = rho ** (2 * (K_BIG - 1))
    _, _, z399 = enrolled_state(mach, stats, P, K_BIG - 1, np.zeros(P.CD))
    y, x, z = enrolled_state(mach, stats, P, K_BIG, z399)
    jbig = P.J(y, x, z)
    gap1, gapbig = jmode - Js[0], jmode - jbig
    demanded = predicted <= 1e-8          # the exact alternating maximisation itself contracts fast enough
    conv = bool(np.isfinite(jbig) and jbig <= jmode + tol
                and (not demanded or gapbig <= max(1e-6 * gap1, 1e-10 * max(1.0, abs(jmode)))))
    t_conv = {"kind": "enrol-converges", "cap": 1, "thr": False, "dir": "up",
              "ev": [{"ev": "Iter", "k": 1, "rank": 0, "rel": "na", "guard": False, "valid": conv, "why": ""},
                     {"ev": "Stop", "k": 1, "rank": 0, "rel": "na", "guard": False, "valid": True, "why": ""}]}
    meta.update({"J": Js, "J_mode": jmode, "J_%d" % K_BIG: jbig, "gap_1": gap1, "gap_%d" % K_BIG: gapbig,
                 "gauss_seidel_radius": rho, "convergence_demanded": demanded,
                 "mode": {"y": my.tolist(), "x": mx.tolist(), "z": mz.tolist()},
                 "returned_%d" % K_BIG: {"y": y.tolist(), "z": z.tolist()}})
    return t_rank, t_conv, meta


def m3(ck, em, rng, nproblems, K):
    err = fm.selfcheck_evaluators(np.random.RandomState(ck.seed))
    if err:
        raise tlc.MachineryError("M3 evaluator self-check failed: " + err)
    trs, metas = [], []
    skipped = 0
    for _ in range(nproblems):
        seed = rng.randrange(10 ** 6)
        t_rank, t_conv, meta = record(em, seed, K)
        skipped += not meta["convergence_demanded"]
        trs += [t_rank, t_conv]
        metas += [meta, meta]
    verdicts = traces.validate(ck, "enrol", ck.work, trs)
    report_traces(ck, trs, metas, verdicts)
    ck.extra["m3_problems"] = nproblems
    ck.extra["m3_convergence_clause_not_demanded"] = skipped


def report_traces(ck, trs, metas, verdicts):
    reported = collections.Counter()
    for tr, me, (v, pos) in zip(trs, metas, verdicts):
        ck.replayed += 1
        ck.seen(["M3", tr["kind"], me["seed"]])
        if v == "ok":
            if tr["kind"] == "enrol-J":
                ck.sample({"mechanism": "M3", "trace": tr["ev"][:3],
                           "meta": {k: me[k] for k in ("seed", "machine", "C", "D", "sessions", "r_U", "r_V", "J", "J_mode")}},
                          limit=8)
            continue
        if tr["kind"] == "enrol-converges":
            clause = "ConvergesToMode"
        elif v == "Valid":
            clause = "BelowModeAndAboveStart"
        else:
            clause = v
        clause = "M3:TraceLoop:%s(%s)" % (clause, me["machine"])
        reported[clause] += 1
        if reported[clause] <= MAX_REPORTED:
            ck.violation(clause, {"mechanism": "M3", "module": "TraceLoop", "trace": tr, "meta": me,
                                  "rejected_at_event": pos})
    ck.extra["m3_rejected"] = dict(reported)


# ------------------------------------------------------------------ --replay
def replay_case(ck, em):
    case = ck.replay_case
    if case.get("mechanism") == "M2":
        verdict, detail = fm.replay_edge(em, case["edge"])
        ck.replayed += 1
        if verdict != "ok":
            ck.violation("M2:FaLatent:" + case["edge"]["act"], {"mechanism": "M2", "module": "FaLatent",
                                                               "edge": case["edge"], "mismatch": verdict, "detail": detail})
    elif case.get("mechanism") == "M3":
        K = case["trace"]["cap"] if case["trace"]["kind"] == "enrol-J" else 6
        t_rank, t_conv, meta = record(em, case["meta"]["seed"], K)
        trs = [t_rank, t_conv]
        report_traces(ck, trs, [meta, meta], traces.validate(ck, "enrol", ck.work, trs))
    else:
        ck.notes.append("replay of an M1 counterexample: run the tier again")
