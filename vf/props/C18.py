"""C18 - saving and loading a GMM or its statistics preserves them exactly.

M1  specs/GmmPersist.tla: RoundTripVisible, RoundTripConfig, AlwaysWritable, MapNeedsUbm,
    RefusedOnlyMapWithoutUbm, SaveLoadSaveStable, LegacyEqCurrent, StatsRoundTrip over every
    configuration (trainer, cap incl. None, threshold incl. None, 8 switch sets) and every sequence
    of save / load operations; the three deviations transcribing the reader/writer before the repair
    must each be refuted by TLC.
M2  one implementation test per edge: real temporary HDF5 files (by path and by open handle),
    constructor-from-file and load-into-existing, ML and MAP machines; bit-identical parameters,
    package equality, identical scores, recorded configuration, identical continued fit; statistics
    containers likewise; the repository's legacy fixture against its current-format counterpart."""
import collections
import copy
import os
import random

import numpy as np

from .. import mc, tlc
from ..common import key, pin_repo

INV = ["RoundTripVisible", "RoundTripConfig", "AlwaysWritable", "RefusedOnlyMapWithoutUbm", "MapNeedsUbm",
       "StatsRoundTrip"]
PROPS = ["SaveLoadSaveStable", "LegacyEqCurrent"]
DEVS = {"HDF5_TRAINER_BYTES": "RoundTripConfig", "HDF5_THRESHOLD_DEFAULTED": "RoundTripConfig",
        "HDF5_NONE_NOT_WRITABLE": "AlwaysWritable"}
CAP = {"None": None, "0": 0, "5": 5, "200": 200}
THR = {"None": None, "1e-5": 1e-5, "0.5": 0.5}


def model_run(ck, name, dev=(), expect_violation=False, export=True, coverage=False):
    text = mc.module("MC_GmmPersist", ["GmmPersist"],
                     {"MC_Dev": mc.Expr("{" + ", ".join('"%s"' % d for d in dev) + "}")})
    cfg = mc.cfg(consts={"Trainers": mc.Expr('{"ml", "map"}'), "Caps": mc.Expr('{"None", "0", "5"}'),
                         "Thrs": mc.Expr('{"None", "1e-5", "0.5"}'), "DefaultThr": "1e-5", "DefaultCap": "200"},
                 subst={"Dev": "MC_Dev"}, invariants=INV, properties=PROPS,
                 action_constraints=["Export"] if export else [])
    r = tlc.run(ck.work, "MC_GmmPersist", cfg, root_text=text, workers=16, coverage=coverage,
                expect_violation=expect_violation)
    ck.account(name, r, expect_violation=expect_violation)
    return r


def h5_content(path):
    import h5py
    out = {}

    def visit(name, obj):
        if isinstance(obj, h5py.Dataset):
            v = obj[()]
            out[name] = v.decode() if isinstance(v, bytes) else np.asarray(v).tolist()
    with h5py.File(path, "r") as h:
        h.visititems(visit)
        out["@attrs"] = {k: (v.decode() if isinstance(v, bytes) else str(v)) for k, v in h.attrs.items()}
    return out


class World:
    """The real objects behind one abstract behaviour."""

    def __init__(self, em, cfg, work, rng, handle):
        self.em, self.work, self.handle = em, work, handle
        r = np.random.RandomState(rng.randrange(2 ** 31))
        C, D = rng.choice([2, 2, 3, 12]), 3       # (legacy files name their groups m_gaussians0 ... m_gaussians11)
        self.C, self.D = C, D
        self.prior = None
        kind = rng.choice(["scalar", "vector", "matrix"])
        fl = {"scalar": 1e-3, "vector": r.uniform(1e-3, 0.2, size=D), "matrix": r.uniform(1e-3, 0.2, size=(C, D))}[kind]
        kw = dict(max_fitting_steps=CAP[cfg["cap"]], convergence_threshold=THR[cfg["thr"]],
                  update_means=cfg["sw"]["um"], update_variances=cfg["sw"]["uv"], update_weights=cfg["sw"]["uw"])
        if cfg["trainer"] == "map":
            self.prior = em.GMMMachine(C)
            self.prior.means = r.normal(size=(C, D))
            self.prior.variances = r.uniform(0.5, 2, size=(C, D))
            pw = r.uniform(0.2, 1, size=C)
            self.prior.weights = pw / pw.sum()
            m = em.GMMMachine(C, trainer="map", ubm=self.prior, **kw)
        else:
            m = em.GMMMachine(C, **kw)
        w = r.uniform(0.2, 1, size=C)
        m.weights = w / w.sum()
        m.means = r.normal(size=(C, D)) * 3
        m.variances = r.uniform(0.3, 3, size=(C, D))
        m.variance_thresholds = fl
        self.obj = m
        self.orig = copy.deepcopy(m)
        self.X = r.normal(size=(40, D)) * 2
        self.rr = r
        self.path = None
        self.loaded_from = None
        self.n = 0
        self.desc = {"floor_kind": kind, "by": "handle" if handle else "path"}

    def newpath(self):
        self.n += 1
        return os.path.join(self.work, "f%d.hdf5" % self.n)

    def opened(self, path, mode):
        import h5py
        return h5py.File(path, mode)

    def apply(self, op, model_to):
        """Returns None if the code did what the model says, else (clause, detail)."""
        em = self.em
        if op in ("Save", "SaveRaises"):
            p = self.newpath()
            try:
                if self.handle:
                    with self.opened(p, "w") as h:
                        self.obj.save(h)
                else:
                    self.obj.save(p)
            except Exception as e:
                if op == "SaveRaises":
                    return None
                return "AlwaysWritable", "save raised %s: %s (max_fitting_steps=%r, convergence_threshold=%r)" % (
                    type(e).__name__, e, self.obj.max_fitting_steps, self.obj.convergence_threshold)
            if op == "SaveRaises":
                return "Model", "the model (with its deviation) says save raises, the code saved"
            prev = self.loaded_from
            self.path = p
            self.loaded_from = None
            if prev is not None:
                # saving the object just read from `prev` must produce an equivalent file
                a, b = h5_content(prev), h5_content(p)
                if a != b:
                    diff = sorted(k for k in set(a) | set(b) if a.get(k) != b.get(k))
                    return "SaveLoadSaveStable", "file written from the reloaded machine differs from the file it was read from in %s" % diff
            return None
        if op == "WriteLegacy":
            import h5py
            p = self.newpath()
            m = self.obj
            fl = np.broadcast_to(np.asarray(m.variance_thresholds, dtype=float), (self.C, self.D))
            with h5py.File(p, "w") as h:
                h["m_n_gaussians"] = np.array([self.C])
                h["m_weights"] = np.asarray(m.weights).reshape(1, -1)
                for i in range(self.C):
                    g = h.create_group("m_gaussians%d" % i)
                    g["m_mean"] = np.asarray(m.means)[i]
                    g["m_variance"] = np.asarray(m.variances)[i]
                    g["m_variance_thresholds"] = fl[i]
            self.path = p
            return None
        if op in ("FromFile", "FromFileNoUbm", "Refused", "LoadInto"):
            ubm = self.prior if op in ("FromFile",) else None
            try:
                if op == "LoadInto":
                    # the receiving object has a life of its own: other settings, other floors (a scalar or an array of
                    # its own shape, above the variances in the file), possibly another number of Gaussians
                    rr = self.rr
                    okw = dict(max_fitting_steps=int(rr.randint(1, 9)), convergence_threshold=float(rr.choice([1e-2, 1e-7])),
                               update_means=bool(rr.randint(0, 2)), update_variances=bool(rr.randint(0, 2)),
                               update_weights=bool(rr.randint(0, 2)))
                    if self.prior is not None:
                        Co = self.C
                        other = em.GMMMachine(Co, trainer="map", ubm=self.prior, **okw)
                    else:
                        Co = self.C + int(rr.randint(0, 2))
                        other = em.GMMMachine(Co, **okw)
                    rf = int(rr.randint(0, 4))
                    if rf == 1:
                        other.variance_thresholds = 5.0
                    elif rf == 2:
                        other.variance_thresholds = rr.uniform(3.5, 6.0, size=(Co, self.D))
                    elif rf == 3:
                        other.variance_thresholds = rr.uniform(3.5, 6.0, size=self.D)
                    other.means = rr.normal(size=(Co, self.D))
                    other.variances = rr.uniform(0.5, 8.0, size=(Co, self.D))
                    self.desc["receiver"] = {"n_gaussians": Co, "floors": ["default", "scalar 5.0", "matrix of its own shape",
                                                                            "per feature"][rf], "settings": okw}
                    if self.handle:
                        with self.opened(self.path, "r") as h:
                            other.load(h)
                    else:
                        other.load(self.path)
                    new = other
                elif self.handle:
                    with self.opened(self.path, "r") as h:
                        new = em.GMMMachine.from_hdf5(h, ubm=ubm)
                else:
                    new = em.GMMMachine.from_hdf5(self.path, ubm=ubm)
            except ValueError as e:
                if op == "Refused":
                    return None
                return "RoundTrip.refused", "%s raised ValueError: %s" % (op, e)
            if op == "Refused":
                return "MapNeedsUbm", "a MAP machine file was loaded without a UBM (trainer of the result: %r)" % (new.trainer,)
            self.obj = new
            import h5py
            with h5py.File(self.path, "r") as h:
                self.loaded_from = self.path if "file_version" in h.attrs else None
            return self.compare(new, model_to["live"])
        raise ValueError(op)

    def compare(self, new, cfg):
        o = self.orig
        for f in ("weights", "means", "variances"):
            a, b = np.asarray(getattr(new, f)), np.asarray(getattr(o, f))
            if a.shape != b.shape or not np.array_equal(a, b):
                return "RoundTripVisible." + f, "saved %s, reloaded %s" % (b.tolist(), a.tolist())
        fa = np.broadcast_to(np.asarray(new.variance_thresholds, dtype=float), (self.C, self.D))
        fb = np.broadcast_to(np.asarray(o.variance_thresholds, dtype=float), (self.C, self.D))
        if not np.array_equal(fa, fb):
            return "RoundTripVisible.variance_thresholds", "saved %s, reloaded %s" % (fb.tolist(), fa.tolist())
        if not (new == o):
            return "RoundTripVisible.equality", "reloaded machine != saved machine under the package's equality"
        la, lb = np.asarray(new.log_likelihood(self.X)), np.asarray(o.log_likelihood(self.X))
        if not np.array_equal(la, lb):
            return "RoundTripVisible.scores", "log-likelihoods differ after reload (max abs diff %g)" % np.max(np.abs(la - lb))
        exp = {"trainer": cfg["trainer"], "max_fitting_steps": CAP[cfg["cap"]], "convergence_threshold": THR[cfg["thr"]],
               "update_means": cfg["sw"]["um"], "update_variances": cfg["sw"]["uv"], "update_weights": cfg["sw"]["uw"]}
        for k, v in exp.items():
            got = getattr(new, k)
            if isinstance(got, bytes):
                got = got.decode()
            if isinstance(got, np.generic):
                got = got.item()
            if got != v or (v is None) != (got is None):
                return "RoundTripConfig." + k, "expected %r, reloaded machine has %r" % (v, getattr(new, k))
        if exp["trainer"] == "map" and new.ubm is None:
            return "RoundTripConfig.ubm", "reloaded MAP machine has no prior"
        # trains identically from then on
        a, b = copy.deepcopy(new), copy.deepcopy(o)
        for mm in (a, b):
            mm.trainer = cfg["trainer"]
            mm.max_fitting_steps, mm.convergence_threshold = exp["max_fitting_steps"], exp["convergence_threshold"]
            mm.update_means, mm.update_variances, mm.update_weights = exp["update_means"], exp["update_variances"], exp["update_weights"]
        a = copy.deepcopy(new)      # the reloaded machine exactly as it is
        if a.max_fitting_steps is None and (a.convergence_threshold is None or a.convergence_threshold < 1e-3):
            a.max_fitting_steps = b.max_fitting_steps = 3     # keep the continued fit short; same for both
            if a.convergence_threshold is None:
                b.convergence_threshold = None
        a.fit(self.X)
        b.fit(self.X)
        for f in ("weights", "means", "variances"):
            if not np.array_equal(np.asarray(getattr(a, f)), np.asarray(getattr(b, f))):
                return "RoundTripConfig.continued_fit", ("a further fit() of the reloaded machine differs from the same fit of "
                                                         "the saved machine in %s" % f)
        return None


def run(ck):
    em = pin_repo()
    rng = random.Random(ck.seed)
    quick = ck.tier == "quick"
    ck.assumptions += ["machines are abstracted to (visible-parameter tag, trainer, cap, threshold, switches); bit-exact "
                       "round trip of the arrays is checked on the real objects with seeded random values",
                       "legacy files are written by the harness in the legacy layout read by from_hdf5, plus the "
                       "repository's own fixture pair"]
    r = model_run(ck, "persist", coverage=not quick)
    ck.exhaustive = True
    for d, inv in DEVS.items():
        model_run(ck, "deviation:" + d, dev=[d], expect_violation=True, export=False)
    # machine edges, ignoring the statistics component
    out = collections.defaultdict(dict)
    inits = {}
    for e in r.records:
        if e["o"].startswith("Stats"):
            continue
        f = {"m": e["f"], "orig": e["orig"]}
        out[key(f)][e["o"]] = e
        if e["f"]["file"]["fmt"] == "none":
            inits[key(f)] = f
    # BFS paths from each initial state
    paths = {}
    q = collections.deque()
    for k in inits:
        paths[k] = []
        q.append(k)
    nxt_orig = {}
    while q:
        k = q.popleft()
        for o, e in out.get(k, {}).items():
            # the orig after the step is found from any edge leaving the target; approximate by same orig unless legacy load
            t_candidates = [kk for kk in out if out[kk] and next(iter(out[kk].values()))["f"] == e["t"]]
            for kt in t_candidates:
                if kt not in paths:
                    # keep only targets consistent with this step (orig unchanged, or re-originated by a legacy load)
                    to = next(iter(out[kt].values()))["orig"]
                    if to == e["orig"] or (e["f"]["file"]["fmt"] == "legacy" and o in ("FromFile", "FromFileNoUbm", "LoadInto")):
                        paths[kt] = paths[k] + [(o, e)]
                        q.append(kt)
    tests = []
    for k, ops in paths.items():
        for o, e in out.get(k, {}).items():
            tests.append((ops, o, e))
    tests.sort(key=lambda t: key([[x[0] for x in t[0]], t[1], t[2]["f"], t[2]["orig"]]))
    if quick and len(tests) > 450:
        tests = rng.sample(tests, 450)
    for ops, o, e in tests:
        start = ops[0][1]["f"]["live"] if ops else e["f"]["live"]
        wd = World(em, start, ck.work, rng, handle=rng.random() < 0.4)
        bad = None
        for (po, pe) in ops:
            bad = wd.apply(po, pe["t"])
            if bad:
                break
        names = [x[0] for x in ops] + [o]
        if bad is None:
            bad = wd.apply(o, e["t"])
        ck.replayed += 1
        ck.seen([start, names])
        if bad:
            ck.violation("M2:GmmPersist:" + bad[0], {"mechanism": "M2", "module": "GmmPersist", "machine": start,
                                                     "operations": names, "concretisation": wd.desc, "detail": bad[1]})
        else:
            ck.sample({"mechanism": "M2", "machine": start, "operations": names, "verdict": "ok"})
    # longer histories: seeded random walks over the state graph (any number of round trips)
    edge_of = {}
    for k, d in out.items():
        for o, e in d.items():
            edge_of[(key(e["f"]), key(e["orig"]), o)] = e
    starts = sorted(inits.values(), key=key)
    for w in range(120 if quick else 1500):
        st = rng.choice(starts)
        cur, orig = st["m"], st["orig"]
        wd = World(em, cur["live"], ck.work, rng, handle=rng.random() < 0.4)
        names, bad = [], None
        for step in range(6):
            opts = [o for (kf, ko, o) in edge_of if kf == key(cur) and ko == key(orig)] if False else \
                [o for o in ("Save", "SaveRaises", "FromFile", "FromFileNoUbm", "Refused", "LoadInto", "WriteLegacy")
                 if (key(cur), key(orig), o) in edge_of]
            if not opts:
                break
            # prefer alternating saves and loads
            o = rng.choice(opts)
            e = edge_of[(key(cur), key(orig), o)]
            names.append(o)
            bad = wd.apply(o, e["t"])
            if bad:
                break
            legacy_load = e["f"]["file"]["fmt"] == "legacy" and o in ("FromFile", "FromFileNoUbm", "LoadInto")
            cur = e["t"]
            if legacy_load:
                orig = e["t"]["live"]
                wd.orig = copy.deepcopy(wd.obj)
        ck.replayed += 1
        ck.seen(["walk", st["m"]["live"], names])
        if bad:
            ck.violation("M2:GmmPersist:" + bad[0], {"mechanism": "M2", "module": "GmmPersist", "machine": st["m"]["live"],
                                                     "operations": names, "concretisation": wd.desc, "detail": bad[1]})
        else:
            ck.sample({"mechanism": "M2", "machine": st["m"]["live"], "operations": names, "verdict": "ok"}, limit=9)
    stats_replay(ck, em, rng, 20 if quick else 200)
    fixture(ck, em)


def stats_replay(ck, em, rng, n):
    import h5py
    for i in range(n):
        r = np.random.RandomState(rng.randrange(2 ** 31))
        C, D = int(r.randint(1, 4)), int(r.randint(1, 4))
        s = em.GMMStats(C, D)
        s.t = int(r.randint(0, 50))
        s.n = r.uniform(0, 5, size=C)
        s.sum_px = r.normal(size=(C, D)) * 10
        s.sum_pxx = r.uniform(0, 100, size=(C, D))
        s.log_likelihood = float(r.normal() * 100)
        p = os.path.join(ck.work, "s%d.hdf5" % i)
        byh = rng.random() < 0.4
        if byh:
            with h5py.File(p, "w") as h:
                s.save(h)
        else:
            s.save(p)
        loaded = []
        if byh:
            with h5py.File(p, "r") as h:
                loaded.append(("from_hdf5", em.GMMStats.from_hdf5(h)))
        else:
            loaded.append(("from_hdf5", em.GMMStats.from_hdf5(p)))
        other = em.GMMStats(C + 1, D + 2)
        other.n = np.ones(C + 1)
        other.load(p)
        loaded.append(("load into another shape", other))
        same = em.GMMStats(C, D)
        same.load(p)
        loaded.append(("load into same shape", same))
        # the same statistics in the legacy layout the reader still accepts (no file_version attribute; n_inputs,
        # log_liklihood [sic], T, n, sumPx, sumPxx with the arrays stored flat or shaped)
        pl = os.path.join(ck.work, "s%d_legacy.hdf5" % i)
        flat = bool(r.randint(0, 2))
        with h5py.File(pl, "w") as h:
            h["n_gaussians"] = np.int64(C)
            h["n_inputs"] = np.int64(D)
            h["log_liklihood"] = float(s.log_likelihood)
            h["T"] = np.int64(s.t)
            h["n"] = np.asarray(s.n).reshape(1, -1) if flat else np.asarray(s.n)
            h["sumPx"] = np.asarray(s.sum_px).reshape(-1) if flat else np.asarray(s.sum_px)
            h["sumPxx"] = np.asarray(s.sum_pxx).reshape(-1) if flat else np.asarray(s.sum_pxx)
        try:
            loaded.append(("from_hdf5 of a legacy-layout file", em.GMMStats.from_hdf5(pl)))
            lg = em.GMMStats(C + 2, D)
            lg.load(pl)
            loaded.append(("load of a legacy-layout file into another shape", lg))
        except Exception as e:      # noqa: BLE001
            ck.violation("M2:GmmPersist:StatsRoundTrip", {"mechanism": "M2", "module": "GmmPersist", "how": "legacy layout",
                                                          "shape": [C, D], "detail": "reading raised %s: %s" % (type(e).__name__, e)})
        os.remove(pl)
        ck.replayed += 1
        ck.seen(["stats", C, D, i])
        for how, l in loaded:
            ok = (l.t == s.t and float(l.log_likelihood) == float(s.log_likelihood)
                  and all(np.array_equal(np.asarray(getattr(l, f)), np.asarray(getattr(s, f))) and
                          np.asarray(getattr(l, f)).shape == np.asarray(getattr(s, f)).shape for f in ("n", "sum_px", "sum_pxx"))
                  and l.shape == s.shape and l == s)
            if ok:
                p2 = os.path.join(ck.work, "s%d_b.hdf5" % i)
                l.save(p2)
                l2 = em.GMMStats.from_hdf5(p2)
                ok = l2 == s
                os.remove(p2)
            if not ok:
                ck.violation("M2:GmmPersist:StatsRoundTrip", {"mechanism": "M2", "module": "GmmPersist", "how": how,
                                                              "shape": [C, D], "detail": "statistics differ after save / %s" % how})
        os.remove(p)


def fixture(ck, em):
    from ..common import REPO
    a = os.path.join(REPO, "tests", "data", "gmm_ML_legacy.hdf5")
    b = os.path.join(REPO, "tests", "data", "gmm_ML.hdf5")
    if not (os.path.exists(a) and os.path.exists(b)):
        ck.notes.append("legacy fixture pair not found")
        return
    ma, mb = em.GMMMachine.from_hdf5(a), em.GMMMachine.from_hdf5(b)
    ck.replayed += 1
    ck.seen(["fixture"])
    for f in ("weights", "means", "variances"):
        if not np.allclose(np.asarray(getattr(ma, f)), np.asarray(getattr(mb, f)), rtol=1e-12, atol=0):
            ck.violation("M2:GmmPersist:LegacyEqCurrent", {"mechanism": "M2", "module": "GmmPersist",
                                                           "detail": "repository fixture pair differs in " + f})
