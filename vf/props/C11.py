"""C11 - ISV/JFA scores are channel-compensated linear scores, the same through every entry point.

M1  specs/FaScore.tla (exact rationals, channel rank 1, speaker rank none / 1, C <= 2 components, D <= 2 features,
    probes of 1..2 statistics incl. a zero-frame one): a state machine in which EstimateX, EstimateUx, Score (probe as
    a list), ScoreSum (probe as its summed statistic) and Transform (ISV, one array) are called once each in any
    order; XSolvesSystem (x is the stationary point of the channel-factor posterior given the pooled statistics),
    UxIsUTimesX, ScoreIsCompensatedLinearScore (flat declarative formula), ListEqSum, TransformEqEstimateUx, Shapes.
    Five deviating variants (among them ISV_TRANSFORM_NOT_A_LIST, what ISVMachine.transform contains) must each be
    refuted by TLC.
M2  every exported scenario through the real ISVMachine / JFAMachine (UBM, U, V, D, statistics and client factors set
    directly): estimate_x, estimate_ux, score(model, [stats...]), score(model, [sum]) in a seeded order on the same
    objects, compared with TLC's exact values; for one-component scenarios (responsibilities are exactly 1) arrays
    with exactly the model's statistics are built, and ISVMachine.transform(X) / score_using_array(model, [X...]) are
    compared with TLC's values as well.
M3  seeded real-valued machines (ranks 1..3, C 1..3, D 1..3, ISV and JFA): array-level entry points against the
    statistics-level ones (score_using_array, enroll_using_array, ISVMachine.transform, fit_using_array with NumPy
    input), an independent NumPy evaluation of the compensated linear score and of the linear system for x at
    general rank, list = sum.  Each agreement is an event of a fact trace validated by TLC against
    specs/TraceFacts.tla."""
import collections
import random
from fractions import Fraction as F

import numpy as np

from .. import fascore_model as fm
from .. import traces
from ..common import allclose, fr, key, pin_repo

SHAPES = [(1, 1), (2, 1), (1, 2), (2, 2)]
SIZES = {"quick": (20, 16), "thorough": (60, 40)}       # models, probes per shape
MAX_REPORTED = 3
CLAUSE = {"x": "XSolvesSystem", "ux": "UxIsUTimesX", "score": "ScoreIsCompensatedLinearScore", "ssum": "ListEqSum",
          "tr": "TransformEqEstimateUx", "score_arrays": "ArrayEntryEqStatsEntry"}


def run(ck):
    em = pin_repo()
    rng = random.Random(ck.seed)
    quick = ck.tier == "quick"
    ck.assumptions += [
        "exact model bounded to channel rank 1, speaker rank none / 1, C <= 2 components, D <= 2 features, probes of "
        "1..2 statistics, values from small sets of integers and simple fractions; higher ranks and shapes only "
        "through M3",
        "float comparison |obs-exp| <= 1e-8 max(1,|exp|) against exact rationals",
        "statistics are built by setting t, n, sum_px directly (t the integer sum of the occupations); the summed "
        "statistic of ScoreSum is built from the exact sums, not by GMMStats.__add__ (C02's subject)",
        "an array with exactly the model's statistics exists only for one component (responsibility 1 per frame): "
        "transform / score_using_array are bound to TLC's values on the C = 1 scenarios, elsewhere through M3",
        "M3 compares array-level and statistics-level entry points with rtol 1e-9; the NumPy evaluation of the score "
        "formula (dense solve for x) is part of the trusted base",
        "fit_using_array is exercised with NumPy input only (Dask input is C04 / C12's subject)"]
    ck.reported = collections.Counter()
    case = getattr(ck, "replay_case", None)
    if case and case.get("record"):
        replay(ck, em, case["record"], case.get("order_seed", ck.seed))
        return
    if case and case.get("meta", {}).get("seed") is not None:
        validate_traces(ck, [m3_trace(em, case["meta"]["seed"])])
        return

    # ---------------- M1 (+ export of every scenario at its terminal state)
    n_models, n_probes = SIZES[ck.tier]
    recs = []
    for (c, d) in SHAPES:
        dom = fm.domain(rng, c, d, n_models, n_probes)
        r = fm.model_run(ck, "entry-points-C%d-D%d" % (c, d), dom, coverage=not quick)
        # a terminal state is generated once per predecessor and printed each time; TLC's workers print in no fixed order
        uniq = {key(rec["scn"]): rec for rec in r.records}
        recs += [uniq[k] for k in sorted(uniq)]
    for dv, invs in fm.DEVIATIONS.items():
        for inv in invs:
            r = fm.model_run(ck, "deviation:%s:%s" % (dv, inv), fm.dev_domain(), dev=[dv], invariants=[inv], export=False,
                             expect_violation=True, workers=4)
            ck.notes.append("deviation %s refuted by TLC through %s" % (dv, r.violation))
    ck.exhaustive = True
    ck.extra["m1_scenarios"] = len(recs)

    # ---------------- M2
    if quick and len(recs) > 1200:
        recs = rng.sample(recs, 1200)
    outcomes = collections.Counter()
    for rec in recs:
        for k, v in replay(ck, em, rec, rng.randrange(10 ** 9)).items():
            outcomes[k] += v
    ck.extra["m2_scenarios"] = len(recs)
    ck.extra["m2_outcomes"] = dict(outcomes)

    # ---------------- M3
    seeds = [rng.randrange(10 ** 6) for _ in range(40 if quick else 400)]
    validate_traces(ck, [m3_trace(em, s) for s in seeds])


# ------------------------------------------------------------------------------------------------ M2
def mat(x):
    return np.array([[float(fr(v)) for v in row] for row in x], dtype=float)


def _layout(a):
    """The same values in a memory layout chosen from the values themselves (deterministic): C order, Fortran
    order or a strided view -- results must not depend on the layout of the caller's arrays."""
    import random as _random
    import zlib
    from ..common import relayout
    return relayout(a, _random.Random(zlib.crc32(np.ascontiguousarray(a).tobytes())))


def make_stat(em, t, n, f):
    st = em.GMMStats(len(n), np.asarray(f).shape[1])
    st.t = int(t)
    st.n = np.array(n, dtype=float)
    st.sum_px = _layout(np.array(f, dtype=float))
    return st


def stat_of(em, s):
    return make_stat(em, fr(s["t"]), [float(fr(v)) for v in s["n"]], mat(s["f"]))


def make_ubm(em, means, variances, weights=None):
    c = means.shape[0]
    ubm = em.GMMMachine(n_gaussians=c)
    ubm.weights = np.full(c, 1.0 / c) if weights is None else np.array(weights, dtype=float)
    ubm.means = np.array(means, dtype=float)
    ubm.variances = np.array(variances, dtype=float)
    return ubm


def make_machine(em, ubm, jfa, U, V, Dd, **kw):
    """ISVMachine / JFAMachine over `ubm` with the subspaces set directly (U, V: (C*D, rank); Dd: (C*D,))."""
    if jfa:
        m = em.JFAMachine(r_U=U.shape[1], r_V=V.shape[1], ubm=ubm, **kw)
        m.V = np.array(V, dtype=float)
    else:
        m = em.ISVMachine(r_U=U.shape[1], ubm=ubm, **kw)
    m.U = np.array(U, dtype=float)
    m.D = np.array(Dd, dtype=float)
    return m


def array_with_stats(rs, t, f):
    """t frames (dyadic entries) whose sum is exactly f: for a one-component UBM the statistics of this array
    are n = t, sum_px = f."""
    rows = rs.randint(-4, 5, size=(t - 1, len(f))) / 2.0
    return np.vstack([rows, (np.asarray(f, dtype=float) - rows.sum(axis=0))[None, :]])


def replay(ck, em, rec, order_seed):
    """Every entry point of one exported scenario on the same real objects, in a seeded order."""
    s, out = rec["scn"], rec["out"]
    mo = s["model"]
    ck.replayed += 1
    ck.seen(s)
    orng = random.Random(order_seed)
    C, D = len(mo["m"]), len(mo["m"][0])
    jfa = bool(mo["jfa"])
    ubm = make_ubm(em, mat(mo["m"]), mat(mo["s"]))
    mach = make_machine(em, ubm, jfa, mat(mo["U"]).reshape(-1, 1), mat(mo["V"]).reshape(-1, 1), mat(mo["Dd"]).reshape(-1))
    z = mat(mo["z"]).reshape(-1)
    if jfa:
        y = np.array([float(fr(mo["y"]))])
        model = (y, z) if orng.random() < 0.5 else [y, z]
    else:
        model = z if orng.random() < 0.5 else z[None, :]        # enroll returns a (1, C*D) array
    stats = [stat_of(em, st) for st in s["stats"]]
    pooled = stat_of(em, rec["pooled"])
    ts = [int(fr(st["t"])) for st in s["stats"]]
    rs = np.random.RandomState(order_seed % (2 ** 31))
    arrays = None
    if C == 1 and all(t >= 1 and fr(st["n"][0]) == t for t, st in zip(ts, s["stats"])):
        arrays = [array_with_stats(rs, t, mat(st["f"])[0]) for t, st in zip(ts, s["stats"])]

    exp = {"x": np.array([float(fr(out["x"]["v"]))]), "ux": mat(out["ux"]["v"]).reshape(-1),
           "score": float(fr(out["score"]["v"])), "ssum": float(fr(out["ssum"]["v"]))}
    calls = {"x": lambda: mach.estimate_x(stats), "ux": lambda: mach.estimate_ux(stats),
             "score": lambda: mach.score(model, stats), "ssum": lambda: mach.score(model, [pooled])}
    if out["tr"]["st"] != "none" and arrays is not None:
        exp["tr"] = mat(out["tr"]["v"]).reshape(-1)
        calls["tr"] = lambda: mach.transform(arrays[0])
    if arrays is not None:
        exp["score_arrays"] = exp["score"]
        calls["score_arrays"] = lambda: mach.score_using_array(model, arrays)
    order = sorted(calls)
    orng.shuffle(order)
    res = collections.Counter()
    ok_all = True
    for ep in order:
        err = obs = None
        try:
            obs = np.asarray(calls[ep](), dtype=float)
            good = obs.shape == np.shape(exp[ep]) and allclose(obs, exp[ep])
        except Exception as e:          # the call itself failed on a valid input
            err = "%s: %s" % (type(e).__name__, e)
            good = False
        res["%s:%s:%s" % ("jfa" if jfa else "isv", ep, "ok" if good else "mismatch")] += 1
        if good:
            continue
        ok_all = False
        clause = "M2:FaScore:" + CLAUSE[ep]
        ck.reported[clause] += 1
        if ck.reported[clause] > MAX_REPORTED:
            continue
        rep = {"mechanism": "M2", "module": "FaScore", "machine": "JFAMachine" if jfa else "ISVMachine",
               "entry_point": ep, "call_order": order, "order_seed": order_seed, "scenario": s,
               "expected": np.asarray(exp[ep]).tolist(), "observed": None if obs is None else obs.tolist(),
               "raised": err, "record": rec,
               "input": {"ubm_means": ubm.means.tolist(), "ubm_variances": ubm.variances.tolist(),
                         "U": np.asarray(mach.U).tolist(), "D": np.asarray(mach.D).tolist(),
                         "V": np.asarray(mach.V).tolist() if jfa else None,
                         "arrays": None if arrays is None else [a.tolist() for a in arrays]}}
        if ep == "tr" and err is not None and err.startswith("TypeError") and "not iterable" in err:
            rep["matches_deviation"] = "ISV_TRANSFORM_NOT_A_LIST"
            ck.finding("D7", clause, rep)
        else:
            ck.violation(clause, rep)
    if ok_all:
        ck.sample({"mechanism": "M2", "scenario": s, "expected": out, "call_order": order, "verdict": "ok"}, limit=4)
    return res


# ------------------------------------------------------------------------------------------------ M3
def agree(a, b, rtol=1e-9):
    a, b = np.asarray(a, dtype=float), np.asarray(b, dtype=float)
    return a.shape == b.shape and bool(np.allclose(a, b, rtol=rtol, atol=1e-12, equal_nan=True))


def oracle(ubm_means, ubm_vars, U, V, Dd, z, y, N, Fs, T):
    """x, U x and the compensated linear score from the pooled statistics (N (C,), Fs (C, D), T), dense NumPy."""
    C, D = ubm_means.shape
    m, s = ubm_means.reshape(-1), ubm_vars.reshape(-1)
    Nk = np.repeat(N, D)
    L = np.eye(U.shape[1]) + U.T @ (U * (Nk / s)[:, None])
    b = U.T @ ((Fs.reshape(-1) - Nk * m) / s)
    x = np.linalg.solve(L, b)
    ux = U @ x
    delta = Dd * z + (V @ y if V is not None else 0.0)
    terms = delta / s * (Fs.reshape(-1) - Nk * (m + ux))
    score = 0.0 if T == 0 else float(terms.sum() / T)
    scale = float(np.abs(terms).sum() / max(T, 1))
    return x, ux, score, scale, float(np.abs(L @ x).max() + np.abs(b).max())


def m3_trace(em, seed):
    r = np.random.RandomState(seed)
    jfa = bool(r.randint(0, 2))
    C, D = int(r.randint(1, 4)), int(r.randint(1, 4))
    rU, rV = int(r.randint(1, 4)), int(r.randint(1, 3))
    w = r.dirichlet(np.ones(C) * 3.0)
    mu = r.normal(size=(C, D)) * 2.0
    var = r.uniform(0.5, 2.0, size=(C, D))
    U = r.normal(size=(C * D, rU)) * 0.7
    V = r.normal(size=(C * D, rV)) * 0.7 if jfa else None
    Dd = r.uniform(0.2, 1.5, size=C * D)

    def draw(n):
        comp = r.choice(C, size=n, p=w)
        return mu[comp] + r.normal(size=(n, D)) * np.sqrt(var[comp]) + r.normal(size=D) * 0.5
    arrays = [draw(int(r.randint(3, 40))) for _ in range(int(r.randint(1, 4)))]
    Xe = draw(int(r.randint(5, 40)))
    sizes = [int(r.randint(2, 5)) for _ in range(int(r.randint(2, 4)))]      # samples per class, classes 0..K-1
    three_d = bool(r.randint(0, 2))
    Xf = np.array([draw(6) for _ in range(sum(sizes))]) if three_d else draw(sum(sizes))
    yf = [k for k, n in enumerate(sizes) for _ in range(n)]
    me = {"seed": seed, "machine": "JFAMachine" if jfa else "ISVMachine", "C": C, "D": D, "r_U": rU,
          "r_V": rV if jfa else None, "probe_arrays": [a.shape[0] for a in arrays], "fit_input": list(Xf.shape)}
    ev = []

    def fact(name, ok, **info):
        ev.append({"name": name, "ok": bool(ok)})
        if not ok:
            me.setdefault("failed", []).append(dict(info, name=name))

    def attempt(name, fn):
        try:
            fn()
        except Exception as e:
            fact(name, False, error="%s: %s" % (type(e).__name__, e))

    ubm = make_ubm(em, mu, var, w)

    def mk(**kw):
        return make_machine(em, ubm, jfa, U, V if jfa else np.zeros((C * D, 1)), Dd, **kw)
    mach = mk(enroll_iterations=int(r.randint(1, 3)))
    state = {}

    def enrol():
        a = mach.enroll_using_array(Xe)
        b = mach.enroll([ubm.acc_stats(Xe)])
        same = all(agree(p, q) for p, q in zip(a, b)) if jfa else agree(a, b)
        fact("EnrollUsingArrayEqEnrollOfStats", same, array_level=[np.asarray(p).tolist() for p in (a if jfa else [a])],
             stats_level=[np.asarray(p).tolist() for p in (b if jfa else [b])])
        state["model"] = a
    attempt("EnrollUsingArrayEqEnrollOfStats", enrol)
    if "model" not in state:        # enrolment itself is C07's subject: score a seeded client instead
        zz = r.normal(size=C * D)
        state["model"] = (r.normal(size=rV), zz) if jfa else zz
    model = state["model"]
    yv, zv = (np.asarray(model[0]), np.asarray(model[1]).reshape(-1)) if jfa else (None, np.asarray(model).reshape(-1))
    stats = [ubm.acc_stats(a) for a in arrays]
    N = sum(np.asarray(st.n) for st in stats)
    Fs = sum(np.asarray(st.sum_px) for st in stats)
    T = sum(int(st.t) for st in stats)
    x0, ux0, sc0, scale, xscale = oracle(mu, var, U, V, Dd, zv, yv, N, Fs, T)

    def score_paths():
        s_stats = float(mach.score(model, [ubm.acc_stats(a) for a in arrays]))
        s_arr = float(mach.score_using_array(model, arrays))
        tol = 1e-9 * max(1.0, scale)
        fact("ScoreUsingArrayEqScoreOfStats", abs(s_arr - s_stats) <= tol, array_level=s_arr, stats_level=s_stats)
        fact("ScoreIsCompensatedLinearScore", abs(s_stats - sc0) <= 1e-8 * max(1.0, scale), score=s_stats, formula=sc0)
        summed = make_stat(em, T, N, Fs)
        s_sum = float(mach.score(model, [summed]))
        fact("ListEqSum", abs(s_sum - s_stats) <= tol, as_list=s_stats, as_sum=s_sum, statistics=len(stats))
    attempt("ScoreUsingArrayEqScoreOfStats", score_paths)

    def weighted_probe():
        # statistics whose frame count is not the sum of their occupations (soft frame weights, pruned components,
        # hand-made statistics): the score is normalised by the FRAMES t, x comes from the pooled n and F
        wgt = float(r.uniform(0.3, 0.8))
        soft = [make_stat(em, int(st.t), np.asarray(st.n) * wgt, np.asarray(st.sum_px) * wgt) for st in stats]
        _, _, sc_w, scale_w, _ = oracle(mu, var, U, V, Dd, zv, yv, N * wgt, Fs * wgt, T)
        s_w = float(mach.score(model, soft))
        fact("ScoreNormalisedByFrames", abs(s_w - sc_w) <= 1e-8 * max(1.0, scale_w),
             score=s_w, formula=sc_w, frames=T, occupation=float(np.sum(N) * wgt))
    attempt("ScoreNormalisedByFrames", weighted_probe)

    def x_paths():
        x = np.asarray(mach.estimate_x([ubm.acc_stats(a) for a in arrays]), dtype=float)
        fact("XSolvesSystem", x.shape == x0.shape and np.max(np.abs(x - x0)) <= 1e-8 * max(1.0, xscale),
             estimate_x=x.tolist(), solution=x0.tolist())
        ux = np.asarray(mach.estimate_ux([ubm.acc_stats(a) for a in arrays]), dtype=float)
        fact("UxIsUTimesX", agree(ux, U @ x, 1e-9), estimate_ux=ux.tolist(), U_times_x=(U @ x).tolist())
    attempt("XSolvesSystem", x_paths)

    if not jfa:
        def tr():
            ref = np.asarray(mach.estimate_ux([ubm.acc_stats(arrays[0])]), dtype=float)
            obs = np.asarray(mach.transform(arrays[0]), dtype=float)
            fact("TransformEqEstimateUx", agree(obs, ref), transform=obs.tolist(), estimate_ux=ref.tolist())
        attempt("TransformEqEstimateUx", tr)

    def fits():
        kw = dict(em_iterations=2, random_state=int(seed % 1000))
        a, b = mk(**kw), mk(**kw)
        a.fit_using_array(Xf, yf)
        # what fit_using_array does with NumPy input: per-sample statistics of the UBM, labels as a squeezed array
        b.fit(ubm.transform(Xf), np.squeeze(np.asarray(yf)))
        names = ["U", "V", "D"] if jfa else ["U", "D"]
        same = all(agree(getattr(a, n), getattr(b, n)) for n in names)
        moved = not agree(a.U, U, 1e-6)
        fact("FitUsingArrayEqFitOfStats", same and np.asarray(a.U).shape == U.shape,
             differing=[n for n in names if not agree(getattr(a, n), getattr(b, n))])
        me["fit_moved_U"] = bool(moved)
    attempt("FitUsingArrayEqFitOfStats", fits)

    def history():
        # the SAME object, which has already enrolled, scored and transformed, is trained further; its scores
        # must then be those of its CURRENT U, V, D (nothing kept from before may show)
        mach.em_iterations = 1
        mach.fit(ubm.transform(Xf), np.squeeze(np.asarray(yf)))
        U2 = np.array(mach.U, dtype=float)
        V2 = np.array(mach.V, dtype=float) if jfa else None
        D2 = np.array(mach.D, dtype=float)
        x2, ux2, sc2, scale2, xscale2 = oracle(mu, var, U2, V2, D2, zv, yv, N, Fs, T)
        x = np.asarray(mach.estimate_x([ubm.acc_stats(a) for a in arrays]), dtype=float)
        fact("XAfterFurtherTraining", x.shape == x2.shape and np.max(np.abs(x - x2)) <= 1e-8 * max(1.0, xscale2),
             estimate_x=x.tolist(), solution=x2.tolist())
        s2 = float(mach.score(model, [ubm.acc_stats(a) for a in arrays]))
        fact("ScoreAfterFurtherTraining", abs(s2 - sc2) <= 1e-8 * max(1.0, scale2), score=s2, formula=sc2)
        fresh = make_machine(em, ubm, jfa, U2, V2 if jfa else np.zeros((C * D, 1)), D2)
        s3 = float(fresh.score(model, [ubm.acc_stats(a) for a in arrays]))
        fact("ScoreEqualsFreshMachine", abs(s2 - s3) <= 1e-9 * max(1.0, scale2), with_history=s2, fresh=s3)
    attempt("XAfterFurtherTraining", history)

    need = ["EnrollUsingArrayEqEnrollOfStats", "ScoreUsingArrayEqScoreOfStats", "ScoreIsCompensatedLinearScore",
            "ListEqSum", "XSolvesSystem", "UxIsUTimesX", "FitUsingArrayEqFitOfStats", "XAfterFurtherTraining",
            "ScoreAfterFurtherTraining", "ScoreEqualsFreshMachine"]
    if not jfa:
        need.append("TransformEqEstimateUx")
    # an evaluation that raised is recorded as the failure of the first fact of its group and the rest of the group
    # is not evaluated: the trace is then rejected at that fact; otherwise every fact must have been recorded
    if any(not e["ok"] for e in ev):
        need = [n for n in need if n in {e["name"] for e in ev}]
    return {"kind": "fa-score", "need": need, "ev": ev}, me


def validate_traces(ck, pairs):
    trs = [p[0] for p in pairs]
    verdicts = traces.validate(ck, "fafacts", ck.work, trs, module="TraceFacts")
    outcomes = collections.Counter()
    for (tr, me), (v, pos) in zip(pairs, verdicts):
        ck.replayed += 1
        ck.seen(["M3", me["seed"]])
        outcomes[v] += 1
        if v == "ok":
            ck.sample({"mechanism": "M3", "trace": tr["ev"], "meta": me}, limit=7)
            continue
        clause = "M3:TraceFacts:" + v
        ck.reported[clause] += 1
        if ck.reported[clause] > MAX_REPORTED:
            continue
        rep = {"mechanism": "M3", "module": "TraceFacts", "trace": tr, "meta": me, "rejected_at_event": pos, "clause": v}
        errs = [f.get("error", "") for f in me.get("failed", []) if f["name"] == v]
        if v == "TransformEqEstimateUx" and errs and errs[0].startswith("TypeError") and "not iterable" in errs[0]:
            rep["matches_deviation"] = "ISV_TRANSFORM_NOT_A_LIST"
            ck.finding("D7", clause, rep)
        else:
            ck.violation(clause, rep)
    ck.extra["m3_traces"] = len(trs)
    ck.extra["m3_verdicts"] = dict(outcomes)
