"""C17 - a GMM's likelihood reflects its current visible parameters, whatever its history.

M1  specs/GmmMachine.tla: CacheCoherent, VarAboveCurrentFloor, FreshEquivalent on every reachable state
    (all call orders of the setters, M-steps, copy, pickle, save/load); four named deviations must each
    be refuted by TLC.
M2  one implementation test per edge of the state graph: reach the source state along a BFS path of
    public calls, apply the operation, compare the visible parameters with the model and the
    likelihoods / statistics with a freshly built machine holding the same visible parameters.
    Private cache attributes are never read."""
import random

import numpy as np

from .. import gmm_machine_model as gm
from ..common import key, pin_repo

DEVS = ["FLOOR_SETTER_NO_RECLAMP", "VAR_SETTER_KEEPS_NORMALISER", "WEIGHT_SETTER_KEEPS_LOGW", "LOAD_KEEPS_CACHES",
        "FLOOR_LATE_BOUND_TO_COUNT_THRESHOLD"]


def run(ck):
    em = pin_repo()
    rng = random.Random(ck.seed)
    quick = ck.tier == "quick"
    ck.assumptions += ["abstract domain: 2 components x 1..2 features, variances/floors/weights/means from small sets "
                       "(closed under clamping); M-step results are produced by crafted statistics so that they land on "
                       "the grid; MAP machines use a fixed adaptation ratio 1 for the same reason",
                       "likelihood equality with a fresh machine is demanded to 1e-12 on 4 probe samples incl. a far tail"]
    for D in (1, 2):
        r = gm.model_run(ck, "machine-%dd" % D, 2, D, quick, coverage=not quick)
        out = gm.graph(r.records)
        paths, states = gm.bfs_paths(out)
        unreachable = [k for k in states if k not in paths]
        if unreachable:
            ck.notes.append("%d abstract states not reachable from a constructible state" % len(unreachable))
        # distinct (source, operation-effect) edges
        edges = {}
        for k, lst in out.items():
            for e in lst:
                o = dict(e["o"])
                edges.setdefault((k, key(o)), e)
        elist = sorted(edges.values(), key=lambda e: key(e))
        limit = 700 if quick else 0
        if limit and len(elist) > limit:
            elist = rng.sample(elist, limit)
        for e in elist:
            k = key(e["f"])
            if k not in paths:
                continue
            for trainer in (["ml"] if e["o"].get("kind", "ml") == "ml" else ["map"]) if e["o"]["name"] == "MStep" \
                    else (["ml", "map"] if rng.random() < 0.3 else ["ml"]):
                drv = gm.Driver(em, 2, D, trainer, ck.work)
                base, ops = paths[k]
                m = drv.build(base)
                for o in ops:
                    m = drv.apply(m, o)
                clause, detail = drv.compare(m, e["f"])
                if clause:
                    ck.violation("M2:GmmMachine:path:" + clause,
                                 {"mechanism": "M2", "module": "GmmMachine", "trainer": trainer, "start": base,
                                  "path": ops, "detail": detail})
                    continue
                m = drv.apply(m, e["o"])
                clause, detail = drv.compare(m, e["t"])
                ck.replayed += 1
                ck.seen([D, trainer, e["f"], e["o"]])
                if clause:
                    ck.violation("M2:GmmMachine:" + clause,
                                 {"mechanism": "M2", "module": "GmmMachine", "trainer": trainer, "start": base,
                                  "path": ops, "operation": e["o"], "expected": e["t"], "detail": detail})
                else:
                    ck.sample({"mechanism": "M2", "trainer": trainer, "path": [o["name"] for o in ops],
                               "operation": e["o"]["name"], "verdict": "ok"})
    ck.exhaustive = True
    trained_machines(ck, em, rng, 25 if quick else 300)
    switched_off_components(ck, em, rng, 12 if quick else 120)
    for d in DEVS:
        gm.model_run(ck, "deviation:" + d, 2, 1, True, dev=[d], expect_violation=True, export=False, props=[])


def trained_machines(ck, em, rng, count):
    """FreshEquivalent on machines whose parameters were produced by the library itself: ML and MAP machines
    (relevance-factor adaptation, every update switch, data that sit on a rare component so that the adapted weights
    need renormalising) after one or two EM steps through fit() and through the module-level m_step, their deep
    copies and pickles.  The reference is the mixture density of the VISIBLE parameters."""
    import copy
    import pickle
    from bob.learn.em.gmm import m_step
    from ..gmm_machine_model import oracle_ll
    for i in range(count):
        seed = rng.randrange(10 ** 6)
        r = np.random.RandomState(seed)
        C, D = int(r.randint(2, 5)), int(r.randint(1, 4))
        prior = em.GMMMachine(C)
        w = r.uniform(0.05, 1, size=C)
        w[0] *= 0.02                                   # a rare component ...
        prior.weights = w / w.sum()
        prior.means = r.normal(size=(C, D)) * 3
        prior.variances = r.uniform(0.5, 2, size=(C, D))
        X = np.asarray(prior.means)[0] + r.normal(size=(int(r.randint(8, 40)), D))      # ... on which the data sit
        sw = dict(update_means=bool(r.randint(0, 2)), update_variances=bool(r.randint(0, 2)), update_weights=True)
        trainer = "map" if i % 3 else "ml"
        if trainer == "map":
            m = em.GMMMachine(C, trainer="map", ubm=prior, map_relevance_factor=float(r.choice([0.5, 4.0, 16.0])),
                              max_fitting_steps=int(r.randint(1, 3)), convergence_threshold=None, **sw)
        else:
            m = em.GMMMachine(C, max_fitting_steps=int(r.randint(1, 3)), convergence_threshold=None, **sw)
            m.weights, m.means, m.variances = np.array(prior.weights), np.array(prior.means) + 0.3, np.array(prior.variances)
        how = "fit"
        if i % 2:
            m.fit(X)
        else:
            how = "m_step"
            if trainer == "map":
                m.initialize_gaussians()
            m_step([m.acc_stats(X[: len(X) // 2]), m.acc_stats(X[len(X) // 2:])], m)
        probes = np.concatenate([X[:3], np.asarray(prior.means)[-1:] + 0.5, np.asarray(prior.means)[:1] + 25.0])
        ck.replayed += 1
        ck.seen(["trained", seed])
        for label, obj in (("the machine", m), ("its deep copy", copy.deepcopy(m)), ("its pickle", pickle.loads(pickle.dumps(m)))):
            vis = [np.asarray(getattr(obj, a), dtype=float) for a in ("weights", "means", "variances")]
            if not all(np.all(np.isfinite(v)) for v in vis):
                break           # validity of trained models is C13's subject
            ref = oracle_ll(*vis, probes)
            got = np.asarray(obj.log_likelihood(probes))
            st = obj.acc_stats(probes)
            if not (np.all(np.isfinite(got)) and np.allclose(got, ref, rtol=1e-9, atol=1e-9)
                    and abs(float(st.log_likelihood) - float(ref.sum())) <= 1e-8 * max(1.0, abs(float(ref.sum())))):
                ck.violation("M2:GmmMachine:FreshEquivalent.after_training",
                             {"mechanism": "M2", "module": "GmmMachine", "seed": seed, "trainer": trainer, "through": how,
                              "switches": sw, "object": label, "visible_weights": vis[0].tolist(),
                              "detail": "log_likelihood %s, mixture density of the visible parameters %s"
                                        % (got.tolist(), ref.tolist())})
                break
        else:
            ck.sample({"mechanism": "M2", "trained": {"seed": seed, "trainer": trainer, "through": how}, "verdict": "ok"}, limit=3)


def switched_off_components(ck, em, rng, count):
    """FreshEquivalent with a weight of exactly zero (a component switched off: log-weight -inf, no responsibility),
    assigned through the constructor or the setter, on fresh machines and on machines with a past."""
    import copy
    import pickle
    import warnings
    from ..gmm_machine_model import oracle_ll
    for i in range(count):
        seed = rng.randrange(10 ** 6)
        r = np.random.RandomState(seed)
        C, D = int(r.randint(2, 6)), int(r.randint(1, 4))
        w = r.uniform(0.2, 1, size=C)
        off = r.choice(C, size=int(r.randint(1, C)), replace=False)
        w[off] = 0.0
        w = w / w.sum()
        mu, var = r.normal(size=(C, D)) * 2, r.uniform(0.4, 2, size=(C, D))
        X = mu[r.randint(0, C, size=12)] + r.normal(size=(12, D))
        with warnings.catch_warnings():
            warnings.simplefilter("ignore")
            if i % 3 == 0:
                g = em.GMMMachine(C, weights=w.copy())
                g.means, g.variances = mu.copy(), var.copy()
            else:
                g = em.GMMMachine(C)
                g.means, g.variances = mu.copy(), var.copy()
                if i % 3 == 2:          # a past: other weights, some scoring, an EM step
                    g.weights = np.full(C, 1.0 / C)
                    g.log_likelihood(X)
                    g.update_weights = True
                    from bob.learn.em.gmm import m_step
                    m_step([g.acc_stats(X)], g)
                    g.means, g.variances = mu.copy(), var.copy()
                g.weights = w.copy()
            ref = oracle_ll(w, mu, var, X)
            ck.replayed += 1
            ck.seen(["zero-weight", seed])
            for label, obj in (("the machine", g), ("its deep copy", copy.deepcopy(g)), ("its pickle", pickle.loads(pickle.dumps(g)))):
                got = np.asarray(obj.log_likelihood(X))
                st = obj.acc_stats(X)
                nn = np.asarray(st.n, dtype=float)
                if not (np.allclose(got, ref, rtol=1e-9, atol=1e-9) and np.all(nn[off] == 0) and abs(nn.sum() - len(X)) < 1e-8):
                    ck.violation("M2:GmmMachine:FreshEquivalent.zero_weight",
                                 {"mechanism": "M2", "module": "GmmMachine", "seed": seed, "object": label, "weights": w.tolist(),
                                  "assigned_through": ["constructor", "setter", "setter, after a past"][i % 3],
                                  "detail": "log_likelihood %s, mixture density of the visible parameters %s; responsibilities %s"
                                            % (got.tolist(), ref.tolist(), nn.tolist())})
                    break
            else:
                ck.sample({"mechanism": "M2", "zero_weight": {"seed": seed, "weights": w.tolist()}, "verdict": "ok"}, limit=2)
