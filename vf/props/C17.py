"""C17 - a GMM's likelihood reflects its current visible parameters, whatever its history.

M1  specs/GmmMachine.tla: CacheCoherent, VarAboveCurrentFloor, FreshEquivalent on every reachable state
    (all call orders of the setters, M-steps, copy, pickle, save/load); four named deviations must each
    be refuted by TLC.
M2  one implementation test per edge of the state graph: reach the source state along a BFS path of
    public calls, apply the operation, compare the visible parameters with the model and the
    likelihoods / statistics with a freshly built machine holding the same visible parameters.
    Private cache attributes are never read."""
import random

from .. import gmm_machine_model as gm
from ..common import key, pin_repo

DEVS = ["FLOOR_SETTER_NO_RECLAMP", "VAR_SETTER_KEEPS_NORMALISER", "WEIGHT_SETTER_KEEPS_LOGW", "LOAD_KEEPS_CACHES",
        "FLOOR_LATE_BOUND_TO_COUNT_THRESHOLD"]


def run(ck):
    em = pin_repo()
    rng = random.Random(ck.seed)
    quick = ck.tier == "quick"
    ck.assumptions += ["abstract domain: 2 components x 1..2 features, variances/floors/weights/means from small sets "
                       "(closed under clamping); M-step results are produced by crafted statistics so that they land on "
                       "the grid; MAP machines use a fixed adaptation ratio 1 for the same reason",
                       "likelihood equality with a fresh machine is demanded to 1e-12 on 4 probe samples incl. a far tail"]
    for D in (1, 2):
        r = gm.model_run(ck, "machine-%dd" % D, 2, D, quick, coverage=not quick)
        out = gm.graph(r.records)
        paths, states = gm.bfs_paths(out)
        unreachable = [k for k in states if k not in paths]
        if unreachable:
            ck.notes.append("%d abstract states not reachable from a constructible state" % len(unreachable))
        # distinct (source, operation-effect) edges
        edges = {}
        for k, lst in out.items():
            for e in lst:
                o = dict(e["o"])
                edges.setdefault((k, key(o)), e)
        elist = sorted(edges.values(), key=lambda e: key(e))
        limit = 700 if quick else 0
        if limit and len(elist) > limit:
            elist = rng.sample(elist, limit)
        for e in elist:
            k = key(e["f"])
            if k not in paths:
                continue
            for trainer in (["ml"] if e["o"].get("kind", "ml") == "ml" else ["map"]) if e["o"]["name"] == "MStep" \
                    else (["ml", "map"] if rng.random() < 0.3 else ["ml"]):
                drv = gm.Driver(em, 2, D, trainer, ck.work)
                base, ops = paths[k]
                m = drv.build(base)
                for o in ops:
                    m = drv.apply(m, o)
                clause, detail = drv.compare(m, e["f"])
                if clause:
                    ck.violation("M2:GmmMachine:path:" + clause,
                                 {"mechanism": "M2", "module": "GmmMachine", "trainer": trainer, "start": base,
                                  "path": ops, "detail": detail})
                    continue
                m = drv.apply(m, e["o"])
                clause, detail = drv.compare(m, e["t"])
                ck.replayed += 1
                ck.seen([D, trainer, e["f"], e["o"]])
                if clause:
                    ck.violation("M2:GmmMachine:" + clause,
                                 {"mechanism": "M2", "module": "GmmMachine", "trainer": trainer, "start": base,
                                  "path": ops, "operation": e["o"], "expected": e["t"], "detail": detail})
                else:
                    ck.sample({"mechanism": "M2", "trainer": trainer, "path": [o["name"] for o in ops],
                               "operation": e["o"]["name"], "verdict": "ok"})
    ck.exhaustive = True
    for d in DEVS:
        gm.model_run(ck, "deviation:" + d, 2, 1, True, dev=[d], expect_violation=True, export=False, props=[])
