"""C12 - training ISV / JFA / i-vector from a Dask bag of statistics is independent of the bag's partitioning,
of the order in which the scheduler runs the tasks, and of whether tasks run on serialised copies.

M1  specs/BagTrain.tla
      stage 1: `_prepare_dask_input` as written (partition lengths, running index, label used as list position,
      per-class lists, regrouped labels), one action Regroup per partition, for EVERY surjective labelling (sorted
      or not) of n <= 6 statistics with K <= 3 classes x EVERY composition of n into partitions, plus scenarios
      with empty partitions: RegroupProgress, RegroupIsPartitionByLabel (order kept, every statistic exactly once,
      regrouped labels match);  deviation BAG_REGROUP_ASSUMES_SORTED must be refuted.
      stage 2: the EM loops of ISVMachine.fit / JFAMachine.fit (JFA: the phases V, U, D) as one task graph per
      iteration (Submit, RunEClass(k) in every order, RunM with reduce_iadd, Assign, NextIter), parameters as version
      tags, in the memory modes Shared and Isolated: ExactlyOncePerMStep, AllContribsAtCurrentVersion,
      HostFreshAfterIter, HandOverFresh;  deviation BAG_RESULT_NOT_ASSIGNED must be refuted in Isolated mode (and
      is shown to be invisible in Shared mode);  deviation BAG_ESTEP_OUTPUT_REUSED must be refuted
      (AllContribsAtCurrentVersion in both modes, ExactlyOncePerMStep in Shared mode through the in-place addition).
    specs/PairTree.tla: one iteration of IVectorMachine.fit on a bag as written (e-step per partition, the
      pairwise reduction loop with its odd carry, M-step on its machine, copy-back of the attribute list), 1..64
      partitions, both memory modes, 1..2 iterations: LeavesConserved, EveryLeafExactlyOnce, TreeShape, Shrinks,
      Terminates, AllContribsAtCurrentVersion, HostFreshAfterIter;  deviations PAIRTREE_ODD_CARRY_DROPPED and
      IVECTOR_SIGMA_NOT_COPIED_BACK (Isolated mode) must be refuted.
M2  (a) every exported regrouping scenario (sampled in the quick tier) is put through the real
        `_prepare_dask_input` (private: an extra binding, skipped with a note if absent) on a bag with exactly the
        partition lengths TLC chose, and the per-class lists / regrouped labels must equal TLC's;
    (b) every exported EM behaviour (labels, composition, kind, em_iterations, memory mode, E-step order of every
        graph) is executed by `fit(bag, y)` under a replaying scheduler that runs the per-class E-step tasks in
        exactly that order (with cloudpickle round trips in Isolated mode) and compared with `fit(list, y)`:
        U, V, D within 1e-8;
    (c) IVectorMachine.fit(bag) for every composition of n = 4..6 statistics, bags with empty partitions and bags
        of L partitions for the behaviours PairTree exported (L, memory mode, max_iterations), seeded task orders,
        compared with the list fit: T, sigma within 1e-8."""
import collections
import copy
import os
import random
import traceback

import numpy as np

from .. import bagtrain_model as bm
from .. import tlc
from ..common import REPO_SRC, ImplementationTimeout, pin_repo, time_limit
from ..sched import ReplayScheduler

TOL = 1e-8
MAX_REPORTED = 4
FIT_LIMIT = 60          # seconds; every fit here takes milliseconds


def run(ck):
    em = pin_repo()
    rng = random.Random(ck.seed)
    quick = ck.tier == "quick"
    cov = not quick
    ck.assumptions += [
        "labels are 0..K-1, every class present (the code uses the label as a list position; other label sets are "
        "C16's subject)",
        "worker isolation is modelled by a cloudpickle round trip of every task's inputs and result (no real "
        "multi-process cluster is started); the replaying scheduler is single-threaded",
        "exact model bounded to n <= 6 statistics, K <= 3 classes, em_iterations <= 2, pairwise trees of 1..64 leaves",
        "float comparison |bag - list| <= 1e-8 max(1,|list|) on U, V, D, T, sigma (re-association of sums across "
        "partitions moves results by ~1e-15; the defects in scope move them by O(1))",
        "_prepare_dask_input is private: its direct comparison with the model is an additional binding only",
        "bags whose partitions are one-shot iterators (generator / map objects, as bag.map_partitions may return) are "
        "given to IVectorMachine.fit only: ISVMachine / JFAMachine.fit refuse them with a TypeError from len() on the "
        "unchanged tree -- a refusal, not a wrong model, and the container type of a partition is not among the things "
        "C12 quantifies over"]
    reported = collections.Counter()

    # ------------------------------------------------------------------ M1
    nmax = 5 if quick else 6
    r_all = bm.run_bagtrain(ck, "regroup-all-n<=%d-K<=3" % nmax, gen=(1, nmax, 3), coverage=cov)
    regroup = bm.distinct_records(r_all)
    want = sum(len(bm.surjective_labellings(n, k)) * 2 ** (n - 1) for n in range(1, nmax + 1) for k in (1, 2, 3))
    if len(regroup) != want:
        raise tlc.MachineryError("regroup run exported %d scenarios, expected %d" % (len(regroup), want))
    empties = empty_partition_scenarios(rng, 40 if quick else 300)
    r_emp = bm.run_bagtrain(ck, "regroup-empty-partitions", scn=empties, coverage=cov)
    regroup_empty = bm.distinct_records(r_emp)

    em_scn = em_scenarios(rng, quick)
    r_em = bm.run_bagtrain(ck, "em-orders-modes", scn=em_scn, modes=("Shared", "Isolated"), kinds=("ISV", "JFA"),
                           iters=(1, 2), max_orders=216, coverage=cov)
    behaviours = bm.distinct_records(r_em)
    for need in (("ISV", "Shared"), ("ISV", "Isolated"), ("JFA", "Shared"), ("JFA", "Isolated")):
        if not any((b["kind"], b["mode"]) == need for b in behaviours):
            raise tlc.MachineryError("no exported behaviour for %s/%s" % need)

    small = [(y, c) for y, c in em_scn if len(y) <= 4][:12]
    bm.run_bagtrain(ck, "deviation:BAG_REGROUP_ASSUMES_SORTED", gen=(1, 4, 3), dev=["BAG_REGROUP_ASSUMES_SORTED"],
                    invariants=["RegroupIsPartitionByLabel"], export=False, expect_violation=True)
    bm.run_bagtrain(ck, "deviation:BAG_RESULT_NOT_ASSIGNED:Isolated", scn=small, modes=("Isolated",), kinds=("JFA", "ISV"),
                    iters=(1, 2), max_orders=216, dev=["BAG_RESULT_NOT_ASSIGNED"], invariants=["HostFreshAfterIter"],
                    export=False, expect_violation=True)
    bm.run_bagtrain(ck, "deviation:BAG_RESULT_NOT_ASSIGNED:Shared(invisible)", scn=small[:4], modes=("Shared",),
                    kinds=("JFA", "ISV"), iters=(1, 2), max_orders=216, dev=["BAG_RESULT_NOT_ASSIGNED"], export=False)

    bm.run_bagtrain(ck, "deviation:BAG_ESTEP_OUTPUT_REUSED:stale", scn=small, modes=("Shared", "Isolated"), kinds=("ISV", "JFA"),
                    iters=(2,), max_orders=216, dev=["BAG_ESTEP_OUTPUT_REUSED"], invariants=["AllContribsAtCurrentVersion"],
                    export=False, expect_violation=True)
    bm.run_bagtrain(ck, "deviation:BAG_ESTEP_OUTPUT_REUSED:double-count", scn=small, modes=("Shared",), kinds=("ISV", "JFA"),
                    iters=(2,), max_orders=216, dev=["BAG_ESTEP_OUTPUT_REUSED"], invariants=["ExactlyOncePerMStep"],
                    export=False, expect_violation=True)

    r_pt = bm.run_pairtree(ck, "pairtree-1..64", 64, coverage=True)
    tree_recs = bm.distinct_records(r_pt)
    trees = {rec["L"]: rec for rec in tree_recs}
    if sorted(trees) != list(range(1, 65)) or len(tree_recs) != 64 * 2 * 2:
        raise tlc.MachineryError("PairTree exported %d behaviours, lengths %s" % (len(tree_recs), sorted(trees)))
    bm.run_pairtree(ck, "deviation:PAIRTREE_ODD_CARRY_DROPPED", 64, dev=["PAIRTREE_ODD_CARRY_DROPPED"],
                    invariants=["EveryLeafExactlyOnce"], properties=[], export=False, expect_violation=True)
    bm.run_pairtree(ck, "deviation:IVECTOR_SIGMA_NOT_COPIED_BACK:Isolated", 8, modes=("Isolated",),
                    dev=["IVECTOR_SIGMA_NOT_COPIED_BACK"], invariants=["HostFreshAfterIter"], properties=[],
                    export=False, expect_violation=True)
    bm.run_pairtree(ck, "deviation:IVECTOR_SIGMA_NOT_COPIED_BACK:Shared(invisible)", 8, modes=("Shared",),
                    dev=["IVECTOR_SIGMA_NOT_COPIED_BACK"], export=False)
    ck.notes.append("the runs regroup-* explore stage 1 only (em_iterations = 0): the stage-2 actions are not enabled there "
                    "by construction; they are exercised by em-orders-modes")
    ck.extra["exported"] = {"regroup_scenarios": len(regroup), "regroup_scenarios_with_empty_partitions": len(regroup_empty),
                            "em_behaviours": len(behaviours), "pairtree_behaviours": len(tree_recs)}

    # ------------------------------------------------------------------ M2 (a) regrouping
    outcomes = collections.Counter()
    sample_a = regroup if len(regroup) <= (400 if quick else 8000) else \
        [r for r in regroup if len(r["y"]) <= 3] + rng.sample([r for r in regroup if len(r["y"]) > 3], 350 if quick else 7500)
    sample_a = sample_a + (regroup_empty if not quick else regroup_empty[:40])
    have_private = hasattr(em.ISVMachine, "_prepare_dask_input")
    if not have_private:
        ck.notes.append("ISVMachine._prepare_dask_input does not exist: the direct regrouping binding was skipped "
                        "(the regrouping is still bound through fit)")
    else:
        for rec in sample_a:
            replay_regroup(ck, em, rec, rng, reported, outcomes)

    # ------------------------------------------------------------------ M2 (b) ISV / JFA fits
    chosen = choose_behaviours(behaviours, rng, 360 if quick else 6500)
    ck.extra["em_behaviours_replayed"] = len(chosen)
    for rec in chosen:
        replay_fit(ck, em, rec, rng, reported, outcomes)
    ck.exhaustive = len(chosen) == len(behaviours) and len(sample_a) == len(regroup) + len(regroup_empty)

    # ------------------------------------------------------------------ M2 (c) i-vector fits
    for scn in ivector_scenarios(rng, quick, tree_recs):
        replay_ivector(ck, em, scn, trees, reported, outcomes)
    ck.extra["m2_outcomes"] = dict(outcomes)
    ck.extra["rejected"] = dict(reported)


# ---------------------------------------------------------------------- scenario sets
def empty_partition_scenarios(rng, count):
    """Labelled bags of 2..5 statistics whose partitioning contains one to three empty partitions."""
    out = set()
    pool = [(lab, comp) for n in range(2, 6) for k in (1, 2, 3) for lab in bm.surjective_labellings(n, k)
            for comp in bm.compositions(n)]
    while len(out) < count:
        lab, comp = rng.choice(pool)
        out.add((lab, bm.with_empty_partitions(comp, rng, rng.randint(1, 3))))
    return sorted(out)


def em_scenarios(rng, quick):
    """(labels, composition) pairs for the EM stage: every composition of n = 4..6 (quick: 4..5) statistics, with
    seeded surjective labellings for K = 2 and K = 3 (mostly unsorted, so that partitions mix classes), some
    sorted labellings, single-class bags and bags with empty partitions."""
    out = []
    for n in ((4, 5) if quick else (4, 5, 6)):
        labs = {k: bm.surjective_labellings(n, k) for k in (1, 2, 3)}
        for j, comp in enumerate(bm.compositions(n)):
            ks = (2, 3) if not quick else ((3,) if j % 3 == 0 else (2,))
            for k in ks:
                out.append((rng.choice(labs[k]), comp))
        for k in (2, 3):
            srt = tuple(sorted(rng.choice(labs[k])))
            out.append((srt, rng.choice(list(bm.compositions(n)))))
        out.append((labs[1][0], rng.choice(list(bm.compositions(n)))))
        for k in (2, 3):
            out.append((rng.choice(labs[k]), bm.with_empty_partitions(rng.choice(list(bm.compositions(n))), rng, 1)))
    return sorted(set(out))


def choose_behaviours(behaviours, rng, budget):
    """All behaviours if they fit the budget; otherwise a seeded sample that keeps at least one behaviour of every
    (scenario, kind, em_iterations, memory mode) and fills up uniformly."""
    if len(behaviours) <= budget:
        return behaviours
    groups = collections.OrderedDict()
    for b in behaviours:
        groups.setdefault((tuple(b["y"]), tuple(b["comp"]), b["kind"], b["iters"], b["mode"]), []).append(b)
    chosen, rest = [], []
    for g in groups.values():
        k = rng.randrange(len(g))
        chosen.append(g[k])
        rest += g[:k] + g[k + 1:]
    if len(chosen) > budget:
        return rng.sample(chosen, budget)
    return chosen + rng.sample(rest, budget - len(chosen))


def ivector_scenarios(rng, quick, tree_recs):
    out = []
    for n in ((4, 5) if quick else (4, 5, 6)):
        for comp in bm.compositions(n):
            modes = ("Shared", "Isolated")
            for mode in modes:
                for iters in ((rng.choice((1, 2)),) if quick else (1, 2)):
                    out.append({"comp": list(comp), "mode": mode, "iters": iters, "builder": "auto"})
        for _ in range(3 if quick else 12):
            comp = bm.with_empty_partitions(rng.choice(list(bm.compositions(n))), rng, rng.randint(1, 2))
            out.append({"comp": list(comp), "mode": rng.choice(("Shared", "Isolated")), "iters": rng.choice((1, 2)),
                        "builder": "exact"})
    # an empty partition at EVERY position of the reduction tree (left and right operand of a pair, the odd one
    # carried over), in both memory modes, with enough iterations for anything an empty partition's E-step result
    # keeps between iterations to come back (round eight: a shared "zero" result accumulated into by the reduction)
    for base in ((1, 1, 2), (2, 2), (1, 3), (1, 1, 1, 1)) if quick else ((1, 1, 2), (2, 2), (1, 3), (1, 1, 1, 1), (2, 1, 2), (5,), (1, 2, 1, 1)):
        for pos in range(len(base) + 1):
            comp = list(base)
            comp.insert(pos, 0)
            for mode in ("Shared", "Isolated"):
                out.append({"comp": comp, "mode": mode, "iters": 3, "builder": "exact"})
        comp = [0] + list(base) + [0]
        comp.insert(2, 0)
        out.append({"comp": comp, "mode": "Shared", "iters": 3, "builder": "exact"})
    # the behaviours PairTree exported (number of partitions, memory mode, max_iterations); quick: a seeded sample
    # that keeps the small odd and even lengths
    recs = tree_recs if not quick else \
        [r for r in tree_recs if r["L"] in (1, 2, 3, 5, 6, 7) and r["iters"] == 2] + \
        rng.sample([r for r in tree_recs if r["L"] >= 8], 12)
    for r in recs:
        # L partitions: single elements, except that up to two partitions hold two statistics
        comp = [1] * r["L"]
        for j in rng.sample(range(r["L"]), min(r["L"], 2)):
            comp[j] = rng.choice((1, 2))
        out.append({"comp": comp, "mode": r["mode"], "iters": r["iters"], "builder": "exact"})
    for k, scn in enumerate(out):
        scn["seed"] = rng.randrange(10 ** 6)
        scn["update_sigma"] = (k % 5 != 4)
        if k % 4 == 3:
            scn["builder"] = ("lazy-generator", "lazy-map")[(k // 4) % 2]
            scn["mode"] = "Shared"      # a generator cannot be serialised: such partitions live in one process
    return out


# ---------------------------------------------------------------------- implementation side
def raised_by_library(exc):
    root = os.path.realpath(REPO_SRC)
    return any(os.path.realpath(f.filename).startswith(root) for f in traceback.extract_tb(exc.__traceback__))


def guarded(ck, reported, clause, scn, fn):
    """A legitimate call that raises inside the library, or does not return, violates the property."""
    try:
        with time_limit(FIT_LIMIT):
            return True, fn()
    except ImplementationTimeout:
        what = "no result after %s s" % FIT_LIMIT
    except Exception as e:
        if not raised_by_library(e):
            raise
        what = "%s: %s" % (type(e).__name__, e)
        tb = traceback.format_exc()[-2500:]
        scn = dict(scn, traceback=tb)
    reported[clause] += 1
    if reported[clause] <= MAX_REPORTED:
        ck.violation(clause, {"mechanism": "M2", "scenario": scn, "observed": what})
    return False, None


def problem(em, seed, n):
    rs = np.random.RandomState(seed)
    C, D = 2, int(rs.randint(2, 4))
    ubm = bm.make_ubm(em, rs, C, D)
    stats = bm.make_stats(ubm, rs, n, D)
    return rs, ubm, stats, D


_SEQ_LENGTHS = {}


def from_sequence_lengths(n, kw):
    import dask.bag as db
    k = (n, tuple(sorted(kw.items())))
    if k not in _SEQ_LENGTHS:
        _SEQ_LENGTHS[k] = bm.bag_lengths(db.from_sequence(list(range(n)), **kw))
    return _SEQ_LENGTHS[k]


def build_bag(stats, comp, builder):
    """A bag with exactly the partition lengths `comp`.  `auto`: through dask.bag.from_sequence(npartitions= /
    partition_size=) when that call produces this very composition, else from explicit partitions."""
    import dask.bag as db
    comp = list(comp)
    n = len(stats)
    if builder == "auto" and 0 not in comp:
        for kw in ({"npartitions": len(comp)}, {"partition_size": comp[0]}):
            if from_sequence_lengths(n, kw) == comp:
                return db.from_sequence(stats, **kw), "from_sequence(%s=%d)" % next(iter(kw.items()))
    if builder == "lazy-generator":
        # partitions produced lazily: each is a one-shot iterator, as after bag.map_partitions(generator function)
        return bm.bag_exact(stats, comp).map_partitions(lambda part: (s for s in part)), "from_delayed + generator partitions"
    if builder == "lazy-map":
        return bm.bag_exact(stats, comp).map_partitions(lambda part: map(lambda s: s, part)), "from_delayed + map-object partitions"
    return bm.bag_exact(stats, comp), "from_delayed"


def rel_err(obs, exp):
    o, e = np.asarray(obs, dtype=float), np.asarray(exp, dtype=float)
    if o.shape != e.shape:
        return float("inf")
    if not np.all(np.isfinite(o)):
        return float("inf")
    return float(np.max(np.abs(o - e) / np.maximum(1.0, np.abs(e)))) if o.size else 0.0


def replay_regroup(ck, em, rec, rng, reported, outcomes):
    import dask
    y, comp, K = rec["y"], rec["comp"], rec["K"]
    n = len(y)
    seed = rng.randrange(10 ** 6)
    mode = rng.choice(("Shared", "Isolated"))
    y_as = rng.choice(("list", "array"))
    scn = {"what": "_prepare_dask_input", "y": y, "comp": comp, "mode": mode, "seed": seed, "y_as": y_as}
    ck.replayed += 1
    ck.seen(["regroup", y, comp])
    _, ubm, stats, _ = problem(em, seed, n)
    ids = {bm.stat_key(s): j + 1 for j, s in enumerate(stats)}
    bag, how = build_bag(bm.fresh(stats), comp, "auto" if rng.random() < 0.5 else "exact")
    scn["bag"] = how
    mach = em.ISVMachine(ubm=ubm, r_U=1, em_iterations=1)
    sch = ReplayScheduler(rng=random.Random(seed), isolate=(mode == "Isolated"))

    def call():
        with dask.config.set(scheduler=sch):
            Xc, yc = mach._prepare_dask_input(bag, list(y) if y_as == "list" else np.array(y))
            return dask.compute(*Xc), yc
    ok, got = guarded(ck, reported, "M2:BagTrain:RegroupRaised", scn, call)
    if not ok:
        outcomes["regroup:raised"] += 1
        return
    try:
        lists = [[ids[bm.stat_key(s)] for s in cl] for cl in got[0]]
        ylists = [[int(v) for v in np.asarray(yy).ravel()] for yy in got[1]]
    except Exception:
        if not any("result of _prepare_dask_input" in s for s in ck.notes):
            ck.notes.append("the result of _prepare_dask_input no longer has the form (per-class delayed lists of "
                            "statistics, per-class label arrays): direct regrouping binding skipped")
        outcomes["regroup:skipped"] += 1
        return
    if lists != rec["lists"] or ylists != rec["ylists"]:
        outcomes["regroup:mismatch"] += 1
        reported["M2:BagTrain:RegroupIsPartitionByLabel"] += 1
        if reported["M2:BagTrain:RegroupIsPartitionByLabel"] <= MAX_REPORTED:
            ck.violation("M2:BagTrain:RegroupIsPartitionByLabel",
                         {"mechanism": "M2", "module": "BagTrain", "scenario": scn,
                          "expected": {"lists": rec["lists"], "ylists": rec["ylists"]},
                          "observed": {"lists": lists, "ylists": ylists}})
        return
    outcomes["regroup:ok"] += 1
    if K > 1 and bm.mixes_classes(y, comp):
        ck.sample({"mechanism": "M2", "scenario": scn, "expected_lists": rec["lists"], "verdict": "ok"}, limit=2)


def replay_fit(ck, em, rec, rng, reported, outcomes):
    import dask
    y, comp, K, kind, iters, mode = rec["y"], rec["comp"], rec["K"], rec["kind"], rec["iters"], rec["mode"]
    n = len(y)
    seed = rng.randrange(10 ** 6)
    y_as = rng.choice(("list", "array"))
    builder = "auto" if rng.random() < 0.6 else "exact"
    scn = {"what": "%s.fit" % kind, "y": y, "comp": comp, "kind": kind, "em_iterations": iters, "mode": mode,
           "orders": rec["orders"], "seed": seed, "y_as": y_as}
    ck.replayed += 1
    ck.seen(["fit", y, comp, kind, iters, mode, rec["orders"]])
    rs, ubm, stats, _ = problem(em, seed, n)
    r_U, r_V = int(rs.randint(1, 3)), int(rs.randint(1, 3))
    rstate = int(rs.randint(0, 1000))
    scn.update({"r_U": r_U, "r_V": r_V, "random_state": rstate})

    used_before = rng.random() < 0.4
    scn["machine_used_before_training"] = used_before

    def machine():
        if kind == "ISV":
            m = em.ISVMachine(ubm=ubm, r_U=r_U, em_iterations=iters, random_state=rstate)
        else:
            m = em.JFAMachine(ubm=ubm, r_U=r_U, r_V=r_V, em_iterations=iters, random_state=rstate)
        if used_before:
            # a machine with a past: its subspaces were assigned through the setters and it has enrolled and
            # scored a client before being trained (whatever it remembers must not reach the workers' copies)
            m.U = np.array(m.U) * 0.5 + 0.1
            model = m.enroll(bm.fresh(stats)[:2])
            m.score(model, bm.fresh(stats)[:1])
        return m

    def labels():
        return list(y) if y_as == "list" else np.array(y)
    attrs = ("U", "D") if kind == "ISV" else ("U", "V", "D")
    clause = "M2:BagTrain:FitRaised"
    ok, ref = guarded(ck, reported, clause, dict(scn, call="fit(list, y)"), lambda: machine().fit(bm.fresh(stats), labels()))
    if not ok:
        outcomes["fit:list-raised"] += 1
        return
    bag, how = build_bag(bm.fresh(stats), comp, builder)
    scn["bag"] = how
    sch = bm.ClassOrderScheduler(rec["orders"], K, isolate=(mode == "Isolated"), rng=random.Random(seed))

    def call():
        with dask.config.set(scheduler=sch):
            return machine().fit(bag, labels())
    ok, got = guarded(ck, reported, clause, dict(scn, call="fit(bag, y)"), call)
    if not ok:
        outcomes["fit:bag-raised"] += 1
        return
    if sch.consumed != len(rec["orders"]):
        outcomes["fit:orders-not-bound"] += 1
        if not any("E/M graphs" in s for s in ck.notes):
            ck.notes.append("fit(bag) submitted %d E/M graphs of the modelled shape where the model has %d: the E-step "
                            "orders of the remaining graphs were drawn from the seeded generator"
                            % (sch.consumed, len(rec["orders"])))
    errs = {a: rel_err(getattr(got, a), getattr(ref, a)) for a in attrs}
    bad = [a for a in attrs if not errs[a] <= TOL]
    if bad:
        # name the model clause: a stale attribute (equal to the initial / previous value) is HostFreshAfterIter,
        # anything else a wrong set of contributions
        init = machine()
        stale = [a for a in bad if rel_err(getattr(got, a), getattr(init, a)) <= TOL]
        name = "HostFreshAfterIter" if stale and mode == "Isolated" else "BagEqualsList"
        c = "M2:BagTrain:" + name
        outcomes["fit:mismatch"] += 1
        reported[c] += 1
        if reported[c] <= MAX_REPORTED:
            ck.violation(c, {"mechanism": "M2", "module": "BagTrain", "scenario": scn,
                             "expected_versions": rec["host"], "differing": bad, "relative_error": errs,
                             "expected": {a: np.asarray(getattr(ref, a)).tolist() for a in bad},
                             "observed": {a: np.asarray(getattr(got, a)).tolist() for a in bad}})
        return
    outcomes["fit:%s:%s:ok" % (kind, mode)] += 1
    # the same machine object fitted again on the same bag with ANOTHER assignment of the sessions to the classes
    # (same length, same number of classes): a second training depends on its own labels.  (An ISV / JFA fit on a
    # machine that has subspaces continues from them: both trainings are started from the same assigned values.)
    if K >= 2 and seed % 3 == 0 and not used_before:
        yb = [(int(v) + 1) % K for v in y][::-1]
        if sorted(set(yb)) == list(range(K)) and yb != list(y):
            start = machine()
            init_vals = {a: np.array(getattr(start, a), dtype=float) for a in attrs}

            def lab_b():
                return list(yb) if y_as == "list" else np.array(yb)

            def second(fit_input):
                m = machine()
                with dask.config.set(scheduler=bm.ClassOrderScheduler(rec["orders"], K, isolate=(mode == "Isolated"),
                                                                      rng=random.Random(seed + 1))):
                    m.fit(fit_input(), labels())
                    for a in attrs:
                        setattr(m, a, init_vals[a].copy())
                    m.fit(fit_input(), lab_b())
                return m
            ok1, ref2 = guarded(ck, reported, clause, dict(scn, call="fit(list, y); fit(list, y')"), lambda: second(lambda: bm.fresh(stats)))
            ok2, got2 = guarded(ck, reported, clause, dict(scn, call="fit(bag, y); fit(bag, y')"),
                                lambda: second(lambda: build_bag(bm.fresh(stats), comp, builder)[0]))
            if ok1 and ok2:
                errs2 = {a: rel_err(getattr(got2, a), getattr(ref2, a)) for a in attrs}
                if any(not errs2[a] <= TOL for a in attrs):
                    c = "M2:BagTrain:BagEqualsList"
                    reported[c] += 1
                    if reported[c] <= MAX_REPORTED:
                        ck.violation(c, {"mechanism": "M2", "module": "BagTrain", "scenario": dict(scn, second_labels=yb),
                                         "detail": "one machine fitted on the bag with labels y and then, from the same starting "
                                                   "subspaces, with labels y': differs from the same two fits on the list",
                                         "relative_error": errs2})
                    return
            outcomes["fit:refit-other-labels"] += 1
    if K == 3 and bm.mixes_classes(y, comp):
        ck.sample({"mechanism": "M2", "scenario": scn, "max_relative_error": errs, "verdict": "ok"}, limit=4)


def replay_ivector(ck, em, scn, trees, reported, outcomes):
    import dask
    comp, mode, iters, seed = scn["comp"], scn["mode"], scn["iters"], scn["seed"]
    n = sum(comp)
    L = len(comp)
    scn = dict(scn, what="IVectorMachine.fit")
    ck.replayed += 1
    ck.seen(["ivector", comp, mode, iters, seed])
    rs, ubm, stats, _ = problem(em, seed, n)
    dim_t = int(rs.randint(1, 3))
    scn["dim_t"] = dim_t
    if seed % 3 == 0:
        # a component that hardly any frame was assigned to (soft / pruned statistics): its total occupancy over the
        # whole training set is ~1e-7 -- anything that is not a sum over the statistics (a constant added per E-step
        # call, hence per partition) is no longer negligible against it
        eps_occ = 10.0 ** -float(rs.uniform(6, 9))
        for st in stats:
            st.n = np.array(st.n, dtype=float)
            st.sum_px, st.sum_pxx = np.array(st.sum_px, dtype=float), np.array(st.sum_pxx, dtype=float)
            st.n[0] *= eps_occ
            st.sum_px[0] *= eps_occ
            st.sum_pxx[0] *= eps_occ
        scn["component_0_occupancy_scaled_by"] = eps_occ

    # every second scenario with a configured variance floor high enough to be active (a quarter of the way up the
    # UBM's variances): the M-step on the bag must honour the estimator's own options like the one on the list
    kw = {}
    if seed % 2:
        kw["variance_floor"] = float(np.quantile(np.asarray(ubm.variances), 0.25))
        scn["variance_floor"] = kw["variance_floor"]

    def machine():
        return em.IVectorMachine(ubm=ubm, dim_t=dim_t, max_iterations=iters, update_sigma=scn["update_sigma"], **kw)

    def fit_list():
        np.random.seed(seed % (2 ** 31))
        return machine().fit(bm.fresh(stats))
    ok, ref = guarded(ck, reported, "M2:PairTree:FitRaised", dict(scn, call="fit(list)"), fit_list)
    if not ok:
        outcomes["ivector:list-raised"] += 1
        return
    bag, how = build_bag(bm.fresh(stats), comp, scn["builder"])
    scn["bag"] = how
    sch = ReplayScheduler(rng=random.Random(seed), isolate=(mode == "Isolated"))

    def fit_bag():
        np.random.seed(seed % (2 ** 31))
        with dask.config.set(scheduler=sch):
            return machine().fit(bag)
    ok, got = guarded(ck, reported, "M2:PairTree:FitRaised", dict(scn, call="fit(bag)"), fit_bag)
    if not ok:
        outcomes["ivector:bag-raised"] += 1
        return
    # soft binding of the tree shape (never a verdict: any reduction that counts every partition once is allowed)
    if L in trees and sch.graphs:
        binary = sum(1 for _, nd in sch.graphs[-1] if nd == 2)
        outcomes["ivector:tree-shape-%s" % ("as-modelled" if binary == trees[L]["adds"] else "different")] += 1
    errs = {"T": rel_err(got.T, ref.T), "sigma": rel_err(got.sigma, ref.sigma)}
    bad = [a for a in ("T", "sigma") if not errs[a] <= TOL]
    if bad:
        # a sigma still equal to its initial value (the UBM variances) is a stale attribute; anything else means
        # that the M-steps did not receive the same contributions as in the list fit
        stale = "sigma" in bad and rel_err(got.sigma, ubm.variances) <= TOL
        c = "M2:PairTree:" + ("HostFreshAfterIter" if stale else "BagEqualsList")
        outcomes["ivector:mismatch"] += 1
        reported[c] += 1
        if reported[c] <= MAX_REPORTED:
            ck.violation(c, {"mechanism": "M2", "module": "PairTree", "scenario": scn, "partitions": L,
                             "differing": bad, "relative_error": errs,
                             "expected": {a: np.asarray(getattr(ref, a)).tolist() for a in bad},
                             "observed": {a: np.asarray(getattr(got, a)).tolist() for a in bad}})
        return
    # the statistics container's two additions agree (the tree reduction uses `+`; `+=` is the public in-place form)
    if n >= 2:
        from bob.learn.em.ivector import e_step as iv_e_step
        a, b = iv_e_step(ref, bm.fresh(stats)[:n // 2]), iv_e_step(ref, bm.fresh(stats)[n // 2:])
        tot = a + b
        acc = copy.deepcopy(a)
        acc += b
        whole = iv_e_step(ref, bm.fresh(stats))
        fields = ("nij_sigma_wij2", "fnorm_sigma_wij", "snormij", "nij")
        bad = [f for f in fields if not (rel_err(getattr(acc, f), getattr(tot, f)) <= TOL and rel_err(getattr(tot, f), getattr(whole, f)) <= TOL)]
        if bad:
            c = "M2:PairTree:StatsAdditionsAgree"
            reported[c] += 1
            if reported[c] <= MAX_REPORTED:
                ck.violation(c, {"mechanism": "M2", "module": "PairTree", "scenario": scn, "differing": bad,
                                 "detail": "IVectorStats: a + b, a += b and the E-step of the whole list disagree"})
            return
    outcomes["ivector:%s:ok" % mode] += 1
    if L % 2 == 1 and L >= 3:
        ck.sample({"mechanism": "M2", "scenario": scn, "max_relative_error": errs, "verdict": "ok"}, limit=6)
