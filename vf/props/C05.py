"""C05 - MAP adaptation interpolates between the prior model and the data by relevance.

M1  specs/GmmMStep.tla (MAP): Reynolds blend written as normal equations of the relevance-penalised
    objective, fixed-ratio blend, renormalised weights, no-evidence components keep the prior, relevance
    limits as rational inequalities, simplex / floor / affine equivariance, for all switch sets.
    The deviation MAP_VAR_PRIOR_MEAN_NOT_SQUARED (what the code does) must be refuted by TLC.
M2  map_gmm_m_step replayed on every exported state, against the intended model; a mismatch that equals the
    deviating model exactly is the listed finding D4, anything else is a violation.  On seeded real data:
    one-iteration fit against the blend computed from prior.acc_stats(X); relevance 1e12 / 1e-12 limits.
M3  means-only MAP runs: rank of the relevance-penalised likelihood never falls (specs/TraceLoop.tla)."""
import random

import numpy as np

from .. import gmm_mstep_model as gm
from .. import gmm_train as gt
from .. import traces
from ..common import pin_repo


def run(ck):
    em = pin_repo()
    rng = random.Random(ck.seed)
    quick = ck.tier == "quick"
    ck.assumptions += ["the no-evidence clause is demanded for means and variances; a no-evidence component's weight is its "
                       "prior weight divided by the common renormalisation factor, as the statement's 'same blend renormalised'",
                       "for MAP with frozen means and adapted variances Reynolds' formula is not shift-equivariant by itself; "
                       "C05's formula is demanded there, C15's equivariance is not",
                       "penalised objective for means-only MAP: sum_i log p(x_i) - sum_cj r (mu_cj - mu0_cj)^2 / (2 var_cj)"]
    smp = gm.samples(3)
    smp = rng.sample(smp, 30 if quick else 120)
    recs = gm.model_run(ck, "mstep-map", smp, ["map"], coverage=not quick)
    ck.exhaustive = True
    devrecs = gm.model_run(ck, "as-implemented:MAP_VAR_PRIOR_MEAN_NOT_SQUARED", smp, ["map"],
                           dev=["MAP_VAR_PRIOR_MEAN_NOT_SQUARED"], invariants=[], coverage=False)
    gm.model_run(ck, "deviation:MAP_VAR_PRIOR_MEAN_NOT_SQUARED", smp[:30], ["map"], dev=["MAP_VAR_PRIOR_MEAN_NOT_SQUARED"],
                 expect_violation=True, export=False, invariants=["MAPIsBlend", "MAPFixedAlpha", "NoEvidenceKeepsPrior"])
    asimpl = {gm.scenario_key(r): r for r in devrecs}
    limit = 3000 if quick else 20000
    if len(recs) > limit:
        recs = rng.sample(recs, limit)
    for rec in recs:
        got = gm.run_real(em, rec)
        bad = gm.compare(rec, got)
        ck.replayed += 1
        ck.seen(gm.scenario_key(rec))
        scn = {k: rec[k] for k in ("smp", "mu0", "var0", "w0", "rel", "vfl", "uw", "um", "uv", "n", "px", "pxx")}
        if not bad:
            ck.sample({"mechanism": "M2", "scenario": scn, "verdict": "ok"}, limit=3)
            continue
        rep = {"mechanism": "M2", "module": "GmmMStep", "scenario": scn,
               "expected": {k: rec[k] for k in ("w", "mu", "var")}, "detail": bad[1]}
        dv = asimpl.get(gm.scenario_key(rec))
        if bad[0] == "Variances" and rec["uv"] and dv is not None and gm.compare(dv, got) is None:
            # weights and means match the intended model (compare() checks them first); the variances are those of
            # the as-implemented model exactly
            w_ok = all(rec[k] == dv[k] for k in ("w", "mu"))
            if w_ok:
                ck.finding("D4", "M2:GmmMStep:MAP.Variances", rep)
                continue
        ck.violation("M2:GmmMStep:MAP." + bad[0], rep)
    real_data(ck, em, rng, 30 if quick else 300)
    m3(ck, em, rng, 30 if quick else 500)


def blend(prior, st, rel, um, uv, uw, second_moment_squared=True, alpha=None):
    """Reynolds adaptation (or the fixed ratio alpha) computed directly from the statistics (float arithmetic)."""
    n = np.asarray(st.n, dtype=float)
    a = n / (n + rel) if alpha is None else np.full_like(n, alpha)
    w0, m0, v0 = np.asarray(prior.weights), np.asarray(prior.means), np.asarray(prior.variances)
    w = a * n / st.t + (1 - a) * w0
    w = w / w.sum() if uw else w0
    ex = np.asarray(st.sum_px) / np.maximum(n, 1e-300)[:, None]
    mu = a[:, None] * ex + (1 - a[:, None]) * m0 if um else m0
    p2 = v0 + (m0 ** 2 if second_moment_squared else m0)
    var = a[:, None] * np.asarray(st.sum_pxx) / np.maximum(n, 1e-300)[:, None] + (1 - a[:, None]) * p2 - mu ** 2 if uv else v0
    return w, mu, var


def real_data(ck, em, rng, count):
    for i in range(count):
        seed = rng.randrange(10 ** 6)
        r = np.random.RandomState(seed)
        X, init = gt.make_problem(r)
        prior = em.GMMMachine(len(init["weights"]))
        prior.weights, prior.means, prior.variances = init["weights"], init["means"], init["variances"]
        sw = gt.SWITCHES[1 + i % 7]
        um, uv, uw = sw
        rel = float([0.5, 4.0, 50.0][i % 3])
        st = prior.acc_stats(X)
        alpha = None
        if i % 4 == 3:
            # the fixed configured ratio through the estimator: map_relevance_factor=None, map_alpha=a
            alpha = [0.0, 0.1, 0.25, 0.75, 0.9, 1.0][(i // 4) % 6]
            chunks = None if i % 8 == 3 else (len(X) // 2, len(X) - len(X) // 2)
            m = gt.fit(gt.new_machine(em, init, 1, None, sw, "map", prior, None, alpha=alpha), X, chunks)
            w, mu, var = blend(prior, st, rel, um, uv, uw, alpha=alpha)
        else:
            m0 = gt.new_machine(em, init, 1, None, sw, "map", prior, rel, switched=(i % 3 == 1))
            if i % 5 == 4:
                # the machine is written to a file and read back before it is adapted (its settings then are what the
                # reader made of them, e.g. NumPy scalars)
                import os
                path = os.path.join(ck.work, "map%d.hdf5" % i)
                m0.save(path)
                m0 = em.GMMMachine.from_hdf5(path, ubm=prior)
                m0.map_relevance_factor = rel
                os.remove(path)
            m = gt.fit(m0, X)
            w, mu, var = blend(prior, st, rel, um, uv, uw)
        fl = np.asarray(m.variance_thresholds, dtype=float)
        var = np.maximum(var, fl)
        ck.replayed += 1
        ck.seen(["real", seed])
        meta = {"seed": seed, "switches(um,uv,uw)": sw, "relevance": rel if alpha is None else None, "fixed_ratio": alpha,
                "n": np.asarray(st.n).tolist()}
        if not (np.allclose(m.weights, w, rtol=1e-9, atol=1e-12) and np.allclose(m.means, mu, rtol=1e-9, atol=1e-12)):
            ck.violation("M2:GmmMStep:MAP.RealData.MeansWeights", {"mechanism": "M2", "meta": meta,
                                                                  "detail": "one-iteration MAP fit differs from the Reynolds blend of prior.acc_stats(X)"})
            continue
        if uv and not np.allclose(m.variances, var, rtol=1e-9, atol=1e-12):
            w2, mu2, var2 = blend(prior, st, rel, um, uv, uw, second_moment_squared=False, alpha=alpha)
            rep = {"mechanism": "M2", "meta": meta, "detail": "adapted variances %s, Reynolds blend %s" % (np.asarray(m.variances).tolist(), var.tolist())}
            if np.allclose(m.variances, np.maximum(var2, fl), rtol=1e-9, atol=1e-12):
                ck.finding("D4", "M2:GmmMStep:MAP.RealData.Variances", rep)
            else:
                ck.violation("M2:GmmMStep:MAP.RealData.Variances", rep)
            continue
        # one machine object adapted to one client, re-initialised (initialize_gaussians() puts the prior back), adapted
        # to the next: the second adaptation is the blend of the PRIOR with the second client's data
        if i % 3 == 2:
            XA = X[: len(X) // 2] + 0.7
            swm = (True, False, True)
            mm = gt.new_machine(em, init, 1, None, swm, "map", prior, rel)
            gt.fit(mm, XA)
            mm.initialize_gaussians()
            gt.fit(mm, X)
            w2, mu2, _ = blend(prior, st, rel, True, False, True)
            if not (np.allclose(mm.weights, w2, rtol=1e-9, atol=1e-12) and np.allclose(mm.means, mu2, rtol=1e-9, atol=1e-12)):
                ck.violation("M2:GmmMStep:MAP.RealData.AfterReinitialisation",
                             {"mechanism": "M2", "meta": meta, "detail": "a machine adapted to another client, re-initialised and adapted "
                              "to this data differs from the blend of the prior with this data: weights %s (blend %s)"
                              % (np.asarray(mm.weights).tolist(), w2.tolist())})
                continue
        # limits: huge relevance -> prior, vanishing relevance -> ML estimate (means and weights)
        big = gt.fit(gt.new_machine(em, init, 1, None, (True, False, True), "map", prior, 1e12), X)
        if not (np.allclose(big.means, prior.means, rtol=0, atol=1e-6) and np.allclose(big.weights, prior.weights, rtol=0, atol=1e-6)):
            ck.violation("M2:GmmMStep:MAP.LargeRGivesPrior", {"mechanism": "M2", "meta": meta, "detail": "relevance 1e12 does not return the prior"})
            continue
        tiny = gt.fit(gt.new_machine(em, init, 1, None, (True, False, True), "map", prior, 1e-12), X)
        n = np.asarray(st.n)
        seen_c = n > 1e-6
        mlm = np.asarray(st.sum_px)[seen_c] / n[seen_c, None]
        if not (np.allclose(np.asarray(tiny.means)[seen_c], mlm, rtol=1e-6, atol=1e-6)
                and np.allclose(np.asarray(tiny.weights)[seen_c], (n / st.t)[seen_c] / 1.0, rtol=1e-5, atol=1e-6)):
            ck.violation("M2:GmmMStep:MAP.SmallRGivesML", {"mechanism": "M2", "meta": meta, "detail": "relevance 1e-12 does not return the ML estimate"})


def m3(ck, em, rng, count):
    trs, meta = [], []
    for t in range(count):
        seed = rng.randrange(10 ** 6)
        r = np.random.RandomState(seed)
        X, init = gt.make_problem(r)
        prior = em.GMMMachine(len(init["weights"]))
        prior.weights, prior.means, prior.variances = init["weights"], init["means"], init["variances"]
        rel = float([0.5, 4.0, 50.0][t % 3])
        cap = int(r.randint(2, 7))
        thr = [None, 1e-5, 1e-3][r.randint(0, 3)]
        sw = (True, False, False)
        chunks = None
        if r.rand() < 0.3:
            n = len(X)
            cut = sorted(set(r.randint(1, n, size=2).tolist()))
            chunks = tuple(int(s) for s in np.diff([0] + cut + [n]))

        def obj(m):
            pen = rel * np.sum((np.asarray(m.means) - np.asarray(prior.means)) ** 2 / (2 * np.asarray(prior.variances)))
            return float(np.asarray(m.log_likelihood(X)).sum() - pen)
        ms, A = gt.trajectory(em, X, init, cap, sw, obj, chunks, trainer="map", prior=prior, rel=rel)
        final = gt.fit(gt.new_machine(em, init, cap, thr, sw, "map", prior, rel, switched=(t % 3 == 2)), X, chunks)
        tr = gt.build_trace("gmm-map", ms, A, X, cap, thr, final)
        trs.append(tr)
        meta.append({"seed": seed, "n": len(X), "C": len(init["weights"]), "relevance": rel, "cap": cap, "thr": thr,
                     "chunks": chunks, "penalised_objective": A})
    verdicts = traces.validate(ck, "gmmmap", ck.work, trs)
    for tr, me, (v, pos) in zip(trs, meta, verdicts):
        ck.replayed += 1
        ck.seen(["M3", me["seed"]])
        if v == "ok":
            ck.sample({"mechanism": "M3", "trace": tr["ev"][:2], "meta": {k: me[k] for k in ("seed", "n", "C", "relevance", "cap")}}, limit=8)
        else:
            ck.violation("M3:TraceLoop:" + v, {"mechanism": "M3", "module": "TraceLoop", "trace": tr, "meta": me,
                                               "rejected_at_event": pos})
    ck.extra["m3_traces"] = len(trs)
