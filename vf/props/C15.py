"""C15 - training is equivariant, scoring invariant, under affine feature rescaling / shift.

M1  the exact affine laws of the design modules, each checked by TLC on its small domain:
    GmmMStep.AffineEquivariant (ML and MAP M-steps), KMeans.Equivariant (translations, 90-degree rotations,
    uniform scaling), GmmDensity.AffineShift (log-likelihood shifts by -sum log|a|),
    LinearScoring.AffineInvariant, FaLatent.AffineInvariant (latent factors), IVector.AffineInvariant.
    The deviation MAP_VAR_PRIOR_MEAN_NOT_SQUARED breaks GmmMStep.AffineEquivariant under shifts (refuted).
M2/M3  metamorphic pairs on the real code with seeded real-valued data, per-feature scales from 1e-3 to 1e3
    incl. negative ones and shifts: GMM ML / MAP training, log-likelihoods, k-means (random rotation,
    uniform scale, translation), linear scores, ISV / JFA enrolment, channel factors, scores, client means and
    training, i-vectors and i-vector training.  Each identity is a fact of a trace validated by TLC
    (specs/TraceFacts.tla).  The MAP variance blend is compared with the as-implemented formula: an exact
    match is the listed finding D4, anything else a violation."""
import random
from fractions import Fraction as F

import numpy as np

from .. import falatent_model as fl
from .. import gmm_mstep_model as gm
from .. import ivector_model as iv
from .. import kmeans_model as km
from .. import linscore_model as lm
from .. import traces
from ..common import pin_repo
from . import C01, C05


def run(ck):
    em = pin_repo()
    rng = random.Random(ck.seed)
    quick = ck.tier == "quick"
    ck.assumptions += ["relative tolerance 1e-6 on quantities mapped back to the original units (conditioning of the "
                       "transformed problem), scales |a| in [1e-3, 1e3], shifts of up to ~1e3 units of the NEW scale (E[x^2] - mean^2 "
                       "loses eps * (shift / spread)^2 in any implementation)",
                       "variance floors transform with the features (GmmMStep.AffineEquivariant): the pairs run with the negligible "
                       "defaults and, for ML training, with a binding user-set floor t -> a^2 t given per feature or per cell",
                       "MAP with frozen means and adapted variances is excluded: C05's formula is not shift-equivariant there"]
    # ---------------- M1
    smp = rng.sample(gm.samples(3), 40 if quick else 200)
    gm.model_run(ck, "GmmMStep.AffineEquivariant", smp, ["ml", "map"], invariants=["AffineEquivariant"], export=False,
                 coverage=not quick)
    gm.model_run(ck, "deviation:MAP_VAR_PRIOR_MEAN_NOT_SQUARED", smp[:15], ["map"], dev=["MAP_VAR_PRIOR_MEAN_NOT_SQUARED"],
                 invariants=["AffineEquivariant"], export=False, expect_violation=True)
    vals = [0, 1, 2, 3, 5]
    km.model_run(ck, "KMeans.Equivariant-1d", ck.work, 4, 1, 2, rng.sample(km.datasets(4, 1, vals), 25 if quick else 70),
                 km.initsets(2, 1, vals), [(4,)], [3], [F(-1)], properties=["Equivariant"], invariants=[], export=False)
    km.model_run(ck, "KMeans.Equivariant-2d", ck.work, 4, 2, 2, rng.sample(km.datasets(4, 2, [0, 1, 3]), 25 if quick else 100),
                 rng.sample(km.initsets(2, 2, [0, 1, 3]), 6 if quick else 20), [(4,)], [3], [F(-1)],
                 properties=["Equivariant"], invariants=[], export=False)
    ms = C01.machines(rng, 2, 2, 5 if quick else 40)
    C01.model(ck, "GmmDensity.AffineShift", 2, 2, ms, [((0, 1), (-3, 90)), ((1, 0),)], export=False)
    dom = lm.domain(rng, 2, 2, 2 if quick else 5, 3 if quick else 8, 6 if quick else 16, 2)
    lm.model_run(ck, "LinearScoring.AffineInvariant", dom, invariants=["AffineInvariant"], export=False)
    for C, H, jfa in ((1, 2, True), (2, 1, True), (2, 2, False)):
        fl.model_run(ck, "FaLatent.AffineInvariant-C%d-H%d-%s" % (C, H, "jfa" if jfa else "isv"),
                     fl.fixed_configs(C, H, jfa, 8 if quick else 120, salt=ck.seed), invariants=[],
                     properties=["AffineInvariant"])
    from .C10 import AFFS, MV, RV, SV, TV, XV
    pool = iv.stat_pool(2, 1, XV, RV, 2)
    scns = [iv.random_scenario(rng, 2, 1, 1, pool, MV, TV, SV) for _ in range(80 if quick else 400)]
    iv.model_run(ck, "IVector.AffineInvariant", 2, 1, 1, F(1, 4), AFFS, scenarios=scns, invariants=["AffineInvariant"],
                 export=False)
    ck.exhaustive = True
    # ---------------- M2 / M3
    pairs(ck, em, rng, 30 if quick else 200)


def pairs(ck, em, rng, count):
    from bob.learn.em.ivector import e_step as iv_e, m_step as iv_m
    trs, meta = [], []
    for t in range(count):
        seed = rng.randrange(10 ** 6)
        r = np.random.RandomState(seed)
        C, D = int(r.randint(1, 4)), int(r.randint(1, 4))
        n = int(r.randint(15, 50))
        a = 10.0 ** r.uniform(-3, 3, size=D) * r.choice([-1.0, 1.0], size=D)
        # shifts of up to a few hundred new units of spread: the library computes variances as E[x^2] - mean^2, whose
        # rounding error grows as eps * (shift / spread)^2 -- a shift of 1e5 spreads (seen once in the thorough tier:
        # scale -1e-3 with shift 134) costs ten digits whatever the code does, and is not what C15 is about
        b = np.abs(a) * r.normal(size=D) * 10.0 ** r.uniform(-1, 2.5)
        if t % 5 == 0:
            b = np.zeros(D)
        centres = r.normal(size=(C, D)) * 3
        X = centres[r.randint(0, C, size=n)] + r.normal(size=(n, D))
        Xt = X * a + b
        w0 = r.uniform(0.3, 1, size=C)
        w0 /= w0.sum()
        mu0 = centres + r.normal(size=(C, D)) * 0.5
        v0 = r.uniform(0.5, 2.5, size=(C, D))
        ev = []
        me = {"seed": seed, "C": C, "D": D, "n": n, "scale": a.tolist(), "shift": b.tolist()}

        def fact(name, ok, detail=None):
            ev.append({"name": name, "ok": bool(ok)})
            if not ok and detail is not None:
                me.setdefault("failed", {})[name] = detail

        def rel(x, y, tol=1e-6):
            x, y = np.asarray(x, dtype=float), np.asarray(y, dtype=float)
            return x.shape == y.shape and np.all(np.isfinite(x)) and np.all(np.abs(x - y) <= tol * np.maximum(1.0, np.maximum(np.abs(x), np.abs(y))))

        def gmm(Xd, mu, var, trainer="ml", prior=None, sw=(True, True, True), cap=3, relf=4.0):
            um, uv, uw = sw
            kw = dict(max_fitting_steps=cap, convergence_threshold=None, update_means=um, update_variances=uv, update_weights=uw)
            if trainer == "map":
                m = em.GMMMachine(C, trainer="map", ubm=prior, map_relevance_factor=relf, **kw)
            else:
                m = em.GMMMachine(C, **kw)
                m.weights, m.means, m.variances = w0.copy(), mu.copy(), var.copy()
            return m.fit(Xd)

        def mk(mu, var):
            g = em.GMMMachine(C)
            g.weights, g.means, g.variances = w0.copy(), mu.copy(), var.copy()
            return g
        try:
            # ---- GMM ML
            sw = [(True, True, True), (True, False, False), (True, True, False), (False, True, True)][t % 4]
            m1 = gmm(X, mu0, v0, sw=sw)
            m2 = gmm(Xt, mu0 * a + b, v0 * a ** 2, sw=sw)
            fact("GmmML.means", rel((np.asarray(m2.means) - b) / a, m1.means), "switches %s" % (sw,))
            fact("GmmML.variances", rel(np.asarray(m2.variances) / a ** 2, m1.variances))
            fact("GmmML.weights", rel(m2.weights, m1.weights))
            l1, l2 = np.asarray(m1.log_likelihood(X)), np.asarray(m2.log_likelihood(Xt))
            fact("LogLikelihoodShift", rel(l2 + np.sum(np.log(np.abs(a))), l1, 1e-6))
            # ---- a component AT the origin of the original features (all-zero means are a legitimate parameter); in the
            # other units the same component sits at b
            z1 = gmm(X, np.zeros_like(mu0), v0, sw=(False, True, True))
            z2 = gmm(Xt, np.zeros_like(mu0) * a + b, v0 * a ** 2, sw=(False, True, True))
            fact("GmmML.means_at_origin.means", rel((np.asarray(z2.means) - b) / a, z1.means))
            fact("GmmML.means_at_origin.variances", rel(np.asarray(z2.variances) / a ** 2, z1.variances))
            fact("GmmML.means_at_origin.weights", rel(z2.weights, z1.weights))
            # ---- the same with a variance floor that binds: one cluster is flat along one feature and the floor is a
            # user-set t in the original units, i.e. the per-feature floors a^2 t after the change of units, given as a
            # 1-D array of one floor per feature or as the full (C, D) array (GmmMStep.AffineEquivariant transforms
            # the floors with the features)
            lab = np.argmin(((X[:, None, :] - centres[None]) ** 2).sum(-1), axis=1)
            cs, js = int(r.randint(0, C)), int(r.randint(0, D))
            Xf = X.copy()
            Xf[lab == cs, js] = centres[cs, js]
            tfl = float(r.choice([0.05, 0.3, 1.0]))

            def floored(Xd, mu, var, floors):
                m = em.GMMMachine(C, max_fitting_steps=3, convergence_threshold=None, update_means=True,
                                  update_variances=True, update_weights=True)
                m.variance_thresholds = floors
                m.weights, m.means, m.variances = w0.copy(), mu.copy(), var.copy()
                return m.fit(Xd)
            f1 = floored(Xf, mu0, v0, tfl)
            me["floor"] = {"t": tfl, "binds": bool(np.any(np.asarray(f1.variances) <= tfl * (1 + 1e-12)))}
            for form, fl in (("one floor per feature (1-D)", tfl * a ** 2),
                             ("full (C, D) array", np.tile(tfl * a ** 2, (C, 1)))):
                f2 = floored(Xf * a + b, mu0 * a + b, v0 * a ** 2, fl)
                fact("GmmML.floored.means", rel((np.asarray(f2.means) - b) / a, f1.means), form)
                fact("GmmML.floored.variances", rel(np.asarray(f2.variances) / a ** 2, f1.variances), form)
                fact("GmmML.floored.weights", rel(f2.weights, f1.weights), form)
            # a far origin, through the NumPy and the Dask evaluation paths
            import dask
            import dask.array as da
            Bf = float(r.choice([1e6, -4e6]))
            m3 = mk(np.asarray(m1.means) + Bf, np.asarray(m1.variances))
            m3.weights = np.array(m1.weights)
            fact("LogLikelihoodFarOrigin.numpy", rel(np.asarray(m3.log_likelihood(X + Bf)), l1, 1e-6))
            with dask.config.set(scheduler="synchronous"):
                ld = np.asarray(m3.log_likelihood(da.from_array(X + Bf, chunks=(max(1, n // 3), D))).compute())
            fact("LogLikelihoodFarOrigin.dask", rel(ld, l1, 1e-6), "offset %g" % Bf)
            # ---- GMM MAP (means / weights; variances through the as-implemented formula)
            p1, p2 = mk(mu0, v0), mk(mu0 * a + b, v0 * a ** 2)
            q1 = gmm(X, None, None, "map", p1, (True, False, True), cap=3)
            q2 = gmm(Xt, None, None, "map", p2, (True, False, True), cap=3)
            fact("GmmMAP.means", rel((np.asarray(q2.means) - b) / a, q1.means))
            fact("GmmMAP.weights", rel(q2.weights, q1.weights))
            q1 = gmm(X, None, None, "map", p1, (True, True, True), cap=1)
            q2 = gmm(Xt, None, None, "map", p2, (True, True, True), cap=1)
            okv = rel(np.asarray(q2.variances) / a ** 2, q1.variances)
            if okv:
                fact("GmmMAP.variances", True)
            else:
                # is it exactly the listed defect?  (the as-implemented blend on both problems)
                fl1 = np.asarray(q1.variance_thresholds, dtype=float)
                e1 = np.maximum(C05.blend(p1, p1.acc_stats(X), 4.0, True, True, True, second_moment_squared=False)[2], fl1)
                e2 = np.maximum(C05.blend(p2, p2.acc_stats(Xt), 4.0, True, True, True, second_moment_squared=False)[2], fl1)
                if np.allclose(q1.variances, e1, rtol=1e-8, atol=1e-300) and np.allclose(q2.variances, e2, rtol=1e-8, atol=1e-300):
                    ck.finding("D4", "M3:TraceFacts:GmmMAP.variances",
                               {"mechanism": "M3", "meta": dict(me), "detail": "MAP variances %s on x, %s on a*x+b (in original units)"
                                % (np.asarray(q1.variances).tolist(), (np.asarray(q2.variances) / a ** 2).tolist())})
                else:
                    fact("GmmMAP.variances", False, "not equivariant and not the as-implemented blend either")
            # ---- k-means: rotation, uniform scale, translation
            Q = np.linalg.qr(r.normal(size=(D, D)))[0]
            s = float(10.0 ** r.uniform(-2, 2))
            tv = r.normal(size=D) * 5
            K = int(r.randint(2, 4))
            init = X[r.choice(n, size=K, replace=False)] + 0.01
            k1 = em.KMeansMachine(K, init_method=init.copy(), max_iter=4, convergence_threshold=None).fit(X)
            k2 = em.KMeansMachine(K, init_method=(init @ Q) * s + tv, max_iter=4, convergence_threshold=None).fit((X @ Q) * s + tv)
            if np.all(np.isfinite(np.asarray(k1.centroids_))):
                fact("KMeans.centroids", rel((np.asarray(k2.centroids_) - tv) / s @ Q.T, k1.centroids_, 1e-6))
                fact("KMeans.criterion", rel([k2.average_min_distance / s ** 2], [k1.average_min_distance], 1e-6))
            # a cluster that captures nothing (its initial centroid is far from every sample), with as many clusters as
            # features: the centroids still follow the rotation / scaling / translation
            if D >= 2:
                far = np.vstack([X[r.choice(n, size=D - 1, replace=False)] + 0.01, X.mean(axis=0) + 60.0 + r.normal(size=D)])
                far = far[r.permutation(D)]
                e1 = em.KMeansMachine(D, init_method=far.copy(), max_iter=3, convergence_threshold=None).fit(X)
                e2 = em.KMeansMachine(D, init_method=(far @ Q) * s + tv, max_iter=3, convergence_threshold=None).fit((X @ Q) * s + tv)
                if np.all(np.isfinite(np.asarray(e1.centroids_))):
                    fact("KMeans.centroids.empty_cluster", rel((np.asarray(e2.centroids_) - tv) / s @ Q.T, e1.centroids_, 1e-6),
                         "K = D = %d, one initial centroid far from the data" % D)
            # trained to convergence (the stopping rule is relative, so the units must not matter)
            s3 = float(10.0 ** r.uniform(-4.5, 3))
            k3 = em.KMeansMachine(K, init_method=init.copy(), max_iter=200, convergence_threshold=1e-5).fit(X)
            k4 = em.KMeansMachine(K, init_method=init * s3, max_iter=200, convergence_threshold=1e-5).fit(X * s3)
            if np.all(np.isfinite(np.asarray(k3.centroids_))):
                fact("KMeans.converged_centroids", rel(np.asarray(k4.centroids_) / s3, k3.centroids_, 1e-6), "scale %g" % s3)
            # ---- linear scoring
            u1, u2 = mk(mu0, v0), mk(mu0 * a + b, v0 * a ** 2)
            models = r.normal(size=(2, C, D)) * 2
            Xp = [X[: n // 2], X[n // 2:]]
            st1 = [u1.acc_stats(x) for x in Xp]
            st2 = [u2.acc_stats(x * a + b) for x in Xp]
            off = r.normal(size=(2, C, D))
            for norm in (False, True):
                s1 = em.linear_scoring(models, u1, st1, off, norm)
                s2 = em.linear_scoring(models * a + b, u2, st2, off * a, norm)
                fact("LinearScore" + (".normalised" if norm else ""), rel(s2, s1, 1e-6))
            # ---- ISV / JFA
            rU, rV = int(r.randint(1, 3)), int(r.randint(1, 3))
            U = r.normal(size=(C * D, rU))
            V = r.normal(size=(C * D, rV))
            Dd = r.uniform(0.2, 1.5, size=C * D)
            at = np.tile(a, C)
            sessions = [X[i::3] for i in range(3)]
            g1 = [u1.acc_stats(x) for x in sessions]
            g2 = [u2.acc_stats(x * a + b) for x in sessions]
            for kind in ("isv", "jfa"):
                def fa(ubm, Um, Vm, Dm, it=2, emit=1):
                    m = em.ISVMachine(r_U=rU, ubm=ubm, em_iterations=emit) if kind == "isv" else em.JFAMachine(r_U=rU, r_V=rV, ubm=ubm, em_iterations=emit)
                    m.U = Um.copy()
                    m.D = Dm.copy()
                    if kind == "jfa":
                        m.V = Vm.copy()
                    m.enroll_iterations = it
                    return m
                f1, f2 = fa(u1, U, V, Dd), fa(u2, U * at[:, None], V * at[:, None], Dd * at)
                e1, e2 = f1.enroll(g1), f2.enroll(g2)
                if kind == "isv":
                    fact("ISV.z", rel(e2, e1))
                    cm1 = f1.mean_supervector + f1.D * np.ravel(e1)
                    cm2 = f2.mean_supervector + f2.D * np.ravel(e2)
                else:
                    fact("JFA.y", rel(e2[0], e1[0]))
                    fact("JFA.z", rel(e2[1], e1[1]))
                    cm1 = f1.mean_supervector + f1.V @ e1[0] + f1.D * e1[1]
                    cm2 = f2.mean_supervector + f2.V @ e2[0] + f2.D * e2[1]
                fact(kind.upper() + ".client_mean", rel((cm2 - np.tile(b, C)) / at, cm1))
                fact(kind.upper() + ".x", rel(f2.estimate_x(g2[:2]), f1.estimate_x(g1[:2])))
                fact(kind.upper() + ".score", rel([f2.score(e2, g2[:2])], [f1.score(e1, g1[:2])]))
                yy = [0, 1, 0]
                t1 = fa(u1, U, V, Dd, emit=2).fit(g1, yy)
                t2 = fa(u2, U * at[:, None], V * at[:, None], Dd * at, emit=2).fit(g2, yy)
                fact(kind.upper() + ".trained_U", rel(np.asarray(t2.U) / at[:, None], t1.U))
                if kind == "jfa":
                    fact("JFA.trained_V", rel(np.asarray(t2.V) / at[:, None], t1.V))
                    fact("JFA.trained_D", rel(np.asarray(t2.D) / at, t1.D))
            # ---- scoring in widely different units (1e-6.5 ... 1e5 per feature; no training involved, so the library's
            # ABSOLUTE default variance floor of one machine epsilon stays far below every variance): an absolute
            # constant next to a unit-carrying quantity -- an epsilon in a denominator, a ridge -- shows here
            aw = 10.0 ** r.uniform(-6.5, 5, size=D) * r.choice([-1.0, 1.0], size=D)
            atw = np.tile(aw, C)
            u3 = mk(mu0 * aw, v0 * aw ** 2)
            st3 = [u3.acc_stats(x * aw) for x in Xp]
            for norm in (False, True):
                s1 = em.linear_scoring(models, u1, st1, off, norm)
                s3 = em.linear_scoring(models * aw, u3, st3, off * aw, norm)
                fact("LinearScore.wide_units" + (".normalised" if norm else ""), rel(s3, s1, 1e-6), "scales %s" % aw.tolist())
            g3 = [u3.acc_stats(x * aw) for x in sessions]
            for kind in ("isv", "jfa"):
                def fa3(ubm, sc):
                    m = em.ISVMachine(r_U=rU, ubm=ubm) if kind == "isv" else em.JFAMachine(r_U=rU, r_V=rV, ubm=ubm)
                    m.U = U * sc[:, None]
                    m.D = Dd * sc
                    if kind == "jfa":
                        m.V = V * sc[:, None]
                    m.enroll_iterations = 2
                    return m
                f1, f3 = fa3(u1, np.ones(C * D)), fa3(u3, atw)
                e1, e3 = f1.enroll(g1), f3.enroll(g3)
                fact(kind.upper() + ".score.wide_units", rel([f3.score(e3, g3[:2])], [f1.score(e1, g1[:2])], 1e-6), "scales %s" % aw.tolist())
                fact(kind.upper() + ".x.wide_units", rel(f3.estimate_x(g3[:2]), f1.estimate_x(g1[:2]), 1e-6))
            # ---- i-vector
            dt = int(r.randint(1, 3))
            T0 = r.normal(size=(C, D, dt))

            def ivm(ubm, T, sg):
                m = em.IVectorMachine(ubm, dim_t=dt, max_iterations=1)
                m.dim_c, m.dim_d = C, D
                m.T, m.sigma = T.copy(), sg.copy()
                return m
            i1, i2 = ivm(u1, T0, v0), ivm(u2, T0 * a[None, :, None], v0 * a ** 2)
            fact("IVector.project", rel(i2.project(g2[0]), i1.project(g1[0])))
            for _ in range(2):
                iv_m(i1, iv_e(i1, g1))
                iv_m(i2, iv_e(i2, g2))
            fact("IVector.trained_T", rel(np.asarray(i2.T) / a[None, :, None], i1.T))
            fact("IVector.trained_sigma", rel(np.asarray(i2.sigma) / a ** 2, i1.sigma))
        except Exception as e:
            import traceback
            fact("CallSucceeds", False, "%s: %s | %s" % (type(e).__name__, e, traceback.format_exc()[-600:]))
        trs.append({"kind": "affine", "need": ["GmmML.means", "LinearScore", "IVector.project"], "ev": ev})
        meta.append(me)
    verdicts = traces.validate(ck, "affine", ck.work, trs, module="TraceFacts")
    for tr, me, (v, pos) in zip(trs, meta, verdicts):
        ck.replayed += 1
        ck.seen(["M3", me["seed"]])
        if v == "ok":
            ck.sample({"mechanism": "M3", "facts": [e["name"] for e in tr["ev"]][:8], "meta": {k: me[k] for k in ("seed", "C", "D", "scale", "shift")}}, limit=5)
        else:
            ck.violation("M3:TraceFacts:" + v, {"mechanism": "M3", "module": "TraceFacts", "trace": tr, "meta": me,
                                                "rejected_at_event": pos, "clause": v})
    ck.extra["m3_traces"] = len(trs)
