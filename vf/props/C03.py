"""C03 - GMM ML training never decreases the likelihood and stops by its stated rule.

M1  specs/GmmMStep.tla (ML): every enabled block of the M-step is a stationary point of the EM
    auxiliary function at the values left in place, for all 7 non-empty switch sets (the 8th changes
    nothing); the deviating variant (variance about the old mean computed as E[x^2] - m^2) is refuted.
    specs/KMeans.tla embeds the same TrainLoop guards and checks the stop rule exhaustively (C06).
M2  ml_gmm_m_step replayed on the exact statistics of every exported state.
M3  seeded training sets x initial parameters x 8 switch sets x {NumPy, Dask}: rank of the average
    log-likelihood after each iteration, exact comparison of the reported criteria, stopping step;
    validated by TLC against specs/TraceLoop.tla."""
import random

import numpy as np

from .. import gmm_mstep_model as gm
from .. import gmm_train as gt
from .. import traces
from ..common import pin_repo


def run(ck):
    em = pin_repo()
    rng = random.Random(ck.seed)
    quick = ck.tier == "quick"
    ck.assumptions += ["EM ascent theorem (cited): exact posteriors (C02) + stationarity of each concave block imply the "
                       "likelihood does not decrease",
                       "monotonicity is suspended on steps where a variance floor or the count floor is active, as the "
                       "property states",
                       "trajectory observed through fits capped at 1..k without threshold; stopping step found by bitwise "
                       "match of the thresholded run"]
    smp = gm.samples(3)
    if quick:
        smp = rng.sample(smp, 150)
    recs = gm.model_run(ck, "mstep-ml", smp, ["ml"], coverage=not quick)
    ck.exhaustive = True
    gm.model_run(ck, "deviation:ML_VAR_ABOUT_OLD_MEAN", smp[:40], ["ml"], dev=["ML_VAR_ABOUT_OLD_MEAN"],
                 expect_violation=True, export=False, invariants=["MLStationary"])
    if quick and len(recs) > 2500:
        recs = rng.sample(recs, 2500)
    for rec in recs:
        got = gm.run_real(em, rec)
        bad = gm.compare(rec, got)
        ck.replayed += 1
        ck.seen(gm.scenario_key(rec))
        scn = {k: rec[k] for k in ("smp", "mu0", "var0", "w0", "vfl", "uw", "um", "uv", "n", "px", "pxx")}
        if bad:
            ck.violation("M2:GmmMStep:ML." + bad[0], {"mechanism": "M2", "module": "GmmMStep", "scenario": scn,
                                                      "expected": {k: rec[k] for k in ("w", "mu", "var")}, "detail": bad[1]})
        else:
            ck.sample({"mechanism": "M2", "scenario": scn, "verdict": "ok"}, limit=3)
    m3(ck, em, rng, 48 if quick else 800)


def m3(ck, em, rng, count):
    trs, meta = [], []
    for t in range(count):
        seed = rng.randrange(10 ** 6)
        r = np.random.RandomState(seed)
        X, init = gt.make_problem(r)
        # half of the traces on the switch sets that freeze the means while updating the variances
        sw = gt.SWITCHES[(t // 2) % 8] if t % 2 else [(False, True, False), (False, True, True)][(t // 2) % 2]
        cap = int(r.randint(2, 7))
        thr = [None, 0.0, 1e-5, 1e-3, 0.05][r.randint(0, 5)]
        chunks = None
        if r.rand() < 0.35:
            n = len(X)
            cut = sorted(set(r.randint(1, n, size=r.randint(1, 3)).tolist()))
            chunks = tuple(int(s) for s in np.diff([0] + cut + [n]))
        obj = lambda m: float(np.asarray(m.log_likelihood(X)).mean())
        ms, A = gt.trajectory(em, X, init, cap, sw, obj, chunks)
        final = gt.fit(gt.new_machine(em, init, cap, thr, sw), X, chunks)
        tr = gt.build_trace("gmm-ml", ms, A, X, cap, thr, final)
        trs.append(tr)
        meta.append({"seed": seed, "n": len(X), "d": X.shape[1], "C": len(init["weights"]), "switches(um,uv,uw)": sw,
                     "cap": cap, "thr": thr, "chunks": chunks, "avg_loglik": A})
    verdicts = traces.validate(ck, "gmmml", ck.work, trs)
    for tr, me, (v, pos) in zip(trs, meta, verdicts):
        ck.replayed += 1
        ck.seen(["M3", me["seed"]])
        if v == "ok":
            ck.sample({"mechanism": "M3", "trace": tr["ev"][:2], "meta": {k: me[k] for k in ("seed", "n", "d", "C", "cap", "thr")}}, limit=8)
        else:
            ck.violation("M3:TraceLoop:" + v, {"mechanism": "M3", "module": "TraceLoop", "trace": tr, "meta": me,
                                               "rejected_at_event": pos})
    ck.extra["m3_traces"] = len(trs)
