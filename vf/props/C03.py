"""C03 - GMM ML training never decreases the likelihood and stops by its stated rule.

M1  specs/GmmMStep.tla (ML): every enabled block of the M-step is a stationary point of the EM
    auxiliary function at the values left in place, for all 7 non-empty switch sets (the 8th changes
    nothing); the deviating variant (variance about the old mean computed as E[x^2] - m^2) is refuted.
    specs/KMeans.tla embeds the same TrainLoop guards and checks the stop rule exhaustively (C06).
M2  ml_gmm_m_step replayed on the exact statistics of every exported state.
M3  seeded training sets x initial parameters x 8 switch sets x {NumPy, Dask}: rank of the average
    log-likelihood after each iteration, exact comparison of the reported criteria, stopping step;
    validated by TLC against specs/TraceLoop.tla."""
import os
import random

import numpy as np

from .. import gmm_mstep_model as gm
from .. import gmm_train as gt
from .. import traces
from ..common import ImplementationTimeout, pin_repo, time_limit


def run(ck):
    em = pin_repo()
    rng = random.Random(ck.seed)
    quick = ck.tier == "quick"
    ck.assumptions += ["EM ascent theorem (cited): exact posteriors (C02) + stationarity of each concave block imply the "
                       "likelihood does not decrease",
                       "monotonicity is suspended on steps where a variance floor or the count floor is active, as the "
                       "property states",
                       "trajectory observed through fits capped at 1..k without threshold; stopping step found by bitwise "
                       "match of the thresholded run"]
    smp = gm.samples(3)
    if quick:
        smp = rng.sample(smp, 150)
    recs = gm.model_run(ck, "mstep-ml", smp, ["ml"], coverage=not quick)
    ck.exhaustive = True
    gm.model_run(ck, "deviation:ML_VAR_ABOUT_OLD_MEAN", smp[:40], ["ml"], dev=["ML_VAR_ABOUT_OLD_MEAN"],
                 expect_violation=True, export=False, invariants=["MLStationary"])
    if quick and len(recs) > 2500:
        recs = rng.sample(recs, 2500)
    for rec in recs:
        got = gm.run_real(em, rec)
        bad = gm.compare(rec, got)
        ck.replayed += 1
        ck.seen(gm.scenario_key(rec))
        scn = {k: rec[k] for k in ("smp", "mu0", "var0", "w0", "vfl", "uw", "um", "uv", "n", "px", "pxx")}
        if bad:
            ck.violation("M2:GmmMStep:ML." + bad[0], {"mechanism": "M2", "module": "GmmMStep", "scenario": scn,
                                                      "expected": {k: rec[k] for k in ("w", "mu", "var")}, "detail": bad[1]})
        else:
            ck.sample({"mechanism": "M2", "scenario": scn, "verdict": "ok"}, limit=3)
    m3(ck, em, rng, 48 if quick else 800)
    fit_control(ck, em, rng, quick)


def m3(ck, em, rng, count):
    trs, meta = [], []
    timeouts = 0
    for t in range(count):
        seed = rng.randrange(10 ** 6)
        r = np.random.RandomState(seed)
        X, init = gt.make_problem(r)
        stationary = t % 6 == 5
        if stationary:
            # a single Gaussian reaches its fixed point after one iteration: the reported criterion is then EXACTLY
            # stationary, which is what a threshold of 0.0 (a legitimate setting) waits for
            for _ in range(60):
                if len(init["weights"]) == 1:
                    break
                X, init = gt.make_problem(r)
        storage = None
        if t % 7 in (3, 6) and not stationary:
            # integer storage (round eight): features as a front end delivers them -- int16 / int32 counts whose SQUARES
            # do not fit the storage type (|x| up to ~250 in int16, ~60000 in int32); the statistics are moments in
            # float64 whatever the storage, so the trajectory is the one of the float64 copy of the same numbers
            # the scale puts the square-overflow point (181 / 46340) just below the few largest magnitudes of the data set
            # (1.5 to 7 % of the entries): a FEW samples are beyond it, so that a moment computed in the storage type is wrong by a few per cent
            # (variances stay positive, no floor becomes active) rather than absurd
            storage, limit = [("int16", 181.0), ("int32", 46340.0), ("int16", 181.0), ("int16", 181.0)][(t // 7) % 4]
            mags = np.sort(np.abs(X).ravel())
            kth = mags[-max(1, mags.size // (40, 25, 60, 15)[(t // 7) % 4])]
            sc = limit * 1.03 / max(1e-9, float(kth))
            X = np.round(X * sc).astype(storage)
            init = dict(init, means=np.asarray(init["means"]) * sc, variances=np.asarray(init["variances"]) * sc * sc)
        # half of the traces on the switch sets that freeze the means while updating the variances
        sw = gt.SWITCHES[(t // 2) % 8] if t % 2 else [(False, True, False), (False, True, True)][(t // 2) % 2]
        cap = int(r.randint(2, 7))
        thr = [None, 0.0, 1e-5, 1e-3, 0.05][r.randint(0, 5)]
        chunks = None
        if r.rand() < 0.4:
            n = len(X)
            if r.rand() < 0.5:      # very unequal blocks: a block of one or two samples next to the rest
                cut = [[1], [n - 1], [2, n - 1], [n - 2]][r.randint(0, 4)]
            else:
                cut = sorted(set(r.randint(1, n, size=r.randint(1, 3)).tolist()))
            chunks = tuple(int(s) for s in np.diff([0] + cut + [n]))
        if t % 4 == 1 and chunks is None:
            # the caller's array OBJECT was used for training before and has been rewritten in place since (centred,
            # normalised, refilled): every run below is handed this very object
            buf = np.ascontiguousarray(X * 3.0 + 7.0)
            gt.fit(gt.new_machine(em, init, 2, None, (True, True, True)), buf)
            buf[...] = X
            X = buf
        obj = lambda m: float(np.asarray(m.log_likelihood(X)).mean())
        ms, A = gt.trajectory(em, X, init, cap, sw, obj, chunks)
        # half of the traces: the threshold is placed 2 % beside the (pooled) relative change of one iteration of this
        # very trajectory, so that the stopping iteration is decided by a margin of 2 %; a third of those run without
        # an iteration limit (the threshold is then placed above, so that the unchanged rule stops by that iteration)
        fcap, tcap, placed = cap, cap, None
        if stationary and len(init["weights"]) == 1:
            sw, cap, thr = (True, True, True), 6, 0.0
            ms, A = gt.trajectory(em, X, init, cap, sw, obj, chunks)
            fcap, tcap = (None, -1) if t % 12 == 11 else (cap, cap)
            placed = {"threshold": 0.0, "single_gaussian": True, "unlimited": fcap is None}
        elif t % 2 == 0:
            rep = [None] + [gt.reported(ms[k - 1], X) for k in range(1, cap + 1)]
            ks = [k for k in range(2, cap + 1) if rep[k - 1] not in (0.0, None) and np.isfinite(rep[k]) and rep[k] != rep[k - 1]]
            if ks:
                kk = ks[r.randint(0, len(ks))]
                unlimited = r.rand() < 0.34
                f = 1.02 if unlimited or r.rand() < 0.5 else 0.98
                thr = float(abs((rep[kk - 1] - rep[kk]) / rep[kk - 1]) * f)
                placed = {"beside_iteration": kk, "factor": f, "unlimited": bool(unlimited)}
                if unlimited:
                    fcap, tcap = None, -1
        try:
            with time_limit(20):
                # every third thresholded run on a machine that was built as a MAP machine and switched to ML through
                # set_params: it must return the very model of the plain machine's capped run
                final = gt.fit(gt.new_machine(em, init, fcap, thr, sw, switched=(t % 3 == 2)), X, chunks)
        except ImplementationTimeout:
            timeouts += 1
            if timeouts <= 2:
                ck.violation("M3:TraceLoop:StopsAtFirstCrossing",
                             {"mechanism": "M3", "module": "TraceLoop", "meta": {"seed": seed, "cap": fcap, "thr": thr, "placed": placed},
                              "detail": "training without an iteration limit did not return within 20 s although the threshold is "
                                        "met within %d iterations" % cap})
            continue
        tr = gt.build_trace("gmm-ml", ms, A, X, cap, thr, final)
        tr["cap"] = tcap
        tr["fromStart"] = True      # training starts from the explicit parameters of ms[0]: the first iteration ascends too
        trs.append(tr)
        meta.append({"seed": seed, "n": len(X), "d": X.shape[1], "C": len(init["weights"]), "switches(um,uv,uw)": sw,
                     "cap": fcap, "thr": thr, "placed": placed, "chunks": chunks, "storage": storage, "trainer_set_after_construction": t % 3 == 2, "avg_loglik": A})
    verdicts = traces.validate(ck, "gmmml", ck.work, trs)
    for tr, me, (v, pos) in zip(trs, meta, verdicts):
        ck.replayed += 1
        ck.seen(["M3", me["seed"]])
        if v == "ok":
            ck.sample({"mechanism": "M3", "trace": tr["ev"][:2], "meta": {k: me[k] for k in ("seed", "n", "d", "C", "cap", "thr")}}, limit=8)
        else:
            ck.violation("M3:TraceLoop:" + v, {"mechanism": "M3", "module": "TraceLoop", "trace": tr, "meta": me,
                                               "rejected_at_event": pos})
    ck.extra["m3_traces"] = len(trs)


# ------------------------------------------------------------------ control flow of fit (specs/GmmFit.tla)
def fit_control(ck, em, rng, quick):
    """M1: which initialisation runs and how successive fit() calls compose; M2: every exported behaviour on the
    real GMMMachine (threshold None, explicit k-means trainer so that the initialisation is reproducible)."""
    from .. import mc, tlc

    def model(name, dev=(), expect_violation=False):
        text = mc.module("MC_GmmFit", ["GmmFit"], {"MC_Dev": mc.Expr("{" + ", ".join('"%s"' % d for d in dev) + "}")})
        cfg = mc.cfg(consts={"Caps": mc.Expr("{0, 1, 2}"), "MaxCalls": 3}, subst={"Dev": "MC_Dev"},
                     invariants=["InitOnlyWhenMeansUnset", "FitsCompose", "MapStartsFromPrior", "DefaultVariances",
                                 "ReinitRestoresPrior"],
                     constraints=[] if expect_violation else ["Export"])
        r = tlc.run(ck.work, "MC_GmmFit", cfg, root_text=text, workers=4, coverage=not quick, expect_violation=expect_violation)
        ck.account(name, r, expect_violation=expect_violation)
        return r.records
    recs = model("fit-control-flow")
    for d in ("FIT_REINITIALISES_EVERY_CALL", "REINIT_KEEPS_WEIGHTS"):
        model("deviation:" + d, dev=[d], expect_violation=True)
    if quick and len(recs) > 60:
        recs = rng.sample(recs, 60)
    for rec in recs:
        seed = rng.randrange(10 ** 6)
        r = np.random.RandomState(seed)
        X, init = gt.make_problem(r)
        C = len(init["weights"])
        ops = [h["op"] for h in rec["hist"]]
        caps = [h["cap"] for h in rec["hist"]]
        first = rec["hist"][0]
        user_means = first["means0"] == "user"
        # "user" means any value the user may assign: every fifth scenario assigns all-zero means (a component at the
        # origin is a legitimate parameter, not "unset")
        if user_means and seed % 5 == 0:
            init["means"] = np.zeros_like(init["means"])
        kinit = X[r.choice(len(X), size=C, replace=False)] + 0.01
        prior = None
        if rec["trainer"] == "map":
            prior = em.GMMMachine(C)
            prior.weights, prior.means, prior.variances = init["weights"], init["means"] + 0.5, init["variances"] * 1.3

        def build(cap):
            kw = dict(max_fitting_steps=cap, convergence_threshold=None, update_means=True, update_variances=True,
                      update_weights=True)
            if rec["trainer"] == "map":
                m = em.GMMMachine(C, trainer="map", ubm=prior, **kw)
            else:
                m = em.GMMMachine(C, k_means_trainer=em.KMeansMachine(C, init_method=kinit.copy(), max_iter=2,
                                                                    convergence_threshold=None), **kw)
            if user_means:
                m.means = np.array(init["means"])
            if first["vars0"] == "user":
                m.variances = np.array(init["variances"])
            return m
        ck.replayed += 1
        ck.seen(["fit-control", rec])
        scn = {"trainer": rec["trainer"], "means": "user" if user_means else "unset", "variances": first["vars0"],
               "caps": caps, "seed": seed}
        try:
            m = build(caps[0])
            after = 0           # iterations since the last re-initialisation
            reinit_bad = None
            for o, k in zip(ops, caps):
                if o == "reinit":
                    m.initialize_gaussians()
                    after = 0
                    got3 = gt.params(m)
                    want3 = gt.params(prior)
                    if not gt.same_params(got3, want3):
                        reinit_bad = "after initialize_gaussians(): weights %s means %s variances %s; the prior's %s %s %s" % tuple(
                            a.tolist() for a in got3 + want3)
                        break
                    continue
                m.max_fitting_steps = k
                m.fit(X)
                after += k
            if reinit_bad:
                ck.violation("M2:GmmFit:ReinitRestoresPrior", {"mechanism": "M2", "module": "GmmFit",
                             "scenario": {"trainer": rec["trainer"], "calls": list(zip(ops, caps)), "seed": seed}, "detail": reinit_bad})
                continue
            last_reinit = max([i for i, o in enumerate(ops) if o == "reinit"], default=-1)
            ref = build(after)
            if last_reinit >= 0:
                ref.initialize_gaussians()          # (a re-initialised MAP machine starts from the prior, not from what the user assigned)
            ref.fit(X)
        except Exception as e:
            ck.violation("M2:GmmFit:Raised", {"mechanism": "M2", "module": "GmmFit", "scenario": scn,
                                              "detail": "%s: %s" % (type(e).__name__, e)})
            continue
        if not gt.same_params(gt.params(m), gt.params(ref)):
            ck.violation("M2:GmmFit:FitsCompose", {"mechanism": "M2", "module": "GmmFit", "scenario": scn,
                                                   "detail": "calls %s on one object differ from one fit with cap %d "
                                                             "from the same start" % (list(zip(ops, caps)), after)})
            continue
        # provenance of the starting point: a fit with cap 0 shows what the initialisation produced
        m0 = build(0)
        m0.fit(X)
        w0, mu0, v0 = gt.params(m0)
        ok = True
        if rec["trainer"] == "map":
            ok = np.array_equal(mu0, init["means"] if user_means else prior.means) and \
                np.array_equal(v0, np.maximum(init["variances"], m0.variance_thresholds) if first["vars0"] == "user" else prior.variances)
            clause = "MapStartsFromPrior"
        elif user_means:
            ok = np.array_equal(mu0, init["means"]) and (np.array_equal(v0, np.ones_like(mu0)) if first["vars0"] == "ones"
                                                         else np.array_equal(v0, np.maximum(init["variances"], m0.variance_thresholds)))
            clause = "DefaultVariances"
        else:
            km_ = em.KMeansMachine(C, init_method=kinit.copy(), max_iter=2, convergence_threshold=None).fit(X)
            ok = np.allclose(mu0, km_.centroids_, rtol=1e-12, atol=0)
            clause = "InitOnlyWhenMeansUnset"
        if not ok:
            ck.violation("M2:GmmFit:" + clause, {"mechanism": "M2", "module": "GmmFit", "scenario": scn,
                                                 "detail": "starting point of training: means %s variances %s" % (mu0.tolist(), v0.tolist())})
        else:
            ck.sample({"mechanism": "M2", "module": "GmmFit", "scenario": scn, "verdict": "ok"}, limit=9)
