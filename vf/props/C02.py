"""C02 - GMM statistics are responsibility-weighted moments, additive over any split.

M1  specs/GmmStats.tla: ValueIsSumOfCovers, NNonNegSumsToT, SameCoversSameValue, AddDoesNotMutate,
    MismatchRefused for every set partition of the samples and every order / kind (+, +=) of combination.
M2  TLC behaviours (exhaustive terminal states and -simulate) replayed on real GMMStats objects built by
    GMMMachine.acc_stats on seeded data (NumPy and Dask input): after every operation EVERY container on
    the heap must equal the sum of the single-sample statistics of the samples TLC says it covers; the
    single-sample statistics themselves are compared with an independent evaluation of the posterior."""
import itertools
import random
from fractions import Fraction as F

import numpy as np

from .. import mc, tlc
from ..common import pin_repo, tla
from ..gmm_machine_model import oracle_ll

INV = ["ValueIsSumOfCovers", "NNonNegSumsToT", "SameCoversSameValue"]
PROPS = ["AddDoesNotMutate", "MismatchRefused"]
RS = [[F(1, 2), F(1, 2)], [F(1), F(0)], [F(1, 4), F(3, 4)], [F(0), F(1)], [F(1, 3), F(2, 3)]]
LLS = [F(-1), F(-5, 2), F(0), F(-7, 3)]
XS = [-2, 0, 1, 3]


def set_partitions(items):
    items = list(items)
    if not items:
        yield []
        return
    first, rest = items[0], items[1:]
    for p in set_partitions(rest):
        for i in range(len(p)):
            yield p[:i] + [[first] + p[i]] + p[i + 1:]
        yield [[first]] + p


def scenarios(rng, n, count):
    out = []
    for _ in range(count):
        out.append({"x": [rng.choice(XS) for _ in range(n)], "r": [rng.choice(RS) for _ in range(n)],
                    "ll": [rng.choice(LLS) for _ in range(n)]})
    return out


def build(n, scn, parts, dev=(), allow_zero=False):
    defs = {"MC_Scn": mc.Expr("{" + ", ".join(tla(s) for s in scn) + "}"),
            "MC_Parts": mc.Expr("{" + ", ".join("{" + ", ".join("{" + ", ".join(map(str, b)) + "}" for b in p) + "}"
                                                for p in parts) + "}"),
            "MC_Dev": mc.Expr("{" + ", ".join('"%s"' % d for d in dev) + "}")}
    text = mc.module("MC_GmmStats", ["GmmStats"], defs)
    return text, {"N": n, "C": 2, "AllowZero": mc.Expr("TRUE" if allow_zero else "FALSE")}, \
        {"Scenarios": "MC_Scn", "Partitions": "MC_Parts", "Dev": "MC_Dev"}


def run(ck):
    em = pin_repo()
    rng = random.Random(ck.seed)
    quick = ck.tier == "quick"
    ck.assumptions += ["the model's responsibilities are abstract (any non-negative vector summing to one); the "
                       "numeric value of a sample's contribution is taken from the implementation's single-sample "
                       "E-step, which is itself compared with an independent evaluation of the posterior",
                       "floating-point sums are compared to 1e-9 relative (re-association across splits)"]
    n = 4
    parts = list(set_partitions(range(1, n + 1)))
    scn = scenarios(rng, n, 2 if quick else 3)
    text, consts, subst = build(n, scn, parts if not quick else parts)
    cfg = mc.cfg(consts=consts, subst=subst, invariants=INV, properties=PROPS, view="View", constraints=["Export"])
    r = tlc.run(ck.work, "MC_GmmStats", cfg, root_text=text, workers=16, coverage=not quick)
    ck.account("stats-heap", r)
    ck.exhaustive = True
    behaviours = list(r.records)
    # random behaviours (every order of E-steps / additions, not only one per distinct terminal state)
    cfg2 = mc.cfg(consts=consts, subst=subst, constraints=["Export"])
    r2 = tlc.run(ck.work, "MC_GmmStats", cfg2, root_text=text, workers=1, simulate=60 if quick else 300, depth=30,
                 seed=ck.seed + 1, coverage=False)
    ck.account("stats-heap-simulate", r2)
    behaviours += r2.records
    # the container life cycle (zero accumulators from the constructor / resize / init_fields, reset of a retired
    # container) on three samples
    tz, cz, sz = build(3, scn[:1] if quick else scn[:3], list(set_partitions(range(1, 4))), allow_zero=True)
    scn3 = [{k: v[:3] for k, v in s_.items()} for s_ in (scn[:1] if quick else scn[:3])]
    tz, cz, sz = build(3, scn3, list(set_partitions(range(1, 4))), allow_zero=True)
    rz = tlc.run(ck.work, "MC_GmmStats", mc.cfg(consts=cz, subst=sz, invariants=INV, properties=PROPS, view="View",
                                                 constraints=["Export"]), root_text=tz, workers=16, coverage=not quick)
    ck.account("stats-heap-life-cycle", rz)
    zrecs = [b for b in rz.records if any(h["op"] in ("Zero", "Reset") for h in b["hist"])]
    ck.extra["life_cycle_behaviours"] = len(zrecs)
    for d in ("IADD_SKIPS_PXX", "ADD_MUTATES_LEFT", "RESET_SHARES_MOMENT_BUFFERS"):
        t3, c3, s3 = build(3, scn3[:2], list(set_partitions(range(1, 4))), dev=[d], allow_zero=(d == "RESET_SHARES_MOMENT_BUFFERS"))
        r3 = tlc.run(ck.work, "MC_GmmStats", mc.cfg(consts=c3, subst=s3, invariants=INV, properties=PROPS, view="View"),
                     root_text=t3, workers=8, coverage=False, expect_violation=True)
        ck.account("deviation:" + d, r3, expect_violation=True)
    seen = set()
    uniq = []
    for b in behaviours:
        k = repr(b["hist"])
        if k not in seen:
            seen.add(k)
            uniq.append(b)
    limit = 200 if quick else 900
    if len(uniq) > limit:
        uniq = rng.sample(uniq, limit)
    for b in uniq:
        replay(ck, em, b, rng, n)
    zl = 90 if quick else 500
    zrecs.sort(key=lambda b: repr(b["hist"]))
    for b in (rng.sample(zrecs, zl) if len(zrecs) > zl else zrecs):
        replay(ck, em, b, rng, 3)
    ck.extra["behaviours_exported"] = len(behaviours)
    wide_and_reloaded(ck, em, rng, 6 if quick else 40)


def responsibilities(w, mu, var, X):
    comp = []
    for c in range(len(w)):
        comp.append(np.log(w[c]) - 0.5 * (np.sum((X - mu[c]) ** 2 / var[c], axis=1) + np.sum(np.log(2 * np.pi * var[c]))))
    comp = np.array(comp)
    ll = oracle_ll(w, mu, var, X)
    return np.exp(comp - ll[None, :]), ll


def fields(s):
    import dask
    t, n, px, pxx, ll = dask.compute(s.t, s.n, s.sum_px, s.sum_pxx, s.log_likelihood)
    return int(t), np.asarray(n, dtype=float), np.asarray(px, dtype=float), np.asarray(pxx, dtype=float), float(ll)


def replay(ck, em, beh, rng, n):
    import dask
    import dask.array as da
    r = np.random.RandomState(rng.randrange(2 ** 31))
    C, D = int(r.randint(1, 4)), int(r.randint(1, 4))
    m = em.GMMMachine(C)
    w = r.uniform(0.2, 1, size=C)
    m.weights = w / w.sum()
    m.means = r.normal(size=(C, D)) * 2
    m.variances = r.uniform(0.3, 2, size=(C, D))
    X = r.normal(size=(n, D)) * 2.5
    dtype = "float64"
    if r.rand() < 0.3:
        # narrow integer data (8-bit pixels, 16-bit audio): squares do not fit the input dtype
        dtype = "uint8" if r.rand() < 0.5 else "int16"
        X = (r.randint(20, 250, size=(n, D)) if dtype == "uint8" else r.randint(-3000, 3000, size=(n, D))).astype(dtype)
        sc = 60.0 if dtype == "uint8" else 1500.0
        m.means = np.asarray(m.means) * sc + (120.0 if dtype == "uint8" else 0.0)
        m.variances = np.asarray(m.variances) * sc ** 2
    from ..common import relayout
    X = relayout(X, r)          # C order, Fortran order or a strided view of a larger buffer
    use_dask = r.rand() < 0.35
    ck.replayed += 1
    ck.seen(beh["hist"])
    scn = {"hist": [{k: h[k] for k in ("op", "a", "b", "block", "res")} for h in beh["hist"]], "C": C, "D": D,
           "input": "dask" if use_dask else "numpy", "dtype": dtype}

    def bad(clause, detail):
        ck.violation("M2:GmmStats:" + clause, {"mechanism": "M2", "module": "GmmStats", "behaviour": scn, "detail": detail})

    # single-sample statistics from the code, against the independent posterior
    Xf = np.asarray(X, dtype=float)
    resp, ll = responsibilities(np.asarray(m.weights), np.asarray(m.means), np.asarray(m.variances), Xf)
    single = []
    for i in range(n):
        t, nn, px, pxx, l = fields(m.acc_stats(X[i:i + 1]))
        single.append((t, nn, px, pxx, l))
        ok = (t == 1 and np.allclose(nn, resp[:, i], rtol=1e-9, atol=1e-12) and np.all(nn >= 0) and abs(nn.sum() - 1) < 1e-9
              and np.allclose(px, resp[:, i, None] * Xf[i], rtol=1e-9, atol=1e-12)
              and np.allclose(pxx, resp[:, i, None] * Xf[i] ** 2, rtol=1e-9, atol=1e-12) and abs(l - ll[i]) <= 1e-9 * max(1, abs(ll[i])))
        if not ok:
            return bad("PosteriorMoments", "sample %d: statistics %s, expected n=%s ll=%s" % (i, (t, nn.tolist(), px.tolist(), pxx.tolist(), l), resp[:, i].tolist(), ll[i]))
        # the same sample in the other forms the entry point accepts: a 1-D vector, a plain list
        forms = {"1-D array": X[i], "list of floats": [float(v) for v in X[i]]}
        if dtype == "float64":
            import dask.array as da
            forms["1-D dask array"] = da.from_array(X[i], chunks=(D,))
        for fname, xv in forms.items():
            with dask.config.set(scheduler="synchronous"):
                f1 = fields(m.acc_stats(xv))
            if not (f1[0] == 1 and np.allclose(f1[1], nn, rtol=1e-12, atol=1e-14) and np.allclose(f1[2], px, rtol=1e-12, atol=1e-14)
                    and np.allclose(f1[3], pxx, rtol=1e-12, atol=1e-14) and abs(f1[4] - l) <= 1e-12 * max(1, abs(l))):
                return bad("SingleSampleForms", "sample %d given as a %s: t=%s n=%s, as a one-row batch: t=%s n=%s"
                           % (i, fname, f1[0], f1[1].tolist(), t, nn.tolist()))
    # transform() of a 2-D array walks its rows: one statistics object per sample
    per_row = m.transform(X)
    if len(per_row) != n or any(fields(s)[0] != 1 for s in per_row) or \
            any(not np.allclose(fields(s)[1], single[i][1], rtol=1e-12, atol=1e-14) for i, s in enumerate(per_row)):
        return bad("SingleSampleForms", "transform(X) of an (n, d) array: per-row statistics have t = %s"
                   % [fields(s)[0] for s in per_row])
    if False:
        pass

    def expected(cov):
        t = sum(cov)
        nn = sum(c * single[i][1] for i, c in enumerate(cov))
        px = sum(c * single[i][2] for i, c in enumerate(cov))
        pxx = sum(c * single[i][3] for i, c in enumerate(cov))
        l = sum(c * single[i][4] for i, c in enumerate(cov))
        return t, nn, px, pxx, l

    heap = []
    for step, h in enumerate(beh["hist"]):
        op = h["op"]
        try:
            if op == "EStep":
                idx = sorted(i - 1 for i in h["block"])
                if use_dask:
                    with dask.config.set(scheduler="synchronous"):
                        s = m.acc_stats(da.from_array(X[idx], chunks=(max(1, len(idx) // 2), D)))
                        if step % 2:
                            # the statistics are those of the machine that was asked: its parameters are changed
                            # through the setters before the lazy fields are evaluated, and put back afterwards
                            keep = (np.array(m.weights), np.array(m.means), np.array(m.variances))
                            m.means, m.variances, m.weights = keep[1] - 1.75, keep[2] * 2.0, keep[0][::-1].copy()
                            t, nn, px, pxx, l = fields(s)
                            m.weights, m.means, m.variances = keep
                        else:
                            t, nn, px, pxx, l = fields(s)
                    s2 = em.GMMStats(C, D)
                    s2.t, s2.n, s2.sum_px, s2.sum_pxx, s2.log_likelihood = t, nn, px, pxx, l
                    s = s2
                else:
                    s = m.acc_stats(X[idx])
                    if step % 3 == 0:       # the list form used by transformers
                        tr = m.transform([X[idx]])
                        if len(tr) != 1 or not tr[0].is_similar_to(s, rtol=1e-12, atol=1e-12):
                            return bad("TransformEqAccStats", "transform([block]) differs from acc_stats(block)")
                heap.append(s)
            elif op == "Zero":
                # a zero accumulator: from the constructor, or another container re-initialised / resized
                how = int(r.randint(0, 4))
                if how == 0:
                    z = em.GMMStats(C, D)
                elif how == 1:
                    z = em.GMMStats(C + 1, D + 2)
                    z.n = np.ones(C + 1)
                    z.resize(C, D)
                elif how == 2:
                    z = m.acc_stats(X[:1])
                    z.init_fields()
                else:
                    z = m.acc_stats(X)
                    z.reset()
                heap.append(z)
            elif op == "Reset":
                heap[h["a"] - 1].reset()
            elif op == "Add":
                heap.append(heap[h["a"] - 1] + heap[h["b"] - 1])
            elif op == "IAdd":
                a = heap[h["a"] - 1]
                a += heap[h["b"] - 1]
                heap[h["a"] - 1] = a
            elif op == "Mismatch":
                other = em.GMMStats(C + 1, D)
                other.n = np.ones(C + 1)
                for kind in ("+", "+="):
                    try:
                        if kind == "+":
                            heap[h["a"] - 1] + other
                        else:
                            tmp = heap[h["a"] - 1]
                            tmp += other
                        return bad("MismatchRefused", "adding statistics of shape (%d,%d) to shape (%d,%d) with %s was not refused" % (C + 1, D, C, D, kind))
                    except ValueError:
                        pass
        except Exception as e:
            return bad("Operation", "%s raised %s: %s" % (op, type(e).__name__, e))
        covs = h["covs"]
        if len(covs) != len(heap):
            return bad("Heap", "model has %d containers, replay has %d" % (len(covs), len(heap)))
        for k, cov in enumerate(covs):
            t, nn, px, pxx, l = fields(heap[k])
            et, en, epx, epxx, el = expected(cov)
            ok = (t == et and np.allclose(nn, en, rtol=1e-9, atol=1e-10) and np.allclose(px, epx, rtol=1e-9, atol=1e-10)
                  and np.allclose(pxx, epxx, rtol=1e-9, atol=1e-10) and abs(l - el) <= 1e-9 * max(1, abs(el))
                  and np.all(nn >= 0) and abs(nn.sum() - t) <= 1e-9 * max(1, t))
            if not ok:
                return bad("ValueIsSumOfCovers", "after step %d (%s) container %d covering %s holds t=%s n=%s, expected t=%s n=%s"
                           % (step + 1, op, k + 1, cov, t, nn.tolist(), et, np.asarray(en).tolist()))
    # the last live container is the whole-set accumulation
    whole = fields(m.acc_stats(X))
    last = fields(heap[beh["hist"][-1]["res"] - 1]) if beh["hist"][-1]["res"] else None
    if last is not None and all(c == 1 for c in beh["hist"][-1]["covs"][beh["hist"][-1]["res"] - 1]):
        ok = (last[0] == whole[0] and all(np.allclose(a, b, rtol=1e-9, atol=1e-10) for a, b in zip(last[1:4], whole[1:4]))
              and abs(last[4] - whole[4]) <= 1e-9 * max(1, abs(whole[4])))
        if not ok:
            return bad("SameCoversSameValue", "combined statistics differ from accumulation over the whole data set")
    ck.sample({"mechanism": "M2", "behaviour": [(h["op"], h["block"] or [h["a"], h["b"]]) for h in beh["hist"]], "verdict": "ok"})


def wide_and_reloaded(ck, em, rng, count):
    """SameCoversSameValue / MismatchRefused on statistics whose dimensions are not small Python ints: machines with a few
    hundred features or Gaussians, and containers that were written to a file and read back (their dimensions come
    back as NumPy integers) combined with fresh ones -- equal shapes add, unequal shapes are refused."""
    import os
    for i in range(count):
        seed = rng.randrange(10 ** 6)
        r = np.random.RandomState(seed)
        C, D = [(2, 300), (300, 2), (3, 4), (2, 3), (1, 257), (258, 1)][i % 6]
        n = 8
        m = em.GMMMachine(C)
        m.means = r.normal(size=(C, D))
        m.variances = r.uniform(0.5, 2, size=(C, D))
        X = r.normal(size=(n, D))
        whole = fields(m.acc_stats(X))
        a, b = m.acc_stats(X[:3]), m.acc_stats(X[3:])
        ck.replayed += 1
        ck.seen(["wide-reloaded", seed, C, D])
        scn = {"seed": seed, "C": C, "D": D}

        def bad(clause, detail):
            ck.violation("M2:GmmStats:" + clause, {"mechanism": "M2", "module": "GmmStats", "scenario": scn, "detail": detail})

        def same(x, y):
            return x[0] == y[0] and all(np.allclose(p_, q_, rtol=1e-9, atol=1e-10) for p_, q_ in zip(x[1:4], y[1:4])) \
                and abs(x[4] - y[4]) <= 1e-9 * max(1, abs(y[4]))
        path = os.path.join(ck.work, "st%d.hdf5" % i)
        b.save(path)
        b2 = em.GMMStats.from_hdf5(path)
        b3 = em.GMMStats(C, D)
        b3.load(path)
        os.remove(path)
        try:
            tot = [("a + b", fields(a + b)), ("a + (b read back from a file)", fields(a + b2)), ("(b loaded into a container) + a", fields(b3 + a))]
            acc = m.acc_stats(X[:3])
            acc += b2
            tot.append(("a += (b read back from a file)", fields(acc)))
            import dask
            import dask.array as da
            with dask.config.set(scheduler="synchronous"):
                g = em.GMMMachine(C, max_fitting_steps=1, convergence_threshold=None)
                g.means, g.variances = np.array(m.means), np.array(m.variances)
                g.fit(da.from_array(X, chunks=((3, 3, 2), D)))
        except Exception as e:      # noqa: BLE001
            bad("SameCoversSameValue", "statistics of equal shape (%d, %d) could not be combined: %s: %s" % (C, D, type(e).__name__, e))
            continue
        wrong = [h for h, f in tot if not same(f, whole)]
        if wrong:
            bad("SameCoversSameValue", "shape (%d, %d): %s differ(s) from the whole-set statistics" % (C, D, ", ".join(wrong)))
            continue
        other = em.GMMStats(C + 1, D)
        try:
            a + other
            bad("MismatchRefused", "shape (%d, %d) + shape (%d, %d) was not refused" % (C, D, C + 1, D))
        except ValueError:
            pass
