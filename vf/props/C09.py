"""C09 - each JFA training phase is exact EM: its marginal likelihood never decreases.

M1  specs/JfaPhases.tla, two layers.
    Control layer (CSpec): JFAMachine.fit as written, subspaces as version tags, estimates tagged with what
    they were computed from, em_iterations in 1..3: PhaseOrder, HandOverUsesFinalSubspace, ZIsZeroInVAndU,
    EachEStepSeesCurrentSubspace, ShapesKept; the deviations JFA_FINALIZE_V_BEFORE_LAST_MSTEP and
    JFA_U_PHASE_IGNORES_Y must be refuted.
    Numeric layer (NSpec): exact rationals at rank 1, C in 1..2, one feature, 2 classes x 1..2 sessions with
    fractional counts, inductive one-step form (from ANY small-rational V, U, D and handed-over y, x):
    PosteriorMomentsExact, AccumulatorsAreMoments, MStepSolvesNormalEq, AuxNonDecreasing, AllFinite; the
    deviations JFA_A1_WITHOUT_POSTERIOR_COV, JFA_D_MSTEP_INVERTED, JFA_U_PHASE_IGNORES_Y must be refuted.
M2  every exported numeric state is reached on a real JFAMachine through the public steps (initialize,
    e_step_v / m_step_v / finalize_v, e_step_u / m_step_u / finalize_u, e_step_d / m_step_d) and compared after
    every step with the exact accumulators / subspaces / estimates; the real `fit` (em_iterations 1..3, seeded
    statistics, ranks 1..2) is run with the eight steps wrapped on the instance, and the recorded event
    sequence must EQUAL the behaviour TLC exported for that em_iterations and is validated as a trace by the
    monitor specs/TraceJfa.tla, which applies the control layer's own predicates.
M3  marginal-likelihood rank traces per phase on seeded real-valued problems (classes 2..4, sessions 1..3,
    ranks 1..2, C 1..3, D 1..3, fractional counts): independent NumPy evaluation (DESIGN.md Appendix D,
    checked against numerical quadrature at the start of every run) after every E/M pair of the public steps
    and along the recorded `fit` runs; ranks validated by TLC against specs/TraceLoop.tla (direction up)."""
import collections
import copy
import random

import numpy as np

from .. import jfaphases_model as jm
from .. import tlc, traces
from ..common import REPO_SRC, pin_repo

SHAPES = [(C, cls) for C in (1, 2) for cls in jm.LABELLINGS]
PER_SHAPE = {"quick": 100, "thorough": 1000}
BATCH = 4000
MAX_REPORTED = 4
CTL_DEVS = [("JFA_FINALIZE_V_BEFORE_LAST_MSTEP", "HandOverUsesFinalSubspace"),
            ("JFA_FINALIZE_V_BEFORE_LAST_MSTEP", "PhaseOrder"),
            ("JFA_U_PHASE_IGNORES_Y", "HandOverUsesFinalSubspace")]
NUM_DEVS = [("JFA_A1_WITHOUT_POSTERIOR_COV", "AccumulatorsAreMoments"),
            ("JFA_D_MSTEP_INVERTED", "MStepSolvesNormalEq"),
            ("JFA_U_PHASE_IGNORES_Y", "PosteriorMomentsExact")]


def run(ck):
    em = pin_repo()
    rng = random.Random(ck.seed)
    quick = ck.tier == "quick"
    ck.assumptions += [
        "exact numeric model bounded to rank 1 (r_U = r_V = 1), C <= 2 components, one feature, 2 classes x 1..2 "
        "sessions, values from small sets of integers and halves; larger shapes only through rank traces (M3)",
        "inductive one-step form: every public step is checked from every sampled small-rational current V, U, D and "
        "handed-over y, x, which covers every iteration count without iterating exact rationals",
        "32-bit scope: an E-step (M-step) of the exact model is taken only when posterior means / accumulator terms "
        "(accumulators / updates) stay within By=%d, Bt=%d, Ba=%d; the evidence counts the states reached" %
        (jm.BY, jm.BT, jm.BA),
        "float comparison |obs-exp| <= 1e-8 max(1,|exp|) against exact rationals; recorder tags by value, rel. 1e-9",
        "trusted base of M3 and of the recorder's tags: the NumPy evaluation of the three phase models (posterior "
        "moments, accumulators, marginals), self-checked against 1-D and 2-D numerical quadrature at every run; the "
        "EM theorem linking exact posteriors + normal equations to marginal-likelihood ascent",
        "labels are 0..I-1 (the code uses the label as an index; other label sets are C16's subject)"]
    if getattr(ck, "replay_case", None):
        return replay_case(ck, em)
    cov = not quick

    # ---------------- M1, control layer
    r_ctl = jm.control_run(ck, "control", [1, 2, 3], coverage=True)
    model_calls = {rec["K"]: rec["calls"] for rec in r_ctl.records}
    if sorted(model_calls) != [1, 2, 3]:
        raise tlc.MachineryError("control layer exported behaviours for %s" % sorted(model_calls))
    for dev, inv in CTL_DEVS:
        jm.control_run(ck, "deviation:%s:%s" % (dev, inv), [1, 2, 3], dev=[dev], invariants=[inv], export=False,
                       expect_violation=True, coverage=False)

    # ---------------- M1, numeric layer
    scns = [jm.random_scenario(rng, C, cls) for C, cls in SHAPES for _ in range(PER_SHAPE[ck.tier])]
    num_records = []
    for b in range(0, len(scns), BATCH):       # (TLC's handling of one huge set literal is superlinear)
        num_records += jm.numeric_run(ck, "numeric-%d" % (b // BATCH + 1), scns[b:b + BATCH], coverage=cov).records
    for dev, inv in NUM_DEVS:
        jm.numeric_run(ck, "deviation:%s:%s" % (dev, inv), scns[:60], dev=[dev], invariants=[inv], export=False,
                       expect_violation=True)
    reached = collections.Counter(rec["phase"] for rec in num_records)
    ck.extra["numeric_states_reached"] = dict(reached)
    ck.extra["numeric_scenarios"] = len(scns)
    ck.extra["aux_comparisons_in_scope"] = sum(rec["aux"] for rec in num_records)
    for ph in ("eV", "mV", "fV", "eU", "mU", "fU", "eD", "mD"):
        if not reached[ph]:
            raise tlc.MachineryError("numeric layer: no scenario reached %s within the 32-bit scope" % ph)
    ck.exhaustive = True

    # ---------------- M2, numeric layer
    recs = num_records
    if quick and len(recs) > 3000:
        recs = rng.sample(recs, 3000)
    outcomes, reported = collections.Counter(), collections.Counter()
    for rec in recs:
        verdict, detail = jm.replay_record(em, rec)
        ck.replayed += 1
        ck.seen([rec["scn"], rec["phase"]])
        outcomes["%s:%s" % (rec["phase"], "ok" if verdict == "ok" else "mismatch")] += 1
        if verdict == "ok":
            if rec["phase"] in ("mV", "mU", "mD") and len(rec["scn"]["m"]) == 2:
                ck.sample({"mechanism": "M2", "state": rec, "verdict": "ok"}, limit=3)
            continue
        clause = "M2:JfaPhases:" + verdict
        reported[clause] += 1
        if reported[clause] <= MAX_REPORTED:
            ck.violation(clause, {"mechanism": "M2", "module": "JfaPhases", "layer": "numeric", "state": rec,
                                  "mismatch": verdict, "detail": detail})
    ck.extra["m2_outcomes"] = dict(outcomes)

    # ---------------- M2 (control layer on the real fit) and M3
    err = jm.selfcheck_evaluators()
    if err:
        raise tlc.MachineryError("evaluator self-check failed: " + err)
    nfit = 12 if quick else 100
    fit_traces, fit_meta, rank_traces, rank_meta = [], [], [], []
    for _ in range(nfit):
        seed = rng.randrange(10 ** 6)
        for K in (1, 2, 3):
            got = guarded(ck, reported, "fit", seed, K, lambda: record_fit(em, seed, K))
            if got is None:
                continue
            tr, me, rts = got
            fit_traces.append(tr)
            fit_meta.append(me)
            for rt in rts:
                rank_traces.append(rt)
                rank_meta.append(me)
            names_seen = {e["name"] for e in tr["ev"]}
            names_model = {e["name"] for e in model_calls[K]}
            if not names_model <= names_seen:
                # fit() no longer goes through (some of) the public per-phase steps: the control layer cannot be
                # observed this way; the per-phase steps are still bound by M2 and the marginals by M3
                note = "fit() was not observed calling %s: control-layer binding skipped" % sorted(names_model - names_seen)
                if note not in ck.notes:
                    ck.notes.append(note)
                fit_traces.pop()
                fit_meta.pop()
            elif tr["ev"] != model_calls[K]:
                j = next((i for i, (a, b) in enumerate(zip(tr["ev"], model_calls[K])) if a != b),
                         min(len(tr["ev"]), len(model_calls[K])))
                reported["fit"] += 1
                if reported["fit"] <= MAX_REPORTED:
                    ck.violation("M2:JfaPhases:FitFollowsControlLayer",
                                 {"mechanism": "M2", "module": "JfaPhases", "layer": "control", "meta": me,
                                  "first_difference_at_call": j + 1,
                                  "expected": model_calls[K][j] if j < len(model_calls[K]) else None,
                                  "observed": tr["ev"][j] if j < len(tr["ev"]) else None,
                                  "observed_calls": [e["name"] for e in tr["ev"]]})
    nsteps = 30 if quick else 400
    pairs = 5 if quick else 8
    for step_i in range(nsteps):
        seed = rng.randrange(10 ** 6)
        per_class = step_i % 3 == 2       # a third of the runs call the E-steps once per class, as fit() does for Dask input
        got = guarded(ck, reported, "public steps", seed, pairs, lambda: record_steps(em, seed, pairs, per_class))
        if got is None:
            continue
        rts, me = got
        for rt in rts:
            rank_traces.append(rt)
            rank_meta.append(me)
    # the monitor must reject corrupted copies of a good trace, naming the clause (binding is not vacuous)
    good = [t for t in fit_traces if t["K"] == 3 and t["ev"] == model_calls[3]]
    probes = corrupted(good[0]) if good else []
    verdicts = traces.validate(ck, "jfafit", ck.work, fit_traces + [p for p, _ in probes], module="TraceJfa")
    for (p, want), (v, pos) in zip(probes, verdicts[len(fit_traces):]):
        if v != want:
            raise tlc.MachineryError("TraceJfa accepted / misnamed a corrupted trace: expected %s, got %s" % (want, v))
    ck.extra["monitor_selftest"] = [w for _, w in probes]
    for tr, me, (v, pos) in zip(fit_traces, fit_meta, verdicts):
        ck.replayed += 1
        ck.seen(["fit", me["seed"], me["K"]])
        if v == "ok":
            ck.sample({"mechanism": "M2/trace", "K": tr["K"], "calls": [e["name"] for e in tr["ev"]],
                       "meta": {k: me[k] for k in ("seed", "K", "C", "D", "r_U", "r_V", "labels")}}, limit=5)
            continue
        clause = "M3:TraceJfa:" + v
        reported[clause] += 1
        if reported[clause] <= MAX_REPORTED:
            ck.violation(clause, {"mechanism": "M3", "module": "TraceJfa", "trace": tr, "meta": me,
                                  "rejected_at_event": pos})
    report_ranks(ck, rank_traces, rank_meta, traces.validate(ck, "jfaranks", ck.work, bare(rank_traces)), reported)
    ck.extra["fit_runs"] = len(fit_traces)
    ck.extra["rank_traces"] = len(rank_traces)
    ck.extra["rejected"] = dict(reported)


# ------------------------------------------------------------------ seeded real-valued problems
def problem(em, seed, K):
    """A seeded UBM, labelled statistics and a JFAMachine in a seeded initial state; the independent oracle."""
    r = np.random.RandomState(seed)
    C, dim = int(r.randint(1, 4)), int(r.randint(1, 4))
    I = int(r.randint(2, 5))
    labels = np.concatenate([[i] * int(r.randint(1, 4)) for i in range(I)]).astype(int)
    if r.rand() < 0.4:
        labels = labels[r.permutation(labels.size)]          # sessions of a class need not be contiguous
    H = labels.size
    rU, rV = int(r.randint(1, 3)), int(r.randint(1, 3))
    means = r.normal(size=(C, dim)) * 2
    var = r.uniform(0.5, 2.0, size=(C, dim))
    N = np.array([[float(r.choice([0.5, 1.0, 2.0])) if r.rand() < 0.4 else float(r.uniform(0.2, 8.0)) for _ in range(C)]
                  for _ in range(H)])
    spk = r.normal(size=(I, C, dim)) * 1.2                    # class offsets, session offsets, noise
    Fs = N[:, :, None] * (means[None] + spk[labels] + r.normal(size=(H, 1, dim)) * 0.7 + r.normal(size=(H, C, dim)) * 0.5)
    ubm = em.GMMMachine(C)
    ubm.means, ubm.variances, ubm.weights = means.copy(), var.copy(), np.full(C, 1.0 / C)
    mach = em.JFAMachine(r_U=rU, r_V=rV, ubm=ubm, em_iterations=K, random_state=int(seed % 1000))
    init = "create_UVD"
    if r.rand() < 0.5:                                        # any initial U, V, D (D may have negative entries)
        init = "seeded"
        mach.V = r.normal(size=(C * dim, rV)) * r.choice([0.3, 1.0, 3.0])
        mach.U = r.normal(size=(C * dim, rU)) * r.choice([0.3, 1.0, 3.0])
        mach.D = r.normal(size=C * dim) * 0.8 if r.rand() < 0.5 else r.uniform(0.05, 1.5, size=C * dim)
    stats = []
    for h in range(H):
        st = em.GMMStats(C, dim)
        st.n, st.sum_px, st.sum_pxx, st.t = N[h].copy(), Fs[h].copy(), np.zeros((C, dim)), 1
        stats.append(st)
    o = jm.Oracle(means, var, N, Fs, labels)
    nspc = [int(np.sum(labels == i)) for i in range(I)]
    meta = {"seed": seed, "K": K, "C": C, "D": dim, "classes": I, "labels": labels.tolist(), "r_U": rU, "r_V": rV,
            "init": init, "ubm_means": means.tolist(), "ubm_variances": var.tolist(), "n": N.tolist(),
            "sum_px": Fs.tolist(), "V0": np.asarray(mach.V).tolist(), "U0": np.asarray(mach.U).tolist(),
            "D0": np.asarray(mach.D).tolist()}
    return mach, stats, labels, nspc, o, meta


def raised_by_library(exc):
    """an exception whose traceback passes through the library under test (as opposed to a harness error)"""
    import os
    import traceback
    root = os.path.realpath(REPO_SRC)
    return any(os.path.realpath(f.filename).startswith(root) for f in traceback.extract_tb(exc.__traceback__))


def guarded(ck, reported, what, seed, K, fn):
    """Run a driver; an exception raised inside the library on a valid problem is a violation of the property
    (the steps must stay finite and keep their shapes), never a machinery failure."""
    try:
        return fn()
    except Exception as e:
        if not raised_by_library(e):
            raise
        clause = "M3:JfaPhases:StepRaised(%s)" % what
        reported[clause] += 1
        if reported[clause] <= MAX_REPORTED:
            ck.violation(clause, {"mechanism": "M3", "module": "JfaPhases", "meta": {"seed": seed, "K": K, "pairs": K, "driver": what},
                                  "observed": "%s: %s" % (type(e).__name__, e)})
        return None


def shapes_ok(mach, shp):
    cur = (np.shape(mach.V), np.shape(mach.U), np.shape(mach.D))
    return bool(cur == shp and all(np.all(np.isfinite(np.asarray(a, dtype=float))) for a in (mach.V, mach.U, mach.D)))


def rank_trace(kind, values, valid):
    """values[0] is the marginal before the first pair, values[k] after pair k.  TraceLoop's Monotone clause
    compares successive Iter events; the comparison of the first pair with the initial value is folded into the
    validity flag of event 1 (reported as MonotoneFirstPair)."""
    P = len(values) - 1
    rk = traces.ranks(values)
    ev = []
    for k in range(1, P + 1):
        ok = bool(valid[k - 1] and np.isfinite(values[k]) and (k > 1 or rk[1] >= rk[0]))
        ev.append({"ev": "Iter", "k": k, "rank": rk[k], "rel": "na", "guard": False, "valid": ok, "why": ""})
    ev.append({"ev": "Stop", "k": P, "rank": 0, "rel": "na", "guard": False, "valid": True, "why": ""})
    return {"kind": kind, "cap": P, "thr": False, "dir": "up", "ev": ev, "values": [float(v) for v in values],
            "valid_flags": [bool(v) for v in valid]}


def bare(trs):
    """the fields TraceLoop reads (the float values stay on the Python side)"""
    return [{k: t[k] for k in ("kind", "cap", "thr", "dir", "ev")} for t in trs]


def record_steps(em, seed, P, per_class=False):
    """The public per-phase steps, P E/M pairs per phase, the phase marginal after every pair.  With per_class the
    E-steps are called once per class on that class's statistics and the list of results is handed to the M-step,
    the way fit() proceeds for Dask input."""
    mach, X, y, nspc, o, meta = problem(em, seed, 1)
    meta = dict(meta, driver="public steps, one E-step per class" if per_class else "public steps", pairs=P)
    ya = np.asarray(y)

    def esteps(fn, **kw):
        if not per_class:
            return [fn(X, y, nspc, **kw)]
        res = []
        for k in sorted(set(ya.tolist())):
            idx = np.where(ya == k)[0]
            res.append(fn([X[i] for i in idx], ya[idx], nspc, **kw))
        return res
    shp = (np.shape(mach.V), np.shape(mach.U), np.shape(mach.D))
    n_acc, f_acc = mach.initialize(X, y, len(nspc))
    out = []
    vals, valid = [o.marg_V(np.asarray(mach.V, dtype=float))], []
    for _ in range(P):
        mach.m_step_v(esteps(mach.e_step_v, n_acc=n_acc, f_acc=f_acc))
        valid.append(shapes_ok(mach, shp))
        vals.append(o.marg_V(np.asarray(mach.V, dtype=float)) if valid[-1] else float("nan"))
    out.append(rank_trace("jfa-V", vals, valid))
    ly = mach.finalize_v(X, y, nspc, n_acc, f_acc)
    V = np.asarray(mach.V, dtype=float)
    yy = np.asarray(ly, dtype=float)
    vals, valid = [o.marg_U(np.asarray(mach.U, dtype=float), V, yy)], []
    for _ in range(P):
        mach.m_step_u(esteps(mach.e_step_u, latent_y=ly))
        valid.append(shapes_ok(mach, shp))
        vals.append(o.marg_U(np.asarray(mach.U, dtype=float), V, yy) if valid[-1] else float("nan"))
    out.append(rank_trace("jfa-U", vals, valid))
    lx = mach.finalize_u(X, y, nspc, ly)
    U = np.asarray(mach.U, dtype=float)
    xx = [np.asarray(a, dtype=float) for a in lx]
    vals, valid = [o.marg_D(np.asarray(mach.D, dtype=float), U, V, yy, xx)], []
    for _ in range(P):
        mach.m_step_d(esteps(mach.e_step_d, latent_x=lx, latent_y=ly, n_acc=n_acc, f_acc=f_acc))
        valid.append(shapes_ok(mach, shp))
        vals.append(o.marg_D(np.asarray(mach.D, dtype=float), U, V, yy, xx) if valid[-1] else float("nan"))
    out.append(rank_trace("jfa-D", vals, valid))
    if seed % 4 == 0:
        # a long D phase: on small training sets exact EM shrinks D geometrically (its entries pass through the
        # subnormal range on their way to zero); every one of several hundred E/M pairs still ascends
        vals, valid = [vals[-1]], []
        for _ in range(420):
            mach.m_step_d(esteps(mach.e_step_d, latent_x=lx, latent_y=ly, n_acc=n_acc, f_acc=f_acc))
            valid.append(shapes_ok(mach, shp))
            vals.append(o.marg_D(np.asarray(mach.D, dtype=float), U, V, yy, xx) if valid[-1] else float("nan"))
        out.append(rank_trace("jfa-D-long", vals, valid))
        meta["long_D_phase"] = {"iterations": 420, "smallest_|D|": float(np.min(np.abs(np.asarray(mach.D, dtype=float))))}
    return out, meta


def record_fit(em, seed, K):
    """JFAMachine.fit with the eight steps wrapped on the instance: the event trace of the control layer, and the
    phase marginals along the run (from the recorder's copies of V, U, D and of the estimates handed over)."""
    mach, X, y, nspc, o, meta = problem(em, seed, K)
    meta = dict(meta, driver="fit")
    rec = jm.Recorder(mach, o)
    mach.fit(X, y)
    tr = {"kind": "jfa-fit", "K": K, "ev": rec.events}
    rts = []
    nV, nU, nD = len(rec.Vs) - 1, len(rec.Us) - 1, len(rec.Ds) - 1
    flags = {nm: [e["shapes"] for e in rec.events if e["name"] == nm] for nm in ("MStepV", "MStepU", "MStepD")}
    try:
        if nV:
            rts.append(rank_trace("fit-V", [o.marg_V(v) for v in rec.Vs], flags["MStepV"]))
        if nU and rec.ly is not None:
            yy = np.asarray(rec.ly, dtype=float)
            rts.append(rank_trace("fit-U", [o.marg_U(u, rec.Vs[-1], yy) for u in rec.Us], flags["MStepU"]))
        if nD and rec.ly is not None and rec.lx is not None:
            yy = np.asarray(rec.ly, dtype=float)
            xx = [np.asarray(a, dtype=float) for a in rec.lx]
            rts.append(rank_trace("fit-D", [o.marg_D(d, rec.Us[-1], rec.Vs[-1], yy, xx) for d in rec.Ds], flags["MStepD"]))
    except Exception:       # estimates of an unexpected form: the event trace already carries the mismatch
        pass
    return tr, meta, rts


def corrupted(tr):
    """Corrupted copies of a good K = 3 trace with the clause the monitor must name."""
    out = []
    t = copy.deepcopy(tr)
    t["ev"][0], t["ev"][1] = t["ev"][1], t["ev"][0]
    out.append((t, "PhaseOrder"))
    t = copy.deepcopy(tr)
    t["ev"].pop()
    out.append((t, "PhaseOrder"))
    t = copy.deepcopy(tr)
    next(e for e in t["ev"] if e["name"] == "EStepU")["y"] = -1
    out.append((t, "HandOverUsesFinalSubspace"))
    t = copy.deepcopy(tr)
    next(e for e in t["ev"] if e["name"] == "FinalizeV")["y"] = 2
    out.append((t, "HandOverUsesFinalSubspace"))
    t = copy.deepcopy(tr)
    t["ev"][2]["v"] = 0
    out.append((t, "EachEStepSeesCurrentSubspace"))
    t = copy.deepcopy(tr)
    next(e for e in t["ev"] if e["name"] == "EStepU")["z"] = 1
    out.append((t, "ZIsZeroInVAndU"))
    t = copy.deepcopy(tr)
    next(e for e in t["ev"] if e["name"] == "EStepD")["exact"] = False
    out.append((t, "PosteriorMomentsExact"))
    t = copy.deepcopy(tr)
    t["ev"][-1]["shapes"] = False
    out.append((t, "ShapesKept"))
    for p, _ in out:
        p["kind"] = "selftest"
    return out


def report_ranks(ck, trs, metas, verdicts, reported):
    for tr, me, (v, pos) in zip(trs, metas, verdicts):
        ck.replayed += 1
        ck.seen(["ranks", tr["kind"], me["seed"], me["K"], me["driver"]])
        if v == "ok":
            if tr["kind"].startswith("jfa-"):
                ck.sample({"mechanism": "M3", "kind": tr["kind"], "values": tr["values"],
                           "meta": {k: me[k] for k in ("seed", "C", "D", "classes", "r_U", "r_V", "init")}}, limit=8)
            continue
        if v == "Valid":
            k = pos - 1
            shapes = tr["valid_flags"][k] if 0 <= k < len(tr["valid_flags"]) else True
            v = "ShapesKeptAndFinite" if not shapes or not np.isfinite(tr["values"][k + 1]) else "MonotoneFirstPair"
        clause = "M3:TraceLoop:%s(%s)" % (v, tr["kind"])
        reported[clause] += 1
        if reported[clause] <= MAX_REPORTED:
            ck.violation(clause, {"mechanism": "M3", "module": "TraceLoop", "trace": tr, "meta": me,
                                  "rejected_at_event": pos})


# ------------------------------------------------------------------ --replay
def replay_case(ck, em):
    case = ck.replay_case
    reported = collections.Counter()
    if case.get("mechanism") == "M2" and case.get("layer") == "numeric":
        verdict, detail = jm.replay_record(em, case["state"])
        ck.replayed += 1
        if verdict != "ok":
            ck.violation("M2:JfaPhases:" + verdict, {"mechanism": "M2", "module": "JfaPhases", "layer": "numeric",
                                                    "state": case["state"], "mismatch": verdict, "detail": detail})
        return
    me = case.get("meta") or {}
    if str(me.get("driver", "")).startswith("public steps"):
        got = guarded(ck, reported, "public steps", me["seed"], me["pairs"],
                      lambda: record_steps(em, me["seed"], me["pairs"], "per class" in me["driver"]))
        if got is None:
            return
        rts, meta = got
        report_ranks(ck, rts, [meta] * len(rts), traces.validate(ck, "jfaranks", ck.work, bare(rts)), reported)
    elif me.get("driver") == "fit":
        r_ctl = jm.control_run(ck, "control", [me["K"]], coverage=False)
        calls = r_ctl.records[0]["calls"]
        got = guarded(ck, reported, "fit", me["seed"], me["K"], lambda: record_fit(em, me["seed"], me["K"]))
        if got is None:
            return
        tr, meta, rts = got
        if tr["ev"] != calls:
            ck.violation("M2:JfaPhases:FitFollowsControlLayer", {"mechanism": "M2", "module": "JfaPhases",
                                                                 "layer": "control", "meta": meta,
                                                                 "observed_calls": [e["name"] for e in tr["ev"]]})
        (v, pos), = traces.validate(ck, "jfafit", ck.work, [tr], module="TraceJfa")
        if v != "ok":
            ck.violation("M3:TraceJfa:" + v, {"mechanism": "M3", "module": "TraceJfa", "trace": tr, "meta": meta,
                                              "rejected_at_event": pos})
        report_ranks(ck, rts, [meta] * len(rts), traces.validate(ck, "jfaranks", ck.work, bare(rts)), reported)
    else:
        ck.notes.append("replay of an M1 counterexample: run the tier again")
