"""C16 - a trained model is a function of the labelled sample multiset and the seed only.

M1  specs/Determinism.tla: the global NumPy generator as a token stream, each estimator's source of
    randomness as written (own generator seeded from random_state / np.random.seed then the global stream /
    none); histories of length <= 4 of Perturb(seed), PerturbDraw, Fit(estimator, config, problem, order,
    relabelling, seed).  ResultIsFunctionOfMultisetAndSeed, HistoryIndependent, RandomnessComesFromOwnSeed on
    every history, GlobalStreamEffectDocumented on every step; five named deviations must each be refuted.
M2  exported histories executed on the real code in this one process: Perturb = np.random.seed(s),
    PerturbDraw = np.random.rand(3), Fit = a fresh estimator with random_state=r fitted on the seeded problem
    in the given order / with the given class renaming.  Every fit is compared BITWISE with the reference of
    the same (variant, problem, order, relabelling, seed) computed before any history was run, and to 1e-8
    with the reference the model declares equal (reference order, identity relabelling) -- for k-means / GMM
    only with explicit initial parameters, because a seeded draw of sample indices depends on the order by
    construction.  The default GMM initialisation is also compared with the explicit
    KMeansMachine(n_gaussians, random_state=r) trainer the model says it is."""
import json
import random

import numpy as np

from .. import determinism_model as dm
from ..common import pin_repo


def clip(v):
    return [np.asarray(a).round(12).tolist() for a in v] if isinstance(v, list) else v


def run(ck):
    em = pin_repo()
    rng = random.Random(ck.seed)
    quick = ck.tier == "quick"
    ck.assumptions += [
        "k-means / GMM: invariance under permutation of the samples is demanded only with explicit initial "
        "parameters (config 'given'); with a seeded initialiser only bitwise history / global-generator independence",
        "class renamings are permutations of the ids 0..K-1 (ISV/JFA); WCCN additionally with the label sets "
        "{5,7,9}, {10,3,-4} and {-1,-2,-3}",
        "init_method 'k-means++' is excluded (broken in this environment)",
        "repeated identical fits: bitwise equality; permuted / relabelled: |obs-exp| <= 1e-8 max(1,|exp|)",
        "what a fit does to the global generator is recorded (coverage.global_stream) but not demanded: the "
        "property allows any effect",
    ]
    # ---------------------------------------------------------------- M1
    runs = []
    if quick:
        runs.append(("pairs", dm.model_run(ck, "histories<=2:all", 2, problems=(1, 2), coverage=False), 70))
        runs.append(("len4", dm.model_run(ck, "histories<=4:one-seed", 4, seeds=(1,), orders=(1,), relabels=(1,),
                                          coverage=False), 60))
    else:
        runs.append(("pairs", dm.model_run(ck, "histories<=2:all", 2, seeds=(0, 1, 2), orders=(1, 2, 3),
                                           relabels=(1, 2, 3, 4, 5, 6), problems=(1, 2), coverage=True), 280))
        runs.append(("len3", dm.model_run(ck, "histories<=3", 3, relabels=(1, 2, 3), coverage=True), 280))
        runs.append(("len4", dm.model_run(ck, "histories<=4:one-order", 4, orders=(1,), relabels=(1,),
                                          coverage=True), 280))
    for d, formulas in dm.DEVS.items():
        if quick:
            dm.model_run(ck, "deviation:" + d, 2, relabels=(1, 2), orders=(1,), dev=[d], export=False,
                         expect_violation=True, workers=4)
        else:
            for f in formulas:
                dm.model_run(ck, "deviation:%s:%s" % (d, f), 2, relabels=(1, 2), orders=(1,), dev=[d], export=False,
                             invariants=[f] if f in dm.INV else [], props=[f] if f in dm.PROPS else [],
                             expect_violation=True, workers=4)

    # ---------------------------------------------------------------- M2: choose histories and variants
    plan = []       # (run name, [steps], [variant or None per step])
    total = 0
    for name, r, n in runs:
        recs = sorted(r.records, key=lambda x: json.dumps(x, sort_keys=True))
        total += len(recs)
        if len(recs) > n:
            # histories in which an object is fitted again are kept with priority (up to a third of the sample)
            reuse = [x for x in recs if any(t[0] == "Fit" and len(t) > 12 and t[12] == "used" for t in x["h"])]
            keep = rng.sample(reuse, min(len(reuse), n // 3))
            rest = [x for x in recs if x not in keep]
            recs = keep + rng.sample(rest, n - len(keep))
        for rec in recs:
            steps = [dm.parse_step(t) for t in rec["h"]]
            for _ in range(1 if quick else 2):
                plan.append((name, steps, [rng.choice(dm.VARIANTS[(s["e"], s["c"])]) if s["a"] == "Fit" else None
                                           for s in steps]))
    ck.notes.append("M2 replays %d of the %d exported histories (seeded sample; every history of the model is "
                    "checked by TLC)" % (len(plan), total))
    probs = dm.Problems(ck.seed)

    def attempt(s, v, where, used=None):
        """One fit on the real code; an exception raised by the library is a violation."""
        try:
            return dm.fit(em, probs, s["e"], s["c"], v, s["d"], s["o"], s["p"], s["r"], used=used)
        except Exception as ex:   # noqa: BLE001 - any exception of a legitimate public call is a verdict
            import traceback
            ck.violation("M2:Determinism:ImplementationRaised",
                         {"mechanism": "M2", "module": "Determinism", "where": where, "fit": describe(s, v),
                          "detail": "%s: %s" % (type(ex).__name__, ex), "traceback": traceback.format_exc()[-2500:]})
            return None

    def describe(s, v):
        return {k: s[k] for k in ("e", "c", "d", "o", "p", "r")} | {"variant": v, "data_seed": ck.seed,
                                                                    "relabelling": list(dm.RELABEL[s["p"]])}

    # ---------------------------------------------------------------- references, before any history
    need = {}
    for _, steps, variants in plan:
        for s, v in zip(steps, variants):
            if s["a"] == "Fit":
                need.setdefault(dm.own_key(s, v), (s, v))
                cs = dict(s)
                cs["e"], cs["c"], _v, cs["d"], cs["o"], cs["p"], cs["r"] = dm.canonical_key(s, v)
                need.setdefault(dm.canonical_key(s, v), (cs, v))
    np.random.seed(ck.seed % (2 ** 32))
    ref, ref_g = {}, {}
    stream = {"as_modelled": 0, "not_as_modelled": 0}
    for k in sorted(need):
        s, v = need[k]
        g0 = dm.global_state()
        ref[k] = attempt(s, v, "reference")
        ref_g[k] = dm.global_state()
        if s["e"] not in ("isv", "jfa"):
            stream["as_modelled" if ref_g[k] == g0 else "not_as_modelled"] += 1
    # the references of fits the model declares equal agree to 1e-8 (order / relabelling invariance)
    for k in sorted(need):
        s, v = need[k]
        ck_ = dm.canonical_key(s, v)
        if ck_ != k and ref[k] is not None and ref[ck_] is not None:
            ex = dm.max_excess(ref[k], ref[ck_])
            if ex is not None:
                ck.violation("M2:Determinism:ResultIsFunctionOfMultisetAndSeed",
                             {"mechanism": "M2", "module": "Determinism", "where": "references",
                              "fit": describe(s, v), "equal_by_model_to": describe(need[ck_][0], v),
                              "max_abs_difference": ex, "observed": clip(ref[k]), "expected": clip(ref[ck_])})
    # the default GMM initialisation is a k-means seeded with the GMM's random_state
    twins = 0
    sweep = {}
    for d in (1, 2):
        for backend in (["numpy"] if quick else ["numpy", "dask"]):
            for r in (1, 2, 3, 5):
                s = {"a": "Fit", "e": "gmm", "c": "drawn", "d": d, "o": 1, "p": 1, "r": r}
                k = dm.own_key(s, "default/" + backend)
                if k not in need:
                    sweep[k] = (s, "default/" + backend)
                    ref[k] = attempt(s, "default/" + backend, "seed sweep")
    need.update(sweep)
    for k in sorted(need):
        s, v = need[k]
        if s["e"] == "gmm" and v.startswith("default/") and ref[k] is not None:
            t = attempt(s, "twin/" + v.split("/")[1], "twin")
            twins += 1
            if t is not None and not dm.bitwise_equal(t, ref[k]):
                # C16 only demands that equal (data, configuration, random_state) give equal results whatever
                # the history; it does not say HOW the seed is used.  A default initialisation that differs from
                # KMeansMachine(n, random_state=r) but is deterministic satisfies the property: recorded, not alarmed.
                note = ("observation (not a violation of C16): GMMMachine(random_state=r) with the default initialisation "
                        "differs from the same machine given k_means_trainer=KMeansMachine(n_gaussians, random_state=r)")
                if note not in ck.notes:
                    ck.notes.append(note)
    ck.extra["references"] = len(ref)
    ck.extra["gmm_default_vs_explicit_trainer"] = twins

    # ---------------------------------------------------------------- the histories
    fits = 0
    reused = {}
    for name, steps, variants in plan:
        trace = []
        bad = False
        for i, (s, v) in enumerate(zip(steps, variants)):
            if s["a"] == "Perturb":
                np.random.seed(s["r"])
                trace.append(["Perturb", s["r"]])
                continue
            if s["a"] == "PerturbDraw":
                np.random.rand(3)
                trace.append(["PerturbDraw"])
                continue
            trace.append(["Fit", describe(s, v)])
            # a "used" object: the one an earlier step of this history (same estimator, configuration, seed) fitted
            used = None
            if s.get("ob") == "used":
                prev = [q for q in steps[:i] if q["a"] == "Fit" and (q["e"], q["c"], q["r"]) == (s["e"], s["c"], s["r"])]
                used = prev[-1] if prev else None
                trace[-1][1]["object"] = "used before on problem %d (order %d, relabelling %d)" % (used["d"], used["o"], used["p"]) \
                    if used else "fresh"
            if used:
                reused[s["e"] + ":" + v] = reused.get(s["e"] + ":" + v, 0) + 1
            g0 = dm.global_state()
            dm.GAP[0] = i + 1          # the caller uses the global generator between construction and fit
            try:
                got = attempt(s, v, {"history": trace}, used=used)
            finally:
                dm.GAP[0] = 0
            g1 = dm.global_state()
            fits += 1
            k, kc = dm.own_key(s, v), dm.canonical_key(s, v)
            if s["e"] in ("isv", "jfa"):
                stream["as_modelled" if g1 == ref_g[k] else "not_as_modelled"] += 1
            else:
                stream["as_modelled" if g1 == g0 else "not_as_modelled"] += 1
            if got is None or ref[k] is None:
                bad = True
                break
            if not dm.bitwise_equal(got, ref[k]):
                bad = True
                ck.violation("M2:Determinism:HistoryIndependent",
                             {"mechanism": "M2", "module": "Determinism", "run": name, "history": trace, "step": i + 1,
                              "detail": "the fit differs bitwise from the reference of the same fit computed before "
                                        "the history", "max_abs_difference": dm.max_excess(got, ref[k], tol=0.0),
                              "observed": clip(got), "expected": clip(ref[k])})
                break
            if ref[kc] is not None:
                ex = dm.max_excess(got, ref[kc])
                if ex is not None:
                    bad = True
                    ck.violation("M2:Determinism:ResultIsFunctionOfMultisetAndSeed",
                                 {"mechanism": "M2", "module": "Determinism", "run": name, "history": trace,
                                  "step": i + 1, "equal_by_model_to": kc, "max_abs_difference": ex,
                                  "observed": clip(got), "expected": clip(ref[kc])})
                    break
        ck.replayed += 1
        ck.seen(trace)
        if not bad:
            ck.sample({"mechanism": "M2", "run": name, "history": [t if t[0] != "Fit" else
                       ["Fit", t[1]["e"], t[1]["variant"], "order %d" % t[1]["o"], "relabel %d" % t[1]["p"],
                        "seed %d" % t[1]["r"]] for t in trace], "verdict": "bitwise equal to the references"})
    ck.extra["fits_in_histories"] = fits
    ck.extra["fits_on_used_objects"] = reused
    ck.extra["global_stream"] = stream
    if stream["not_as_modelled"]:
        ck.notes.append("the effect of %d fits on the global generator is not the one Determinism.tla describes "
                        "(not demanded by the property)" % stream["not_as_modelled"])
