"""C10 - i-vectors are posterior means; i-vector EM never decreases the likelihood.

M1  specs/IVector.tla (exact rationals, dim_t in {1, 2}, C <= 2, D <= 2, counts including 0 and fractions,
    inductive one-step form: the current T / sigma / UBM means range over all small values):
    ProjectionSolvesSystem, ZeroFramesGiveZero, PosteriorCovIsInverse, MStepSolvesNormalEq, SigmaAboveFloor,
    AllFinite, AffineInvariant; the deviating variant IVECTOR_SIGMA_DIV_ZERO_COUNT (sigma = 0/0 for a
    component without data) must be refuted by TLC.
M2  every exported terminal state is replayed through IVectorMachine.project / transform and the
    module-level e_step / m_step: after every step the code must be at the value TLC printed
    (components without data: any finite T, any finite covariance >= floor).
M3  seeded real-valued UBMs and statistics: the marginal likelihood (independent NumPy evaluator, DESIGN.md
    Appendix D, itself checked against numerical quadrature at the start of the run) along the module-level
    e_step / m_step iteration and along IVectorMachine.fit with max_iterations = 1..K, as rank traces
    validated by TLC against specs/TraceLoop.tla."""
import random
from fractions import Fraction as F

import numpy as np

from .. import ivector_model as iv
from .. import tlc, traces
from ..common import pin_repo

MV = [F(-1), F(0), F(1, 2)]
TV = [F(-1), F(0), F(1, 2), F(1), F(2)]
SV = [F(1, 2), F(1), F(2)]
XV = [-1, 0, 1, 2]
RV = [F(0), F(1, 2), F(1)]
AFFS = [(F(2), F(1)), (F(-1), F(1, 2))]
#          name        C  D  Rt floor    (Bw  Ba   Bt)    scenarios quick / thorough
CONFIGS = [("t1-c2-d1", 2, 1, 1, F(1, 2), (60, 600, 2000), 500, 6000),
           ("t1-c2-d2", 2, 2, 1, F(1, 2), (60, 600, 2000), 250, 3000),
           ("t2-c1-d1", 1, 1, 2, F(1, 4), (30, 100, 400), 300, 3000),
           ("t2-c2-d1", 2, 1, 2, F(1, 2), (30, 100, 400), 350, 4000)]
# full products (every current state over the value sets): UBM means, T entries, sigma values, number of
# statistics lists quick / thorough
PRODUCTS = [("t1-c2-d1", 2, 1, 1, F(1, 2), (60, 600, 2000), MV, TV, SV, 2, 24),
            ("t2-c1-d1", 1, 1, 2, F(1, 4), (30, 100, 400), MV, TV, SV, 6, 40),
            ("t2-c2-d1", 2, 1, 2, F(1, 2), (30, 100, 400), [F(0), F(-1)], TV, SV, 0, 2),
            ("t1-c2-d2", 2, 2, 1, F(1, 2), (60, 600, 2000), [F(0)], TV, [F(1, 2), F(2)], 0, 4)]


def run(ck):
    em = pin_repo()
    rng = random.Random(ck.seed)
    quick = ck.tier == "quick"
    ck.assumptions += [
        "exact model bounded to dim_t <= 2, <= 2 components, <= 2 features, lists of 1-2 statistics that are the "
        "weighted moments of <= 2 grid points; a scenario whose exact i-vectors / accumulators leave the 32-bit "
        "scope (EScope / MScope of the module) is followed up to the projection / the E-step only",
        "one EM step from every small-rational current state (inductive form); whole training runs only through "
        "rank traces (M3) of the marginal likelihood computed by the independent evaluator of DESIGN.md Appendix D",
        "a component without data: any finite T and any finite covariance >= floor is accepted",
        "float comparison |obs-exp| <= 1e-8 max(1,|exp|) against exact rationals; ranks cluster values within 1e-9 "
        "relative",
        "the global NumPy seed is fixed by the driver before every IVectorMachine.fit (as the property allows)"]

    case = getattr(ck, "replay_case", None)
    if case:                                  # ./check C10 --replay <path>: re-execute exactly that case
        if case.get("mechanism") == "M2" and "record" in case:
            print("replayed:", iv.replay(ck, em, case["record"], case["dim_t"], F(*case["floor_exact"]), AFFS, case["config"]))
        elif case.get("mechanism") == "M3" and "meta" in case:
            m3(ck, em, rng, 0, seeds=[case["meta"]["seed"]])
        return

    # ---------------- M1 + export
    exported = []
    reach = {}
    for name, C, D, Rt, floor, (bw, ba, bt), nq, nt in CONFIGS:
        pool = iv.stat_pool(C, D, XV, RV, 2)
        n = nq if quick else nt
        scns = []
        for _ in range(n):
            zc = rng.randrange(C) if (C > 1 and rng.random() < 0.25) else None
            scns.append(iv.random_scenario(rng, C, D, Rt, pool, MV, TV, SV, zero_comp=zc))
        recs = iv.model_run(ck, name, C, D, Rt, floor, AFFS, scenarios=scns, bw=bw, ba=ba, bt=bt, coverage=not quick)
        reach[name] = {p: sum(1 for r in recs if r["phase"] == p) for p in ("p", "e", "m")}
        reach[name]["floor_active"] = sum(1 for r in recs if r["phase"] == "m" and any(any(x) for x in r["floored"]))
        reach[name]["component_without_data"] = sum(1 for r in recs if r["phase"] == "m" and any(r["nodata"]))
        reach[name]["zero_frame_statistic"] = sum(1 for r in recs if any(all(x[0] == 0 for x in st["n"])
                                                                             for st in r["scn"]["stats"]))
        exported += [(name, Rt, floor, r) for r in recs]
    # the inductive statement proper: every (m, T, sigma) over the value sets, a fixed family of statistics lists
    for name, C, D, Rt, floor, (bw, ba, bt), mv, tv, sv, nlq, nlt in PRODUCTS:
        nl = nlq if quick else nlt
        if not nl:
            continue
        pool = iv.stat_pool(C, D, XV, RV, 2)
        r2 = random.Random(20260927)           # fixed: these runs do not depend on VERIF_SEED
        lists = [[{"n": [F(0)] * C, "f": [[F(0)] * D] * C, "s": [[F(0)] * D] * C}]]
        while len(lists) < nl:
            k = len(lists) % 4
            if k == 3 and C > 1:
                lists.append(iv.random_scenario(r2, C, D, Rt, pool, MV, TV, SV, zero_comp=r2.randrange(C))["stats"])
            else:
                lists.append([r2.choice(pool) for _ in range(1 if k in (0, 1) else 2)])
        dom = iv.product_domain(C, D, Rt, mv, tv, sv, lists)
        iv.model_run(ck, "all-small-states:" + name, C, D, Rt, floor, AFFS, domain=dom, export=False,
                     bw=bw, ba=ba, bt=bt, coverage=not quick)
    # the deviating variant (what the code contains for a component without data) must be refuted
    C, D, Rt = 2, 1, 1
    pool = iv.stat_pool(C, D, XV, RV, 1)
    dscn = [iv.random_scenario(rng, C, D, Rt, pool, MV, TV, SV, zero_comp=rng.randrange(C)) for _ in range(20)]
    for s in dscn:
        s["upd"] = True
    iv.model_run(ck, "deviation:" + iv.DEVIATION, C, D, Rt, F(1, 2), AFFS, scenarios=dscn, dev=[iv.DEVIATION],
                 export=False, expect_violation=True, invariants=["SigmaAboveFloor", "AllFinite"])
    ck.exhaustive = True
    ck.extra["m1_scope"] = reach

    # ---------------- M2
    import collections
    outcomes = collections.Counter()
    for name, Rt, floor, rec in exported:
        outcomes[iv.replay(ck, em, rec, Rt, floor, AFFS, name)] += 1
    ck.extra["m2_outcomes"] = dict(outcomes)
    for name, r in reach.items():
        if not (r["m"] and r["floor_active"] and (name.startswith("t2-c1") or r["component_without_data"])):
            raise tlc.MachineryError("domain %s does not exercise the M-step / the floor / an empty component: %s"
                                     % (name, r))

    # ---------------- M3
    m3(ck, em, rng, 150 if quick else 800)


# ====================================================================== M3
def marginal(means, T, sigma, stats):
    """DESIGN.md Appendix D: log marginal likelihood of the statistics (up to -1/2 N log 2 pi), w integrated out."""
    C, D, Rt = T.shape
    tot = 0.0
    with np.errstate(all="ignore"):
        for n, f, s in stats:
            Ft = f - n[:, None] * means
            St = s - 2 * f * means + n[:, None] * means ** 2
            L = np.eye(Rt)
            b = np.zeros(Rt)
            for c in range(C):
                L = L + n[c] * (T[c].T / sigma[c]) @ T[c]
                b = b + (T[c].T / sigma[c]) @ Ft[c]
            if not (np.all(np.isfinite(L)) and np.all(np.isfinite(b))):
                return float("nan")
            sign, logdet = np.linalg.slogdet(L)
            tot += float(np.sum(-0.5 * n[:, None] * np.log(sigma) - 0.5 * St / sigma)
                         + 0.5 * b @ np.linalg.solve(L, b) - 0.5 * logdet)
    return tot


def _logsumexp(a):
    m = np.max(a)
    return float(m + np.log(np.sum(np.exp(a - m))))


def quadrature(means, T, sigma, stats):
    """Brute force: log of the integral over w ~ N(0, I) of the complete-data likelihood, on a grid (dim_t 1 or 2)."""
    C, D, Rt = T.shape
    if Rt == 1:
        g = np.linspace(-14, 14, 56001)
        W = g[:, None]
        lw = np.log(g[1] - g[0])
    else:
        g = np.linspace(-9, 9, 1441)
        a, b = np.meshgrid(g, g, indexing="ij")
        W = np.stack([a.ravel(), b.ravel()], axis=1)
        lw = 2 * np.log(g[1] - g[0])
    tot = 0.0
    for n, f, s in stats:
        ll = -0.5 * np.sum(W * W, axis=1) - 0.5 * Rt * np.log(2 * np.pi)
        for c in range(C):
            for d in range(D):
                mu = means[c, d] + W @ T[c, d]                 # mean of feature d of component c given w
                ll = ll - 0.5 * n[c] * np.log(sigma[c, d]) - 0.5 * (s[c, d] - 2 * mu * f[c, d] + n[c] * mu * mu) / sigma[c, d]
        tot += _logsumexp(ll) + lw
    return tot


def random_stats(r, em, ubm, means, U, zero_comp, direct):
    C, D = means.shape
    out = []
    for _ in range(U):
        nf = r.randint(2, 14)
        X = r.normal(size=(nf, D)) * 1.3 + means[r.randint(0, C, size=nf)] + r.normal(size=(1, D))
        if direct or zero_comp is not None:
            resp = r.dirichlet(np.ones(C) * 0.7, size=nf)        # fractional responsibilities
            if zero_comp is not None:
                resp[:, zero_comp] = 0.0
                resp = resp / np.maximum(resp.sum(axis=1, keepdims=True), 1e-300)
            n, f, s = resp.sum(axis=0), resp.T @ X, resp.T @ (X * X)
        else:
            g = ubm.acc_stats(X)
            n, f, s = np.array(g.n, dtype=float), np.array(g.sum_px, dtype=float), np.array(g.sum_pxx, dtype=float)
        out.append((n, f, s))
    return out


def m3(ck, em, rng, nscn, seeds=None):
    from bob.learn.em.ivector import e_step, m_step
    # ---- the evaluator against brute-force integration, before its numbers are used
    r = np.random.RandomState(ck.seed + 77)
    for Rt, C, D, U in ((1, 2, 2, 2), (1, 1, 1, 1), (1, 3, 2, 3), (2, 2, 1, 2), (2, 1, 2, 1)):
        means = r.normal(size=(C, D))
        T = r.normal(size=(C, D, Rt)) * 0.8
        sigma = r.uniform(0.5, 2.0, size=(C, D))
        stats = random_stats(r, em, None, means, U, None, True)
        a, b = marginal(means, T, sigma, stats), quadrature(means, T, sigma, stats)
        if not (np.isfinite(a) and abs(a - b) <= 1e-7 * max(1.0, abs(b))):
            raise tlc.MachineryError("marginal-likelihood evaluator disagrees with quadrature: %r vs %r (dim_t=%d)" % (a, b, Rt))
    ck.notes.append("marginal-likelihood evaluator agrees with numerical quadrature on 5 instances (dim_t 1 and 2)")

    trs, meta = [], []
    for seed in (seeds if seeds is not None else [rng.randrange(10 ** 6) for _ in range(nscn)]):
        r = np.random.RandomState(seed)
        C, D, Rt = int(r.randint(1, 4)), int(r.randint(1, 4)), int(r.randint(1, 4))
        U, K = int(r.randint(2, 9)), int(r.randint(3, 7))
        tiny = None
        if r.rand() < 0.2:
            # a high-dimensional total-variability space and a component with little (but positive) data
            C, Rt, U, K = max(C, 2), int(r.choice([8, 20, 40])), int(r.randint(10, 40)), int(r.randint(6, 10))
            tiny = int(r.randint(0, C))
        upd = bool(r.rand() < 0.6)
        floor = [1e-10, 1e-10, 0.3, 0.8, 3.0][r.randint(0, 5)]      # (3.0 lies above every UBM variance: active everywhere)
        zero_comp = int(r.randint(0, C)) if (C > 1 and r.rand() < 0.25) else None
        direct = bool(r.rand() < 0.5)
        means = r.normal(size=(C, D)) * 2
        var = r.uniform(0.9, 2.0, size=(C, D))
        if zero_comp is not None and tiny is None and r.rand() < 0.6:
            # the component without data is a collapsed one: its UBM variance lies below the i-vector floor
            var[zero_comp] = np.finfo(float).eps if r.rand() < 0.5 else var[zero_comp] * 1e-3
        ubm = em.GMMMachine(C)
        ubm.means = means.copy()
        ubm.variances = var.copy()
        w = r.dirichlet(np.ones(C) * 3)
        ubm.weights = w
        if tiny is not None:
            zero_comp, direct = None, True
        structured = tiny is not None and r.rand() < 0.5
        if structured:
            # utterances generated from a true total-variability matrix (strong signal, few frames each) and a
            # tight component that every utterance occupies only fractionally: EM runs long before it settles
            D, U, K = int(r.randint(8, 21)), int(r.randint(40, 70)), 12
            upd = bool(r.rand() < 0.3)
            floor = 1e-10
            means = r.normal(size=(C, D)) * 3
            var = r.uniform(0.5, 2.0, size=(C, D))
            var[tiny] *= 0.1
            ubm = em.GMMMachine(C)
            ubm.means, ubm.variances, ubm.weights = means.copy(), var.copy(), np.full(C, 1.0 / C)
            Ttrue = r.normal(size=(C, D, Rt)) * 3
            rare = 10.0 ** r.uniform(-3.2, -2.3)
            stats = []
            for _ in range(U):
                wv = r.normal(size=Rt)
                n = r.uniform(1.0, 3.0, size=C)
                n[tiny] = rare * r.uniform(0.5, 1.5)
                mu = means + Ttrue @ wv
                v = r.uniform(0.5, 1.5, size=(C, D))
                stats.append((n, n[:, None] * mu, n[:, None] * (v + mu * mu)))
        else:
            stats = random_stats(r, em, ubm, means, U, zero_comp, direct)
        T0 = r.normal(size=(C, D, Rt))
        if tiny is not None and not structured:
            if r.rand() < 0.6:
                # warm start: T fitted for a few iterations while the component still had ordinary counts
                warm = iv.make_machine(em, means, T0, var, Rt, floor, False)
                gw = [iv.make_stats(em, *st) for st in stats]
                for _ in range(3):
                    m_step(warm, e_step(warm, gw))
                if np.all(np.isfinite(warm.T)):
                    T0 = np.array(warm.T, dtype=float)
            eps = 10.0 ** r.uniform(-4, -2)
            stats = [(np.where(np.arange(C) == tiny, n * eps, n), np.where((np.arange(C) == tiny)[:, None], f * eps, f),
                      np.where((np.arange(C) == tiny)[:, None], s_ * eps, s_)) for n, f, s_ in stats]
        gs = [iv.make_stats(em, *st) for st in stats]
        me = {"seed": seed, "C": C, "D": D, "dim_t": Rt, "n_stats": U, "K": K, "update_sigma": upd,
              "variance_floor": floor, "component_without_data": zero_comp, "component_with_tiny_occupancy": tiny,
              "structured": bool(structured),
              "stats": "set directly (fractional responsibilities)" if (direct or zero_comp is not None) else "ubm.acc_stats"}

        def event(k, rank, T, sg):
            finite = bool(np.all(np.isfinite(T)) and np.all(np.isfinite(sg)))
            # the floor is demanded of UPDATED covariances (C10); without covariance updating sigma is the UBM's
            # variances, which the trainer does not touch
            valid = bool(finite and (not upd or np.all(sg >= floor)))
            active = bool(upd and finite and np.any(sg <= floor))
            return {"ev": "Iter", "k": k, "rank": rank, "rel": "na", "guard": bool(active or not valid),
                    "valid": valid, "why": ""}
        stop = {"ev": "Stop", "k": K, "rank": 0, "rel": "na", "guard": False, "valid": True, "why": ""}
        # ---- driver A: module-level e_step / m_step from a seeded T
        for driver in ("steps", "fit", "fit-bag"):
            if driver == "fit-bag" and (seed % 2 or not upd):
                continue        # the Bag path: every second trace that updates the covariance
            try:
                if driver == "steps":
                    mach = iv.make_machine(em, means, T0, var, Rt, floor, upd)
                    states = [(T0.copy(), var.copy())]
                    for k in range(K):
                        m_step(mach, e_step(mach, gs))
                        states.append((np.array(mach.T, dtype=float), np.array(mach.sigma, dtype=float)))
                else:
                    import dask
                    import dask.bag
                    states = []
                    for k in range(1, K + 1):
                        np.random.seed(seed % 9973)
                        mach = em.IVectorMachine(ubm, dim_t=Rt, max_iterations=k, update_sigma=upd, variance_floor=floor)
                        if driver == "fit":
                            mach.fit(gs)
                        else:
                            with dask.config.set(scheduler="synchronous"):
                                mach.fit(dask.bag.from_sequence(gs, npartitions=min(2, len(gs))))
                        states.append((np.array(mach.T, dtype=float), np.array(mach.sigma, dtype=float)))
            except Exception as e:
                ck.violation("M3:IVector:AllFinite", {"mechanism": "M3", "module": "TraceLoop", "meta": me, "driver": driver,
                                                       "detail": "training raised %s: %s" % (type(e).__name__, e)})
                continue
            vals = [marginal(means, T, sg, stats) for T, sg in states]
            rk = traces.ranks(vals)
            if driver == "steps":
                # event 1 is the starting point, event k+1 the state after k iterations
                ev = [event(k + 1, rk[k], *states[k]) for k in range(K + 1)]
                # event 1 is the caller's starting point, not a trained model: the floor is demanded of what
                # training returns (its covariance may be the UBM's, below the floor, before the first update)
                ev[0]["valid"] = bool(np.all(np.isfinite(states[0][0])) and np.all(np.isfinite(states[0][1])))
                tr = {"kind": "ivector-steps", "cap": K + 1, "thr": False, "dir": "up",
                      "ev": ev + [dict(stop, k=K + 1)]}
            else:
                ev = [event(k + 1, rk[k], *states[k]) for k in range(K)]
                tr = {"kind": "ivector-" + driver, "cap": K, "thr": False, "dir": "up", "ev": ev + [stop]}
            trs.append(tr)
            meta.append(dict(me, driver=driver, marginal=vals,
                             sigma_last=states[-1][1].tolist(), T_last=states[-1][0].tolist(),
                             inputs={"ubm_means": means.tolist(), "ubm_variances": var.tolist(),
                                     "T0": T0.tolist() if driver == "steps" else "np.random.seed(%d); fit" % (seed % 9973),
                                     "stats": [{"n": n.tolist(), "sum_px": f.tolist(), "sum_pxx": s.tolist()} for n, f, s in stats]}))
    verdicts = traces.validate(ck, "ivector", ck.work, trs)
    nguard = 0
    for tr, me, (v, pos) in zip(trs, meta, verdicts):
        ck.replayed += 1
        ck.seen(["M3", me["seed"], me["driver"]])
        nguard += any(e["guard"] for e in tr["ev"])
        if v == "ok":
            ck.sample({"mechanism": "M3", "trace": tr["ev"][:3], "meta": {k: me[k] for k in
                       ("seed", "driver", "C", "D", "dim_t", "K", "update_sigma", "variance_floor", "component_without_data")}},
                      limit=10)
            continue
        clause = {"Valid": "AllFinite/SigmaAboveFloor", "Monotone": "LikelihoodNonDecreasing"}.get(v, v)
        rep = {"mechanism": "M3", "module": "TraceLoop", "trace": tr, "meta": me, "rejected_at_event": pos, "clause": clause}
        sl = np.array(me["sigma_last"], dtype=float)
        zc = me["component_without_data"]
        if v == "Valid" and zc is not None and me["update_sigma"] and np.all(np.isnan(sl[zc])):
            ck.finding("D6", "M3:TraceLoop:" + clause, rep)
        else:
            ck.violation("M3:TraceLoop:" + clause, rep)
    ck.extra["m3_traces"] = len(trs)
    ck.extra["m3_traces_with_floor_active_or_invalid_step"] = nguard
