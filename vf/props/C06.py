"""C06 - k-means training descends the true distortion and stops by its stated rule.

M1  specs/KMeans.tla (exact rationals): Descent, CentroidIsMeanOfMembers, CriterionIsMeanMinDist,
    StopRule, CapRespected, NoConvergenceBeforeStep2, ChunkInvariant over every small configuration;
    the deviating variant (criterion as the sum of block means) must be refuted by TLC.
M2  every exported scenario is replayed through KMeansMachine.fit (NumPy, and Dask with the
    scenario's row composition): the trajectory of the code must be a path of TLC's state graph.
M3  seeded real-valued data with random / k-means|| initialisation, recorded as rank traces and
    validated by TLC against specs/TraceLoop.tla."""
import os
import random
from fractions import Fraction as F

import numpy as np

from .. import kmeans_model as km
from .. import traces
from ..common import pin_repo

THRS = [F(-1), F(0), F(1, 100), F(1, 2)]


def run(ck):
    em = pin_repo()
    rng = random.Random(ck.seed)
    quick = ck.tier == "quick"
    ck.assumptions += [
        "exact model bounded to <= 6 samples, <= 3 clusters, <= 2 features on an integer grid; larger shapes only "
        "through rank traces (M3)",
        "float comparison |obs-exp| <= 1e-8 max(1,|exp|) against exact rationals",
        "trajectory of the code observed through fits capped at 1..k without threshold (explicit initial centroids "
        "make restarts deterministic)",
        "k-means++ initialisation is unusable in this environment (dask-ml / scikit-learn signature mismatch)"]

    # ---------------- M1 (+ export of the state graphs for M2)
    cov = not quick
    vals = [0, 1, 2, 3, 5]
    n1 = 4 if quick else 5
    data1 = km.datasets(n1, 1, vals)
    inits1 = km.initsets(2, 1, vals)
    comps1 = list(km.compositions(n1))
    comps1 = [c for c in comps1 if len(c) <= (2 if quick else 3)]
    if not quick:
        data1 = rng.sample(data1, 70)
    g_num = km.model_run(ck, "numeric-1d", ck.work, n1, 1, 2, data1, inits1, comps1, [4], [F(-1)], coverage=False)
    stop_data = rng.sample(data1, 12 if quick else 40)
    g_stop = km.model_run(ck, "stop-rule", ck.work, n1, 1, 2, stop_data, inits1, [(n1,)], [0, 1, 2, 4, km.NOCAP], THRS,
                          coverage=cov)
    # 2-D, three clusters
    vals2 = [0, 1, 3]
    n2 = 4 if quick else 5
    data2 = rng.sample(km.datasets(n2, 2, vals2), 40 if quick else 60)
    inits2 = rng.sample(km.initsets(3, 2, vals2), 6 if quick else 8)
    g_2d = km.model_run(ck, "numeric-2d-k3", ck.work, n2, 2, 3, data2, inits2, [(n2,), (1, n2 - 1)], [3],
                        [F(-1), F(1, 100)], coverage=False)
    # the deviating variant must be refuted (the property is not vacuous on this domain)
    km.model_run(ck, "deviation:KMEANS_CRITERION_SUM_OF_BLOCK_MEANS", ck.work, 4, 1, 2, km.datasets(4, 1, vals)[:20],
                 inits1[:3], [(1, 3)], [2], [F(-1)], dev=["KMEANS_CRITERION_SUM_OF_BLOCK_MEANS"],
                 expect_violation=True, properties=["CriterionIsMeanMinDist"], invariants=[], export=False)
    ck.exhaustive = True

    # ---------------- M2
    import collections
    nscn = 0
    outcomes = collections.Counter()

    int_share = 0.3

    def replay(graph, label, limit, dask_share=1.0):
        nonlocal nscn
        groups = sorted(graph.values(), key=lambda g: repr(g["s"]))
        if limit and len(groups) > limit:
            groups = rng.sample(groups, limit)
        for g in groups:
            modes = ["dask"] if len(g["s"]["comp"]) > 1 else ([None, "dask"] if rng.random() < dask_share else [None])
            runs = [(mode, None, None) for mode in modes]
            if rng.random() < 0.3:
                # the same scenario in much smaller units (the stopping rule and the criterion are relative)
                runs.append((modes[0], km.Transform(scale=1e-4), None))
            if rng.random() < int_share:
                # the same scenario scaled by 50 and stored as 8-bit integers (per-cluster sums exceed 255)
                runs.append((modes[-1] if rng.random() < 0.5 else modes[0], km.Transform(scale=50.0), "uint8"))
            for mode, tf, dt in runs:
                for init, verdict, detail in km.walk(em, g, tf=tf, dask_mode=mode, dtype=dt):
                    nscn += 1
                    ck.replayed += 1
                    ck.seen([label, g["s"], init, mode, dt])
                    outcomes[verdict if verdict in ("ok", "left-domain", "skip") else "violation"] += 1
                    if verdict in ("ok", "left-domain", "skip"):
                        if verdict == "ok":
                            ck.sample({"mechanism": "M2", "scenario": g["s"], "init": init, "input": mode or "numpy",
                                       "verdict": "ok"})
                        continue
                    ck.violation("M2:KMeans:" + verdict,
                                 {"mechanism": "M2", "module": "KMeans", "scenario": g["s"], "init": init,
                                  "input": mode or "numpy", "dtype": dt or "float64",
                                  "transform": tf.describe() if tf else None, "detail": detail})

    replay(g_num, "1d", 40 if quick else 280)
    replay(g_stop, "stop", 0 if quick else 220, dask_share=0.15 if quick else 0.5)
    replay(g_2d, "2d", 20 if quick else 150)
    ck.extra["m2_scenarios"] = nscn
    ck.extra["m2_outcomes"] = dict(outcomes)

    # ---------------- M3
    m3(ck, em, rng, 80 if quick else 500)


def m3(ck, em, rng, ntraces):
    import dask
    import dask.array as da
    trs, meta = [], []
    for t in range(ntraces):
        seed = rng.randrange(10 ** 6)
        r = np.random.RandomState(seed)
        n = r.randint(8, 60)
        d = r.randint(1, 4)
        k = r.randint(1, 5)
        X = r.normal(size=(n, d)) * r.uniform(0.5, 3) + r.normal(size=(k, d))[r.randint(0, k, size=n)] * 4
        if r.rand() < 0.2:
            X = np.round(X)          # duplicates and ties
        elif r.rand() < 0.25:
            X = np.clip(np.round(X * 20 + 120), 0, 255).astype(np.uint8)     # 8-bit data
        method = "random" if r.rand() < 0.5 else "k-means||"
        cap = int(r.randint(1, 8))
        slow = t >= ntraces - ntraces // 2
        if slow:
            # slowly converging runs (round eight): one broad blob cut into three or four clusters, so that border samples
            # keep changing sides for many iterations -- iterations in which samples swap clusters while every cluster
            # SIZE stays the same, or the criterion hardly moves, are where a shortcut for "nothing changes any more"
            # (other than the stated rule) stops too early
            n, d, k = int(r.randint(50, 120)), int(r.randint(1, 3)), int(r.randint(3, 5))
            X = r.normal(size=(n, d)) * r.uniform(0.5, 3) + r.normal(size=(1, d)) * 4
            method, cap = "random", 8
        thr = [None, 0.0, 1e-5, 1e-2, 0.3][r.randint(0, 5)]
        chunks = None
        if r.rand() < 0.4:
            cut = sorted(set(r.randint(1, n, size=r.randint(1, 3)).tolist()))
            sizes = np.diff([0] + cut + [n]).tolist()
            chunks = (tuple(int(s) for s in sizes), d)

        def fit(c, th):
            m = em.KMeansMachine(k, init_method=method, random_state=seed % 1000, max_iter=c, convergence_threshold=th)
            np.random.seed(seed % 97)
            with dask.config.set(scheduler="synchronous"):
                m.fit(da.from_array(X, chunks=chunks) if chunks else X)
            return m
        try:
            traj = [fit(c, None) for c in range(1, cap + 1)]
            final = fit(cap, thr)
            m0 = fit(0, None)
        except Exception as e:
            # environmental failures of the k-means|| initialiser (raised inside dask-ml / scikit-learn) are not
            # verdicts; anything the library itself raises, and any failure with the plain "random" initialiser, is
            import traceback
            from ..common import REPO_SRC
            tb = traceback.extract_tb(e.__traceback__)
            own = bool(tb) and os.path.realpath(tb[-1].filename).startswith(os.path.realpath(REPO_SRC))
            if method == "random" or own:
                ck.violation("M3:KMeans:FitRaised", {"mechanism": "M3", "module": "TraceLoop",
                             "meta": {"seed": seed, "n": int(n), "d": int(d), "k": int(k), "init": method, "cap": cap, "thr": thr},
                             "detail": "%s: %s" % (type(e).__name__, e), "traceback": traceback.format_exc()[-1500:]})
            else:
                ck.notes.append("M3 driver skipped a scenario: %s" % type(e).__name__)
            continue
        cents = [np.array(m0.centroids_, dtype=float)] + [np.array(m.centroids_, dtype=float) for m in traj]
        if not np.all(np.isfinite(cents[0])):
            continue

        def distortion(c):
            if not np.all(np.isfinite(c)):
                return float("nan")
            mm = em.KMeansMachine(k)
            mm.centroids_ = c
            return float(np.asarray(mm.transform(np.asarray(X, dtype=float))).min(axis=0).mean())
        D = [distortion(c) for c in cents]
        rk = traces.ranks(D)
        crits = [float("inf")] + [float(m.average_min_distance) for m in traj]
        # which iteration emptied a cluster (precondition of descent)
        ev = []
        stop_at = None
        for i in range(1, cap + 1):
            mm = em.KMeansMachine(k)
            mm.centroids_ = cents[i - 1]
            emptied = np.all(np.isfinite(cents[i - 1])) and len(set(np.asarray(mm.predict(np.asarray(X, dtype=float))).tolist())) < k
            bad = not np.all(np.isfinite(cents[i - 1]))
            rel = traces.rel_change(crits[i - 1], crits[i], thr) if i > 1 else "na"
            # the criterion reported at iteration i must be the distortion of the centroids entering it
            crit_ok = bad or abs(crits[i] - D[i - 1]) <= 1e-9 * max(1.0, abs(D[i - 1]))
            # the centroids after iteration i are the Lloyd successor of those entering it: the means of the samples
            # nearest to each predecessor, computed here in plain NumPy (round eight: a run capped at i iterations that
            # quietly performed fewer returns an earlier member of the trajectory).  Not decided when a sample is
            # equidistant from two centroids or a cluster is empty.
            succ_ok, why = True, ""
            if not bad and not emptied:
                Xf = np.asarray(X, dtype=float)
                d2 = ((Xf[:, None, :] - cents[i - 1][None, :, :]) ** 2).sum(axis=-1)
                two = np.sort(d2, axis=1)[:, :2] if k > 1 else None
                tied = k > 1 and bool(np.any(two[:, 1] - two[:, 0] <= 1e-9 * (1.0 + two[:, 1])))
                lab = d2.argmin(axis=1)
                if not tied and len(set(lab.tolist())) == k:
                    succ = np.array([Xf[lab == j].mean(axis=0) for j in range(k)])
                    succ_ok = bool(np.allclose(cents[i], succ, rtol=1e-9, atol=1e-9 * (1.0 + np.abs(Xf).max())))
                    if not succ_ok:
                        why = "centroids after %d iterations are not the means of the samples nearest to their predecessors" % i
            ev.append({"ev": "Iter", "k": i, "rank": rk[i], "rel": rel, "guard": bool(emptied or bad),
                       "valid": bool(crit_ok and succ_ok), "why": why})
            same = np.array_equal(final.centroids_, cents[i], equal_nan=True) and \
                (final.average_min_distance == crits[i] or (np.isnan(final.average_min_distance) and np.isnan(crits[i])))
            if same and stop_at is None and (rel in ("le", "edge") or i == cap):
                stop_at = i
        if stop_at is None:
            # the thresholded run matches no admissible stopping point: let the monitor name the clause
            cand = [i for i in range(1, cap + 1) if np.array_equal(final.centroids_, cents[i], equal_nan=True)]
            stop_at = cand[0] if cand else cap
        ev = ev[:stop_at] + [{"ev": "Stop", "k": stop_at, "rank": 0, "rel": "na", "guard": False, "valid": True, "why": ""}]
        # rank of the initial distortion precedes the first iteration: prepend as the monitor's initial rank
        tr = {"kind": "kmeans", "cap": cap, "thr": thr is not None, "dir": "down", "ev": ev, "rank0": rk[0],
              "fromStart": True}     # cents[0] are the centroids the first iteration was entered with: it descends too
        trs.append(tr)
        meta.append({"seed": seed, "n": n, "d": d, "k": k, "init": method, "cap": cap, "thr": thr,
                     "chunks": chunks[0] if chunks else None, "distortion": D, "reported": crits})
    verdicts = traces.validate(ck, "kmeans", ck.work, trs)
    for tr, me, (v, pos) in zip(trs, meta, verdicts):
        ck.replayed += 1
        ck.seen(["M3", me["seed"]])
        if v == "ok":
            ck.sample({"mechanism": "M3", "trace": tr["ev"][:3], "meta": {k: me[k] for k in ("seed", "n", "d", "k", "init", "cap", "thr")}}, limit=8)
        else:
            clause = v
            if v == "Valid":
                whys = [e["why"] for e in tr["ev"][:pos] if not e["valid"]]
                clause = "CentroidIsMeanOfMembers" if whys and whys[-1] else "CriterionIsMeanMinDist"
            ck.violation("M3:TraceLoop:" + clause, {"mechanism": "M3", "module": "TraceLoop", "trace": tr, "meta": me,
                                                     "rejected_at_event": pos, "clause": clause})
    ck.extra["m3_traces"] = len(trs)
