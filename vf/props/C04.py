"""C04 - array training is independent of chunking, task order and worker isolation.

M1  specs/ArrayTrain.tla: for every number of row blocks, every split of the feature axis, both memory
    modes, every update-switch set and EVERY topological order of the E-step tasks over two iterations:
    ExactlyOncePerIter, EveryBlockCarriesAllFeatures, AllContribsAtCurrentVersion, HostFreshAfterIter,
    SameAsSequential.  Two deviations are refuted: a copy-back list missing an attribute (fails in
    Isolated mode only -- the blind spot of threaded-scheduler tests) and blocks split along the feature
    axis.  specs/KMeans.tla ChunkInvariant covers the chunked criterion (checked in C06).
M2  every exported behaviour (row blocks, feature split, mode, schedule) is executed on the real trainers
    under the replaying scheduler (vf/sched.py): k-means, GMM ML / MAP, ISV / JFA fit_using_array, WCCN,
    Whitening; parameters, reported criterion and the result of a thresholded run (hence the number of
    iterations) must equal the in-memory run."""
import random

import numpy as np

from .. import mc, tlc
from ..common import pin_repo
from ..kmeans_model import compositions
from ..sched import ReplayScheduler

INV = ["ExactlyOncePerIter", "EveryBlockCarriesAllFeatures", "AllContribsAtCurrentVersion", "HostFreshAfterIter",
       "SameAsSequential"]
ATTRS = ["weights", "means", "variances"]


def tset(items):
    return "{" + ", ".join('"%s"' % i for i in items) + "}"


def model(ck, name, maxrb, fbs, upd_sets, copybacks, dev=(), expect_violation=False, export=True, coverage=False,
          modes=("Shared", "Isolated"), inv=INV):
    defs = {"MC_Upd": mc.Expr("{" + ", ".join(tset(u) for u in upd_sets) + "}"),
            "MC_CB": mc.Expr("{" + ", ".join(tset(c) for c in copybacks) + "}"),
            "MC_Attrs": mc.Expr(tset(ATTRS)), "MC_Modes": mc.Expr(tset(modes)),
            "MC_FBs": mc.Expr("{" + ", ".join(map(str, fbs)) + "}"),
            "MC_Dev": mc.Expr(tset(dev))}
    text = mc.module("MC_ArrayTrain", ["ArrayTrain"], defs)
    cfg = mc.cfg(consts={"MaxRB": maxrb, "MaxIter": 2},
                 subst={"FBs": "MC_FBs", "Attrs": "MC_Attrs", "UpdatedSets": "MC_Upd", "CopyBacks": "MC_CB",
                        "Modes": "MC_Modes", "Dev": "MC_Dev"},
                 invariants=inv, constraints=["Export"] if export else [])
    r = tlc.run(ck.work, "MC_ArrayTrain", cfg, root_text=text, workers=16, coverage=coverage,
                expect_violation=expect_violation)
    ck.account(name, r, expect_violation=expect_violation)
    return r.records


def run(ck):
    em = pin_repo()
    rng = random.Random(ck.seed)
    quick = ck.tier == "quick"
    ck.assumptions += ["worker isolation is emulated by cloudpickle round trips of (task, inputs) and of results in a "
                       "single-threaded replaying scheduler; no real multi-process cluster is started",
                       "the model's schedule is bound to the implementation as a choice sequence over the ready tasks",
                       "parameters compared to 1e-8 relative (re-association of floating-point sums across chunkings)"]
    upd = [["means"], ["weights", "means", "variances"], ["variances"], ["weights"]]
    recs = model(ck, "array-train", 3 if quick else 4, [1, 2], upd, [ATTRS], coverage=not quick)
    ck.exhaustive = True
    model(ck, "deviation:copy-back-without-variances", 2, [1], [ATTRS], [["weights", "means"]], expect_violation=True,
          export=False, inv=["HostFreshAfterIter"])
    # the same faulty copy-back list is invisible when tasks share the caller's memory
    model(ck, "shared-mode-hides-missing-copy-back", 2, [1], [ATTRS], [["weights", "means"]], export=False,
          modes=["Shared"], inv=["HostFreshAfterIter"])
    model(ck, "deviation:BLOCKS_SPLIT_FEATURE_AXIS", 2, [2], [ATTRS], [ATTRS], dev=["BLOCKS_SPLIT_FEATURE_AXIS"],
          expect_violation=True, export=False)
    ck.extra["behaviours_exported"] = len(recs)
    limit = 70 if quick else 1200
    if len(recs) > limit:
        # TLC checks every schedule; the implementation is driven along a seeded sample of them
        recs = rng.sample(recs, limit)
    for rec in recs:
        replay(ck, em, rec, rng)
    many_blocks(ck, em, rng, 10 if quick else 80)
    big_blocks(ck, em, rng, 14 if quick else 70)


def flat_choices(order):
    """the model's schedule as a choice sequence: position of the chosen task among the remaining ones"""
    out = []
    for it in order:
        remaining = sorted(map(tuple, it))
        for t in it:
            out.append(remaining.index(tuple(t)))
            remaining.remove(tuple(t))
    return out or [0]


def replay(ck, em, rec, rng):
    import dask
    import dask.array as da
    seed = rng.randrange(10 ** 6)
    r = np.random.RandomState(seed)
    rb, fb, mode = rec["rb"], rec["fb"], rec["mode"]
    upd = set(rec["updated"])
    D = 2 if fb == 2 else int(r.randint(1, 4))
    n = int(r.randint(max(rb, 4), 9))
    comps = [c for c in compositions(n) if len(c) == rb]
    comp = comps[r.randint(0, len(comps))]
    fchunks = (D,) if fb == 1 else (1, D - 1)
    C = 2
    centres = r.normal(size=(C, D)) * 3
    X = centres[r.randint(0, C, size=n)] + r.normal(size=(n, D))
    zero_block = None
    if r.rand() < 0.3:
        # one row block made of exactly-zero feature vectors (silence / padding frames): a block that is "all zero"
        # is not an empty block
        zero_block = int(r.randint(0, rb))
        z0 = sum(comp[:zero_block])
        X[z0:z0 + comp[zero_block]] = 0.0
    y = np.array([i % 2 for i in range(n)])
    r.shuffle(y)
    choices = flat_choices(rec["order"])
    isolate = mode == "Isolated"
    scn = {"rows": n, "features": D, "row_chunks": list(comp), "feature_chunks": list(fchunks), "mode": mode,
           "updated": sorted(upd), "choices": choices, "seed": seed, "all_zero_row_block": zero_block}

    def sched():
        return ReplayScheduler(choices=choices, isolate=isolate)

    def darr(a):
        return da.from_array(a, chunks=(tuple(comp), fchunks))

    def bad(trainer, clause, detail):
        ck.violation("M2:ArrayTrain:%s:%s" % (trainer, clause), {"mechanism": "M2", "module": "ArrayTrain", "trainer": trainer,
                                                               "scenario": scn, "detail": detail})

    def same(a, b):
        a, b = np.asarray(a, dtype=float), np.asarray(b, dtype=float)
        return a.shape == b.shape and np.allclose(a, b, rtol=1e-8, atol=1e-10, equal_nan=False)

    ck.replayed += 1
    ck.seen(rec)
    graphs = {}
    # ---- k-means
    init = X[:C].copy() + 0.1
    for cap, thr in ((2, None), (6, 1e-3)):
        ref = em.KMeansMachine(C, init_method=init.copy(), max_iter=cap, convergence_threshold=thr).fit(X)
        s = sched()
        try:
            with dask.config.set(scheduler=s):
                got = em.KMeansMachine(C, init_method=init.copy(), max_iter=cap, convergence_threshold=thr).fit(darr(X))
        except Exception as e:
            bad("kmeans", "Raised", "%s: %s" % (type(e).__name__, e))
            break
        graphs["kmeans"] = s.graphs[-1] if s.graphs else []
        if not same(got.centroids_, ref.centroids_):
            bad("kmeans", "SameModel", "centroids %s, in-memory %s (cap=%s thr=%s)" % (np.asarray(got.centroids_).tolist(), np.asarray(ref.centroids_).tolist(), cap, thr))
            break
        if not same([got.average_min_distance], [ref.average_min_distance]):
            bad("kmeans", "SameCriterion", "average_min_distance %r, in-memory %r" % (got.average_min_distance, ref.average_min_distance))
            break
    # ---- GMM ML / MAP
    um, uv, uw = "means" in upd, "variances" in upd, "weights" in upd
    for trainer in ("ml", "map"):
        def mk(cap, thr):
            kw = dict(max_fitting_steps=cap, convergence_threshold=thr, update_means=um, update_variances=uv, update_weights=uw)
            if trainer == "map":
                prior = em.GMMMachine(C)
                prior.means, prior.variances, prior.weights = centres + 0.3, np.ones((C, D)) * 1.5, np.array([0.4, 0.6])
                return em.GMMMachine(C, trainer="map", ubm=prior, **kw)
            m = em.GMMMachine(C, **kw)
            m.means, m.variances, m.weights = centres + 0.3, np.ones((C, D)) * 1.5, np.array([0.4, 0.6])
            return m
        stop = False
        for cap, thr in ((2, None), (8, 1e-2)):
            ref = mk(cap, thr).fit(X)
            s = sched()
            try:
                with dask.config.set(scheduler=s):
                    got = mk(cap, thr).fit(darr(X))
            except Exception as e:
                bad("gmm-" + trainer, "Raised", "%s: %s" % (type(e).__name__, e))
                break
            graphs["gmm-" + trainer] = s.graphs[-1] if s.graphs else []
            for f in ("means", "variances", "weights"):
                if not same(getattr(got, f), getattr(ref, f)):
                    bad("gmm-" + trainer, "SameModel", "%s %s, in-memory %s (cap=%s thr=%s)" % (
                        f, np.asarray(getattr(got, f)).tolist(), np.asarray(getattr(ref, f)).tolist(), cap, thr))
                    stop = True
                    break
            if stop:
                break
    # ---- GMM on a Dask array whose block lengths are unknown (lazy row filtering): same rows, NaN chunk sizes
    if fb == 1:
        keep = np.ones(2 * n, dtype=bool)
        keep[1::2] = False
        big = np.empty((2 * n, D))
        big[::2] = X
        big[1::2] = 1e6            # rows that the lazy mask removes
        rows2 = tuple(2 * c for c in comp)
        # a Dask mask: the filtered array's block lengths are unknown (NaN) until computed
        lazy = da.from_array(big, chunks=(rows2, D))[da.from_array(keep, chunks=(rows2,))]
        assert np.isnan(lazy.shape[0])
        def mkg(cap, thr):
            m = em.GMMMachine(C, max_fitting_steps=cap, convergence_threshold=thr, update_means=um, update_variances=uv,
                              update_weights=uw)
            m.means, m.variances, m.weights = centres + 0.3, np.ones((C, D)) * 1.5, np.array([0.4, 0.6])
            return m
        for cap, thr in ((2, None), (60, 1e-3)):
            ref = mkg(cap, thr).fit(X)
            try:
                with dask.config.set(scheduler=sched()):
                    got = mkg(cap, thr).fit(lazy)
            except Exception as e:
                bad("gmm-ml", "Raised", "unknown chunk sizes: %s: %s" % (type(e).__name__, e))
                break
            if any(not same(getattr(got, f), getattr(ref, f)) for f in ("means", "variances", "weights")):
                bad("gmm-ml", "SameModel", "Dask array with unknown block lengths (lazily filtered rows), cap=%s thr=%s: "
                    "model differs from the in-memory result" % (cap, thr))
                break
    # ---- ISV / JFA from labelled arrays
    ubm = em.GMMMachine(C)
    ubm.means, ubm.variances, ubm.weights = centres.copy(), np.ones((C, D)) * 1.2, np.array([0.5, 0.5])
    for kind in ("isv", "jfa"):
        used_before = bool(r.rand() < 0.4)

        def mkfa():
            if kind == "isv":
                m = em.ISVMachine(r_U=1, em_iterations=2, ubm=ubm, random_state=3)
            else:
                m = em.JFAMachine(r_U=1, r_V=1, em_iterations=2, ubm=ubm, random_state=3)
            if used_before:
                # a machine with a past (subspace assigned, a client enrolled and scored) before it is trained
                m.U = np.array(m.U) * 0.5 + 0.1
                st = [ubm.acc_stats(X[:3]), ubm.acc_stats(X[3:])]
                m.score(m.enroll(st), st[:1])
            return m
        ref = mkfa().fit_using_array(X, y)
        s = sched()
        try:
            with dask.config.set(scheduler=s):
                got = mkfa().fit_using_array(darr(X), y if r.rand() < 0.5 else da.from_array(y, chunks=(tuple(comp),)))
        except Exception as e:
            bad(kind, "Raised", "%s: %s" % (type(e).__name__, e))
            continue
        for f in ("U", "V", "D"):
            if not same(np.asarray(getattr(got, f), dtype=float), np.asarray(getattr(ref, f), dtype=float)):
                bad(kind, "SameModel", "%s differs from the in-memory result" % f)
                break
    # ---- WCCN / whitening (dask.array's own graph; the choice sequence drives a topological order)
    if D >= 1 and n >= D + 3:
        try:
            ref = em.Whitening().fit(X)
            with dask.config.set(scheduler=sched()):
                got = em.Whitening().fit(darr(X))
                gw, gs = dask.compute(got.weights, got.input_subtract)
            if not (same(gw, ref.weights) and same(gs, ref.input_subtract)):
                bad("whitening", "SameModel", "weights / input_subtract differ from the in-memory result")
            yy = np.array([i % 2 for i in range(n)])
            ref = em.WCCN().fit(X, yy)
            with dask.config.set(scheduler=sched()):
                got = em.WCCN().fit(darr(X), yy)
                gw = dask.compute(got.weights)[0]
            if not same(gw, ref.weights):
                bad("wccn", "SameModel", "weights differ from the in-memory result")
        except np.linalg.LinAlgError:
            pass        # rank-deficient draw: outside the property's domain
        except Exception as e:
            bad("linear", "Raised", "%s: %s" % (type(e).__name__, e))
    # shape of the real graphs (hints only: names are not part of the contract)
    for k, g in graphs.items():
        ne = sum(1 for name, nd in g if name.startswith("e_step"))
        if ne and fb == 1 and ne != rb:
            ck.notes.append("%s: %d e_step tasks for %d row blocks" % (k, ne, rb))
    ck.sample({"mechanism": "M2", "scenario": scn, "verdict": "replayed"}, limit=5)


def many_blocks(ck, em, rng, count):
    """SameModel beyond the block counts TLC enumerates: 7 ... 129 row blocks (around the powers of two, odd and even,
    single-row blocks among them), the rows ordered so that the last blocks hold a cluster of their own."""
    import dask
    import dask.array as da
    for i in range(count):
        seed = rng.randrange(10 ** 6)
        r = np.random.RandomState(seed)
        B = [7, 16, 31, 32, 33, 40, 47, 63, 64, 65, 70, 97, 128, 129][i % 14]
        n = B + int(r.randint(0, B + 1))
        D = int(r.randint(1, 4))
        C = 2
        centres = r.normal(size=(C, D)) * 3
        lab = np.sort(r.randint(0, C, size=n))
        lab[-max(2, n // 10):] = 1          # the trailing rows differ from the leading ones
        lab[:2] = 0
        X = centres[lab] + r.normal(size=(n, D))
        cuts = np.sort(r.choice(np.arange(1, n), size=B - 1, replace=False))
        comp = tuple(int(v) for v in np.diff(np.concatenate([[0], cuts, [n]])))
        if i % 3 == 1:
            zb = int(r.randint(0, B))
            z0 = int(sum(comp[:zb]))
            X[z0:z0 + comp[zb]] = 0.0           # one block of exactly-zero rows
        Xd = da.from_array(X, chunks=(comp, D))
        scn = {"rows": n, "features": D, "row_blocks": B, "row_chunks": list(comp), "seed": seed}
        ck.replayed += 1
        ck.seen(["many-blocks", seed, B])

        def same(a, b):
            a, b = np.asarray(a, dtype=float), np.asarray(b, dtype=float)
            return a.shape == b.shape and np.allclose(a, b, rtol=1e-8, atol=1e-10)

        def bad(trainer, clause, detail):
            ck.violation("M3:ArrayTrain:%s:%s" % (trainer, clause), {"mechanism": "M3", "module": "ArrayTrain", "trainer": trainer,
                                                                   "scenario": scn, "detail": detail})
        init = X[[0, n - 1]].copy() + 0.1
        try:
            with dask.config.set(scheduler="synchronous"):
                ok = True
                for cap, thr in ((2, None), (8, 1e-2)):
                    ref = em.KMeansMachine(C, init_method=init.copy(), max_iter=cap, convergence_threshold=thr).fit(X)
                    got = em.KMeansMachine(C, init_method=init.copy(), max_iter=cap, convergence_threshold=thr).fit(Xd)
                    if not (same(got.centroids_, ref.centroids_) and same([got.average_min_distance], [ref.average_min_distance])):
                        bad("kmeans", "SameModel", "%d row blocks: centroids %s / criterion %r, in-memory %s / %r" % (
                            B, np.asarray(got.centroids_).tolist(), got.average_min_distance, np.asarray(ref.centroids_).tolist(),
                            ref.average_min_distance))
                        ok = False
                        break
                    v1, w1 = ref.get_variances_and_weights_for_each_cluster(X)
                    v2, w2 = got.get_variances_and_weights_for_each_cluster(Xd)
                    if not (same(v2, v1) and same(w2, w1)):
                        bad("kmeans", "SameClusterStatistics", "%d row blocks: cluster variances / weights differ from the in-memory ones" % B)
                        ok = False
                        break
                for trainer in (("ml", "map") if ok else ()):
                    def mk():
                        kw = dict(max_fitting_steps=3, convergence_threshold=None, update_means=True, update_variances=True,
                                  update_weights=True)
                        if trainer == "map":
                            prior = em.GMMMachine(C)
                            prior.means, prior.variances, prior.weights = centres + 0.3, np.ones((C, D)) * 1.5, np.array([0.4, 0.6])
                            return em.GMMMachine(C, trainer="map", ubm=prior, **kw)
                        m = em.GMMMachine(C, **kw)
                        m.means, m.variances, m.weights = centres + 0.3, np.ones((C, D)) * 1.5, np.array([0.4, 0.6])
                        return m
                    ref, got = mk().fit(X), mk().fit(Xd)
                    if any(not same(getattr(got, f), getattr(ref, f)) for f in ("means", "variances", "weights")):
                        bad("gmm-" + trainer, "SameModel", "%d row blocks: the model differs from the in-memory result" % B)
                        break
                    if not same(np.asarray(got.log_likelihood(Xd)), np.asarray(ref.log_likelihood(X))):
                        bad("gmm-" + trainer, "SameScores", "%d row blocks: log_likelihood of the Dask array differs" % B)
                        break
        except Exception as e:      # noqa: BLE001
            bad("array", "Raised", "%d row blocks: %s: %s" % (B, type(e).__name__, e))
            continue
        ck.sample({"mechanism": "M3", "scenario": {k: scn[k] for k in ("rows", "features", "row_blocks", "seed")}, "verdict": "ok"}, limit=4)


def big_blocks(ck, em, rng, count):
    """SameModel on arrays large enough for block-size dependent code paths (round eight: a matrix-product form of the
    distances on blocks of 256 rows or more): 600 ... 2100 rows in blocks of 48 ... 1000 rows, so that the in-memory
    array and the blocks fall on different sides of any such threshold, with the features far from the origin
    (offsets up to 1e7 at unit spread, where algebraically equal forms of a distance differ numerically).  k-means
    only: its distances are differences of nearby numbers, which the unchanged code computes stably at these offsets
    (C20, D12); centroids are compared after subtracting the offset."""
    import dask
    import dask.array as da
    for i in range(count):
        seed = rng.randrange(10 ** 6)
        r = np.random.RandomState(seed)
        n = [600, 1100, 2048, 2100][i % 4]
        chunks = [(128,), (100,), (300,), (1000,), (1000, 1000, 48), (256,), (255,)][i % 7]
        if len(chunks) > 1 and sum(chunks) != n:
            chunks = (n // 2, n - n // 2 - 48, 48)
        off = [1e7, 1e4, 0.0, 1e7, 3e6][i % 5]
        D, C = 2, 3
        centres = r.normal(size=(C, D)) * 1.5
        X = centres[r.randint(0, C, size=n)] + r.normal(size=(n, D)) + off
        init = X[[0, 1, 2]].copy()
        Xd = da.from_array(X, chunks=(chunks if len(chunks) > 1 else chunks[0], D))
        scn = {"rows": n, "row_chunks": list(chunks), "offset": off, "seed": seed}
        ck.replayed += 1
        ck.seen(["big-blocks", seed, n, chunks, off])
        try:
            with dask.config.set(scheduler="synchronous"):
                for cap, thr in ((4, None), (40, 1e-4)):
                    ref = em.KMeansMachine(C, init_method=init.copy(), max_iter=cap, convergence_threshold=thr).fit(X)
                    got = em.KMeansMachine(C, init_method=init.copy(), max_iter=cap, convergence_threshold=thr).fit(Xd)
                    a, b = np.asarray(got.centroids_, dtype=float) - off, np.asarray(ref.centroids_, dtype=float) - off
                    ca, cb = float(got.average_min_distance), float(ref.average_min_distance)
                    if not (a.shape == b.shape and np.allclose(a, b, rtol=0, atol=1e-6) and abs(ca - cb) <= 1e-7 * max(1.0, abs(cb))):
                        ck.violation("M3:ArrayTrain:kmeans:SameModel",
                                     {"mechanism": "M3", "module": "ArrayTrain", "trainer": "kmeans", "scenario": dict(scn, cap=cap, thr=thr),
                                      "detail": "centroids - offset %s / criterion %r on the Dask array, %s / %r in memory"
                                                % (a.tolist(), ca, b.tolist(), cb)})
                        break
                    da_, db_ = np.asarray(got.transform(Xd)), np.asarray(ref.transform(X))
                    if not np.allclose(da_, db_, rtol=1e-7, atol=1e-7):
                        ck.violation("M3:ArrayTrain:kmeans:SameDistances",
                                     {"mechanism": "M3", "module": "ArrayTrain", "trainer": "kmeans", "scenario": dict(scn, cap=cap, thr=thr),
                                      "detail": "squared distances of the Dask array differ from the in-memory ones by up to %g"
                                                % float(np.abs(da_ - db_).max())})
                        break
        except Exception as e:      # noqa: BLE001
            ck.violation("M3:ArrayTrain:array:Raised", {"mechanism": "M3", "module": "ArrayTrain", "scenario": scn,
                                                        "detail": "%s: %s" % (type(e).__name__, e)})
            continue
        ck.sample({"mechanism": "M3", "scenario": scn, "verdict": "ok"}, limit=6)
