"""C13 - trained models are valid: finite, weights on the simplex, variances above floors.

M1  the validity invariants of the design modules with degenerate inputs IN the domain: specs/KMeans.tla
    AllFinite with fewer distinct points than clusters and clusters that capture nothing (the deviation
    KMEANS_EMPTY_DIVIDES_BY_ZERO must be refuted), specs/GmmMStep.tla WeightsOnSimplex / VarAboveFloor with a
    component of zero responsibility mass, specs/GmmMachine.tla VarAboveCurrentFloor over all histories.
M2  the same degenerate scenarios through the real trainers: every k-means scenario walked with "an emptied
    cluster must keep a finite centroid"; M-steps below the count floor finite and floor-respecting;
    k-means-initialised GMMs on degenerate data.
M3  `valid` flags on every iteration of GMM ML / MAP, k-means and i-vector training traces from dedicated
    degenerate drivers (duplicates, constant columns, fewer distinct points than components, far outliers,
    a component without data), validated by TLC against specs/TraceLoop.tla."""
import random
from fractions import Fraction as F

import numpy as np

from .. import gmm_machine_model as gmach
from .. import gmm_mstep_model as gm
from .. import gmm_train as gt
from .. import kmeans_model as km
from .. import traces
from ..common import pin_repo


def run(ck):
    em = pin_repo()
    rng = random.Random(ck.seed)
    quick = ck.tier == "quick"
    ck.assumptions += ["'valid' = finite parameters, weights >= 0 summing to one within 1e-6 (count floor), variances >= "
                       "floors and > 0, finite log-likelihood of every training sample",
                       "an emptied k-means cluster may take any finite centroid (the model's canonical choice is to keep "
                       "the previous one)"]
    # ---------------- k-means, degenerate grids: few distinct points, far initial centroids
    vals = [0, 1, 5]
    n = 4
    data = [d for d in km.datasets(n, 1, vals) if len(set(d)) <= 2] + km.datasets(n, 1, [0, 1])
    inits3 = km.initsets(3, 1, [0, 1, 5, 9])
    g3 = km.model_run(ck, "kmeans-degenerate-k3", ck.work, n, 1, 3, data, inits3, [(n,), (1, n - 1)], [3], [F(-1), F(0)],
                      properties=["CentroidIsMeanOfMembers", "ChunkInvariant"], coverage=not quick)
    inits2 = km.initsets(2, 1, [0, 5, 9])
    g2 = km.model_run(ck, "kmeans-degenerate-k2", ck.work, n, 1, 2, data, inits2, [(n,)], [0, 2], [F(-1)],
                      properties=["CentroidIsMeanOfMembers"], coverage=not quick)
    km.model_run(ck, "deviation:KMEANS_EMPTY_DIVIDES_BY_ZERO", ck.work, n, 1, 3, data[:6], inits3[:2], [(n,)], [2], [F(-1)],
                 dev=["KMEANS_EMPTY_DIVIDES_BY_ZERO"], expect_violation=True, invariants=["AllFinite"], properties=[],
                 export=False)
    for label, graph in (("k3", g3), ("k2", g2)):
        groups = sorted(graph.values(), key=lambda g: repr(g["s"]))
        if quick and len(groups) > 40:
            groups = rng.sample(groups, 40)
        for g in groups:
            for mode in ([None] if len(g["s"]["comp"]) == 1 else ["dask"]):
                for init, verdict, detail in km.walk(em, g, dask_mode=mode, finite_on_empty=True):
                    ck.replayed += 1
                    ck.seen([label, g["s"], init, mode])
                    if verdict in ("ok", "left-domain", "skip"):
                        ck.sample({"mechanism": "M2", "scenario": g["s"], "init": init, "verdict": verdict}, limit=3)
                    else:
                        ck.violation("M2:KMeans:" + verdict, {"mechanism": "M2", "module": "KMeans", "scenario": g["s"],
                                                              "init": init, "input": mode or "numpy", "detail": detail})
    # ---------------- GMM M-steps with a component of zero mass (count floor), both trainers
    smp = [s for s in gm.samples(3) if all(r == 0 for r in s["r"]) or all(r == 1 for r in s["r"])]
    smp += rng.sample(gm.samples(3), 20 if quick else 200)
    recs = gm.model_run(ck, "mstep-zero-mass", smp, ["ml", "map"], invariants=["WeightsOnSimplex", "VarAboveFloor"],
                        coverage=not quick)
    if quick and len(recs) > 1500:
        recs = rng.sample(recs, 1500)
    for rec in recs:
        w, mu, var = gm.run_real(em, rec)
        ck.replayed += 1
        ck.seen(gm.scenario_key(rec))
        vfl = float(F(*rec["vfl"]))
        ok = (np.all(np.isfinite(w)) and np.all(np.isfinite(mu)) and np.all(np.isfinite(var)) and np.all(w >= 0)
              and (not rec["uv"] or np.all(var >= vfl)) and np.all(var > 0))
        allev = all(F(*x) >= gm.CTHR for x in rec["n"])
        if ok and rec["uw"] and allev and abs(w.sum() - 1) > 1e-9:
            ok = False
        if not ok:
            ck.violation("M2:GmmMStep:Valid", {"mechanism": "M2", "module": "GmmMStep",
                                               "scenario": {k: rec[k] for k in ("smp", "kind", "rel", "uw", "um", "uv", "n")},
                                               "detail": "weights %s means %s variances %s" % (w.tolist(), mu.tolist(), var.tolist())})
    # ---------------- the object: variances never below the current floors, over all histories
    gmach.model_run(ck, "machine-floors", 2, 1, True, export=False, invariants=["VarAboveCurrentFloor"], props=[])
    ck.exhaustive = True
    # ---------------- M3: degenerate drivers
    m3_gmm(ck, em, rng, 40 if quick else 600)
    m3_kmeans_init(ck, em, rng, 30 if quick else 300)
    from . import C10
    C10.m3(ck, em, rng, 70 if quick else 400)


def m3_gmm(ck, em, rng, count):
    trs, meta = [], []
    for t in range(count):
        seed = rng.randrange(10 ** 6)
        r = np.random.RandomState(seed)
        X, init = gt.make_problem(r, degenerate=True)
        if t % 4 == 1:
            # as many Gaussians as features: the shapes where a floor array given per feature, per Gaussian or per
            # cell can be mistaken for one another
            for _ in range(40):
                if np.asarray(init["means"]).shape[0] == np.asarray(init["means"]).shape[1] > 1:
                    break
                X, init = gt.make_problem(r, degenerate=True)
        sw = gt.SWITCHES[1 + t % 7]
        cap = int(r.randint(2, 6))
        trainer = "map" if t % 3 == 0 else "ml"
        prior = None
        if trainer == "map":
            prior = em.GMMMachine(len(init["weights"]))
            prior.weights, prior.means, prior.variances = init["weights"], init["means"], init["variances"]
        obj = lambda m: float(np.asarray(m.log_likelihood(X)).mean()) if np.all(np.isfinite(np.asarray(m.variances))) else float("nan")
        # two traces in three with user-set floors high enough to bind: a scalar, one floor per feature (1-D), one per
        # Gaussian ((C, 1)), or one per cell ((C, D)), with unequal entries
        C_, D_ = np.asarray(init["means"]).shape
        floors, form = None, "default"
        if t % 3:
            base = float(np.median(np.var(X, axis=0))) * 10.0 ** r.uniform(-3, 0) + 1e-6
            form = ["scalar", "per feature", "per feature", "per Gaussian", "per cell"][r.randint(0, 5)]
            floors = {"scalar": base, "per feature": base * 10.0 ** r.uniform(-2, 1, size=D_),
                      "per Gaussian": base * 10.0 ** r.uniform(-2, 1, size=(C_, 1)),
                      "per cell": base * 10.0 ** r.uniform(-2, 1, size=(C_, D_))}[form]
        try:
            ms, A = gt.trajectory(em, X, init, cap, sw, obj, None, trainer=trainer, prior=prior, floors=floors)
            final = gt.fit(gt.new_machine(em, init, cap, None, sw, trainer, prior, floors=floors), X)
        except Exception as e:
            ck.violation("M3:GmmTrain:Raised", {"mechanism": "M3", "meta": {"seed": seed, "trainer": trainer, "switches": sw},
                                                "detail": "%s: %s" % (type(e).__name__, e)})
            continue
        tr = gt.build_trace("gmm-" + trainer, ms, A, X, cap, None, final)
        tr["dir"] = "none"          # validity only: ascent is C03 / C05's subject
        trs.append(tr)
        meta.append({"seed": seed, "trainer": trainer, "switches(um,uv,uw)": sw, "cap": cap, "n": len(X), "C": len(init["weights"]),
                     "D": int(D_), "floors": form if floors is None else [form, np.asarray(floors).tolist()],
                     "why": [e["why"] for e in tr["ev"] if e.get("why")]})
    verdicts = traces.validate(ck, "gmmvalid", ck.work, trs)
    for tr, me, (v, pos) in zip(trs, meta, verdicts):
        ck.replayed += 1
        ck.seen(["M3gmm", me["seed"]])
        if v == "ok":
            ck.sample({"mechanism": "M3", "meta": me, "verdict": "ok"}, limit=8)
        else:
            ck.violation("M3:TraceLoop:" + v, {"mechanism": "M3", "module": "TraceLoop", "trace": tr, "meta": me,
                                               "rejected_at_event": pos})


def m3_kmeans_init(ck, em, rng, count):
    """k-means on degenerate data and the GMM initialised from it."""
    for t in range(count):
        seed = rng.randrange(10 ** 6)
        r = np.random.RandomState(seed)
        n, d = int(r.randint(4, 12)), int(r.randint(1, 3))
        K = int(r.randint(2, 4))
        base = r.normal(size=(max(1, K - 1 - (t % 2)), d)) * 3       # fewer distinct points than clusters
        X = base[r.randint(0, len(base), size=n)]
        init = np.vstack([base, base[:1] + 50.0, base[:1] - 70.0])[:K] + 0.0
        if len(init) < K:
            init = np.vstack([init, r.normal(size=(K - len(init), d)) * 100])
        # the clusters that capture nothing can be any of them (the first alone, one in the middle, several)
        init = init[r.permutation(K)]
        ck.replayed += 1
        ck.seen(["kmeans-init", seed])
        meta = {"seed": seed, "n": n, "d": d, "K": K, "distinct_points": len(base)}
        try:
            kmm = em.KMeansMachine(K, init_method=init.copy(), max_iter=int(r.randint(1, 4)), convergence_threshold=None).fit(X)
            cent = np.asarray(kmm.centroids_, dtype=float)
            if not np.all(np.isfinite(cent)):
                ck.violation("M3:KMeans:AllFinite", {"mechanism": "M3", "meta": meta, "X": X.tolist(), "init": init.tolist(),
                                                     "detail": "centroids %s" % cent.tolist()})
                continue
            for how, Xin in (("NumPy", X), ("Dask", None)):
                if Xin is None:
                    import dask
                    import dask.array as da
                    with dask.config.set(scheduler="synchronous"):
                        v, w = kmm.get_variances_and_weights_for_each_cluster(da.from_array(X, chunks=(max(1, n // 2), d)))
                        v, w = np.asarray(v, dtype=float), np.asarray(w, dtype=float)
                else:
                    v, w = (np.asarray(a, dtype=float) for a in kmm.get_variances_and_weights_for_each_cluster(Xin))
                if not (np.all(np.isfinite(v)) and np.all(np.isfinite(w)) and np.all(v >= 0) and abs(w.sum() - 1) < 1e-9):
                    ck.violation("M3:KMeans:ClusterStatisticsFinite", {"mechanism": "M3", "meta": meta, "X": X.tolist(), "init": init.tolist(),
                                                                       "detail": "%s input: cluster variances %s weights %s" % (how, v.tolist(), w.tolist())})
                    break
            g = em.GMMMachine(K, k_means_trainer=em.KMeansMachine(K, init_method=init.copy(), max_iter=2, convergence_threshold=None),
                              max_fitting_steps=int(r.randint(0, 3)), convergence_threshold=1e-5)
            g.fit(X)
            ok, why = gt.valid(g, X)
            if not ok:
                ck.violation("M3:GmmFromKMeans:Valid", {"mechanism": "M3", "meta": meta, "X": X.tolist(), "init": init.tolist(),
                                                        "detail": why + ": means %s variances %s weights %s" % (
                                                            np.asarray(g.means).tolist(), np.asarray(g.variances).tolist(), np.asarray(g.weights).tolist())})
        except Exception as e:
            ck.violation("M3:KMeans:Raised", {"mechanism": "M3", "meta": meta, "detail": "%s: %s" % (type(e).__name__, e)})
