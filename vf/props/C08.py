"""C08 - linear scoring is the exact first-order log-likelihood ratio around the UBM.

M1  specs/LinearScoring.tla (exact rationals): IsFormula, Shape, ZeroForUbm, LinearInOffset,
    AdditiveOverStats, MachinesEqArrays, MapUbmEqPrior, ZeroFrameIsZero, AffineInvariant over seeded small
    domains for every shape C, D <= 2; the four deviating variants must be refuted by TLC.
M2  every exported scenario replayed through the real linear_scoring: models as machines and as arrays
    (3-D array, list of 2-D arrays, bare 2-D array), a MAP machine and its prior as the UBM, statistics
    as a list or a bare object, offsets omitted / 0 / list / array; plus the derived calls (UBM as model,
    combined and scaled model offsets, summed statistics, rescaled features) on the real code.
M3  derivative clause on seeded real-valued UBMs and data: central finite difference (Richardson) of
    ubm.log_likelihood(X).sum() along (model - ubm) against the un-normalised score of ubm.acc_stats(X);
    with channel offsets, the exact difference quotient of the EM auxiliary function.  Each identity is
    an event of a trace validated by TLC against specs/TraceFacts.tla."""
import random
from fractions import Fraction as F

import numpy as np

from .. import linscore_model as lm
from .. import traces
from ..common import allclose, fr, key, pin_repo

SHAPES = [(1, 1), (2, 1), (1, 2), (2, 2)]
DEV_INV = {"LS_OFFSET_IGNORED": "IsFormula", "LS_DIVIDE_BY_MODEL_VAR": "MachinesEqArrays",
           "LS_NO_ZERO_FRAME_GUARD": "ZeroFrameIsZero", "LS_MAP_UBM_NOT_UNWRAPPED": "MapUbmEqPrior"}


def run(ck):
    em = pin_repo()
    rng = random.Random(ck.seed)
    quick = ck.tier == "quick"
    ck.assumptions += [
        "exact model bounded to <= 2 models, <= 2 test items, C <= 2 components, D <= 2 features, values from small "
        "sets of integers and simple fractions; larger shapes only through M3",
        "float comparison |obs-exp| <= 1e-8 max(1,|exp|) against exact rationals",
        "statistics are built by setting t, n, sum_px directly; t is the integer sum of the occupations",
        "channel offsets are passed the way the library's own callers pass them: one (C, D) array per test item, or one "
        "(C, D) array shared by all the items (ISVMachine.score / JFAMachine.score)",
        "M3: finite differences with step 1e-3 (in units of the UBM standard deviation) and Richardson "
        "extrapolation, accepted within 1e-5 of the score's natural scale sum |a b|"]
    case = getattr(ck, "replay_case", None)
    if case and case.get("record"):
        replay(ck, em, case["record"], random.Random(ck.seed), 1.0, [[[F(2), F(1)]] * 2])
        return

    # ---------------- M1 (+ export of every scenario for M2)
    recs = []
    for (c, d) in SHAPES:
        if quick:
            dom = lm.domain(rng, c, d, n_ubm=3, n_models=4, n_tests=8, n_map=2)
        else:
            dom = lm.domain(rng, c, d, n_ubm=6, n_models=10, n_tests=20, n_map=3, n_aff=3)
        r = lm.model_run(ck, "score-C%d-D%d" % (c, d), dom, coverage=not quick)
        # TLC's workers print in no fixed order: sort, so that sampling and the per-scenario draws depend on the seed only
        recs += [(rec, dom["affines"]) for rec in sorted(r.records, key=key)]
    for dv in lm.DEVIATIONS:
        r = lm.model_run(ck, "deviation:" + dv, lm.dev_domain(2, 1), dev=[dv], invariants=[DEV_INV[dv]], export=False,
                         expect_violation=True)
        ck.notes.append("deviation %s refuted by TLC through %s" % (dv, r.violation))
    ck.exhaustive = True
    ck.extra["m1_scenarios"] = len(recs)

    # ---------------- M2
    if quick and len(recs) > 1500:
        recs = rng.sample(recs, 1500)
    p_rel = 1.0 if quick else 0.3
    for rec, affs in recs:
        replay(ck, em, rec, rng, p_rel, affs)
    ck.extra["m2_scenarios"] = len(recs)

    # ---------------- M3
    m3(ck, em, rng, 40 if quick else 500)


# ------------------------------------------------------------------------------------------------ M2
def mat(x):
    return np.array([[float(fr(v)) for v in row] for row in x], dtype=float)


def make_gmm(em, g, **kw):
    means = mat(g["means"])
    m = em.GMMMachine(n_gaussians=means.shape[0], **kw)
    m.means = means
    m.variances = mat(g["vars"])
    return m


def make_stat(em, t, n, f):
    st = em.GMMStats(len(n), f.shape[1])
    st.t = t
    st.n = np.array(n, dtype=float)
    st.sum_px = np.array(f, dtype=float)
    return st


def replay(ck, em, rec, rng, p_rel, affines):
    s = rec["scn"]
    ck.replayed += 1
    ck.seen(s)
    exp = np.array([[float(fr(v)) for v in row] for row in rec["result"]], dtype=float)
    nm, ns = len(s["models"]), len(s["stats"])
    norm = bool(s["norm"])

    def bad(clause, detail, obs=None):
        ck.violation("M2:LinearScoring:" + clause,
                     {"mechanism": "M2", "module": "LinearScoring", "scenario": s, "expected": exp.tolist(),
                      "observed": None if obs is None else np.asarray(obs).tolist(), "detail": detail, "record": rec})

    ubm = make_gmm(em, s["ubm"])
    if s["ukind"] == "map":
        arg = make_gmm(em, s["mapown"], trainer="map", ubm=ubm)
    elif s.get("mapown") and rng.random() < 0.4:
        # a maximum-likelihood machine that was constructed from another machine (warm start) and then given
        # the UBM's parameters: it is not MAP-adapted, so scoring must expand around ITS OWN parameters
        other = make_gmm(em, s["mapown"])
        other.means = np.asarray(other.means) + 1.5          # (in a "plain" scenario mapown equals the UBM)
        other.variances = np.asarray(other.variances) * 2.0
        arg = em.GMMMachine(n_gaussians=ubm.means.shape[0], trainer="ml", ubm=other)
        arg.means = np.array(ubm.means)
        arg.variances = np.array(ubm.variances)
    else:
        arg = ubm
    means = np.array([mat(m["means"]) for m in s["models"]])
    machines = [make_gmm(em, m) for m in s["models"]]
    tn = [(int(fr(st["t"])), np.array([float(fr(v)) for v in st["n"]]), mat(st["f"])) for st in s["stats"]]
    stats = [make_stat(em, *x) for x in tn]
    from ..common import relayout
    for st in stats:
        st.sum_px = relayout(st.sum_px, rng)
    offs = [mat(o) for o in s["offs"]["val"]] if s["offs"]["present"] else None

    def call(models, ubm_arg, sts, off, nrm, off_form=0):
        if off is None:
            if off_form == 0:
                return np.asarray(em.linear_scoring(models, ubm_arg, sts, frame_length_normalization=nrm))
            return np.asarray(em.linear_scoring(models, ubm_arg, sts, 0, nrm))
        return np.asarray(em.linear_scoring(models, ubm_arg, sts, off, nrm))

    def check(obs, what, clause="IsFormula", expected=None):
        e = exp if expected is None else expected
        if obs.shape != e.shape:
            bad("Shape", "%s: result of shape %s, expected %s (one row per model, one column per test item)"
                % (what, obs.shape, e.shape), obs)
            return False
        if not allclose(obs, e):
            zero_col = norm and e.shape[1] == ns and any(tn[p][0] == 0 and not np.all(obs[:, p] == 0) for p in range(ns))
            bad("ZeroFrameIsZero" if zero_col else clause, "%s: expected %s, observed %s" % (what, e.tolist(), obs.tolist()), obs)
            return False
        return True

    try:
        # the scenario as TLC chose it
        primary = machines if s["mform"] == "machines" else means
        obs = call(primary, arg, stats, offs, norm)
        clause = "IsFormula"
        if obs.shape == exp.shape and not allclose(obs, exp):
            # name the clause: does the same call agree with the formula once the UBM / the models are given the
            # other way?
            if s["ukind"] == "map" and allclose(call(primary, ubm, stats, offs, norm), exp):
                clause = "MapUbmEqPrior"
            elif s["mform"] == "machines" and allclose(call(means, arg, stats, offs, norm), exp):
                clause = "MachinesEqArrays"
        if not check(obs, "models as %s, ubm argument %s" % (s["mform"], s["ukind"]), clause):
            return
        # the other way of giving the models
        other = means if s["mform"] == "machines" else machines
        if not check(call(other, arg, stats, offs, norm), "models given the other way (%s)"
                     % ("arrays" if s["mform"] == "machines" else "machines"), "MachinesEqArrays"):
            return
        # a MAP machine and its prior
        if s["ukind"] == "map" and not check(call(primary, ubm, stats, offs, norm),
                                              "the prior of the MAP machine passed as ubm", "MapUbmEqPrior"):
            return
        # other input conventions
        forms = [list(means)]
        if nm == 1:
            forms.append(means[0])
        mf = forms[rng.randrange(len(forms))]
        sf = stats[0] if ns == 1 and rng.random() < 0.5 else stats
        if offs is None:
            o, of = None, 1
        else:
            o = [np.array(offs), offs[0] if ns == 1 else offs][rng.randrange(2)]
            of = 0
        if not check(call(mf, arg, sf, o, norm, of), "models as %s, statistics as %s, offsets as %s"
                     % ("list of 2-D arrays" if isinstance(mf, list) else "bare 2-D array",
                        "list" if isinstance(sf, list) else "bare GMMStats",
                        "0" if o is None else ("3-D array" if isinstance(o, np.ndarray) and o.ndim == 3 else
                                               "bare 2-D array" if isinstance(o, np.ndarray) else "list"))):
            return

        # one (C, D) offset shared by all the test items (the way ISVMachine.score / JFAMachine.score call it):
        # the formula with that offset for every item, i.e. each item scored alone with it
        if offs is not None:
            shared = offs[rng.randrange(len(offs))]
            alone = np.concatenate([call(primary, arg, [stats[p]], [shared], norm) for p in range(ns)], axis=1)
            if not check(call(primary, arg, stats, shared, norm), "one (C, D) offset shared by the %d test items" % ns,
                         "SharedOffset", alone):
                return
            if not check(call(primary, arg, stats, [shared] * ns, norm), "the shared offset repeated per item",
                         "SharedOffset", alone):
                return
        # ---- derived calls on the real code (the facts TLC checked of the formula)
        if rng.random() < p_rel:
            mu = mat(s["ubm"]["means"])
            if not check(call(mu, arg, stats, offs, norm), "UBM means as the model", "ZeroForUbm", np.zeros((1, ns))):
                return
            i, j = rng.randrange(nm), rng.randrange(nm)
            if not check(call(means[i] + means[j] - mu, arg, stats, offs, norm), "model %d + model %d - ubm" % (i, j),
                         "LinearInOffset", (exp[i] + exp[j])[None, :]):
                return
            k = float(rng.choice(lm.SCALES))
            if not check(call(mu + k * (means[i] - mu), arg, stats, offs, norm), "ubm + %g (model %d - ubm)" % (k, i),
                         "LinearInOffset", (k * exp[i])[None, :]):
                return
            p, q = rng.randrange(ns), rng.randrange(ns)
            op = None if offs is None else [offs[p]]
            both = make_stat(em, tn[p][0] + tn[q][0], tn[p][1] + tn[q][1], tn[p][2] + tn[q][2])
            r_both = call(primary, arg, [both], op, False)
            r_p = call(primary, arg, [stats[p]], op, False)
            r_q = call(primary, arg, [stats[q]], op, False)
            if not check(r_both, "un-normalised score of statistics %d + %d" % (p, q), "AdditiveOverStats", r_p + r_q):
                return
            if not norm and not check(r_p, "single test item %d" % p, "IsFormula", exp[:, [p]]):
                return
            af = affines[rng.randrange(len(affines))][:means.shape[2]]
            al = np.array([float(F(*a[0]) if isinstance(a[0], (list, tuple)) else a[0]) for a in af])
            be = np.array([float(F(*a[1]) if isinstance(a[1], (list, tuple)) else a[1]) for a in af])

            def tg(g, **kw):
                m = em.GMMMachine(n_gaussians=len(g["means"]), **kw)
                m.means = al * mat(g["means"]) + be
                m.variances = al ** 2 * mat(g["vars"])
                return m
            ubm2 = tg(s["ubm"])
            arg2 = tg(s["mapown"], trainer="map", ubm=ubm2) if s["ukind"] == "map" else ubm2
            mod2 = [tg(m) for m in s["models"]] if s["mform"] == "machines" else al * means + be
            st2 = [make_stat(em, t, n, al * f + be * n[:, None]) for (t, n, f) in tn]
            of2 = None if offs is None else [al * o_ for o_ in offs]
            if not check(call(mod2, arg2, st2, of2, norm), "features rescaled by %s and shifted by %s" % (al.tolist(), be.tolist()),
                         "AffineInvariant"):
                return
    except Exception as e:      # the call itself failed on a valid input
        bad("IsFormula", "linear_scoring raised %s: %s" % (type(e).__name__, e))
        return
    ck.sample({"mechanism": "M2", "scenario": s, "expected": exp.tolist(), "verdict": "ok"}, limit=4)


# ------------------------------------------------------------------------------------------------ M3
def m3(ck, em, rng, ntraces):
    trs, meta = [], []
    for _ in range(ntraces):
        seed = rng.randrange(10 ** 6)
        r = np.random.RandomState(seed)
        c, d, n, nm = int(r.randint(1, 5)), int(r.randint(1, 6)), int(r.randint(20, 200)), int(r.randint(1, 4))
        w = r.dirichlet(np.ones(c) * 3.0)
        mu = r.normal(size=(c, d)) * 2.0
        var = r.uniform(0.3, 2.5, size=(c, d))
        comp = r.choice(c, size=n, p=w)
        X = mu[comp] + r.normal(size=(n, d)) * np.sqrt(var[comp]) * r.uniform(0.7, 1.5) + r.normal(size=d) * 0.3
        models = mu[None] + r.normal(size=(nm, c, d)) * r.uniform(0.1, 2.0)
        off = r.normal(size=(c, d)) * 0.5
        me = {"seed": seed, "C": c, "D": d, "n": n, "models": nm}
        ev = []

        def fact(name, ok, **info):
            ev.append({"name": name, "ok": bool(ok)})
            if not ok:
                me.setdefault("failed", []).append(dict(info, name=name))

        def gmm(means, variances, **kw):
            g = em.GMMMachine(n_gaussians=c, **kw)
            g.weights = w.copy()
            g.means = np.array(means, dtype=float)
            g.variances = np.array(variances, dtype=float)
            return g
        try:
            ubm = gmm(mu, var)
            stats = ubm.acc_stats(X)
            machines = [gmm(models[i], r.uniform(0.3, 2.5, size=(c, d))) for i in range(nm)]
            mapm = gmm(models[0], r.uniform(0.3, 2.5, size=(c, d)), trainer="map", ubm=ubm)
            sc = np.asarray(em.linear_scoring(machines, ubm, stats))
            sc_arr = np.asarray(em.linear_scoring(models, ubm, [stats]))
            sc_norm = np.asarray(em.linear_scoring(machines, ubm, stats, frame_length_normalization=True))
            sc_map = np.asarray(em.linear_scoring(machines, mapm, stats))
            sc_ubm = np.asarray(em.linear_scoring(mu, ubm, stats))
            sc_off = np.asarray(em.linear_scoring(models, ubm, [stats], [off]))
            fact("Shape", sc.shape == (nm, 1) and sc_arr.shape == (nm, 1) and sc_norm.shape == (nm, 1)
                 and sc_off.shape == (nm, 1) and sc_ubm.shape == (1, 1), shape=sc.shape)
            if sc.shape != (nm, 1) or sc_off.shape != (nm, 1):
                raise ValueError("result of shape %s for %d models and one test item" % (sc.shape, nm))
            N_, F_, S_ = np.asarray(stats.n), np.asarray(stats.sum_px), np.asarray(stats.sum_pxx)
            for i in range(nm):
                delta = models[i] - mu
                reach = max(1e-12, float(np.max(np.abs(delta) / np.sqrt(var))))
                scale = float(np.sum(np.abs(delta / var * (F_ - N_[:, None] * mu))))
                tol = 1e-5 * scale + 1e-7 * reach

                def ll(eps):
                    return float(np.sum(gmm(mu + eps * delta, var).log_likelihood(X)))
                h = 1e-3 / reach
                d1 = (ll(h) - ll(-h)) / (2 * h)
                d2 = (ll(h / 2) - ll(-h / 2)) / h
                rich = (4 * d2 - d1) / 3
                if abs(d1 - d2) > 1e-3 * scale + 1e-5 * reach:
                    ck.notes.append("M3 seed %d model %d: finite differences at two step sizes disagree (%g, %g); "
                                    "identity not evaluated" % (seed, i, d1, d2))
                else:
                    fact("FiniteDifferenceIsScore", abs(rich - sc[i, 0]) <= tol, model=i, finite_difference=rich,
                         score=float(sc[i, 0]), tol=tol)
                # with a channel offset: derivative of the EM auxiliary function (quadratic: the central
                # difference quotient is exact)
                def aux(eps):
                    nu = mu + off + eps * delta
                    return float(-0.5 * np.sum((S_ - 2 * F_ * nu + N_[:, None] * nu ** 2) / var))
                dq = aux(0.5) - aux(-0.5)
                scale_o = float(np.sum(np.abs(delta / var * (F_ - N_[:, None] * (mu + off)))))
                fact("AuxDerivativeWithOffsetIsScore", abs(dq - sc_off[i, 0]) <= 1e-7 * max(scale_o, abs(aux(0.0)) * 1e-3, 1e-9),
                     model=i, difference_quotient=dq, score=float(sc_off[i, 0]))
            # several test items in one call: every column is the item scored alone, whatever the number of items
            # (numbers of items equal to the number of Gaussians / of features included), with the offsets shared,
            # per item, or absent
            for k in sorted({1, 2, c, d, int(r.randint(1, 6))}):
                cuts = np.linspace(0, n, k + 1).astype(int)
                items = [ubm.acc_stats(X[a:b]) if b > a else em.GMMStats(c, d) for a, b in zip(cuts[:-1], cuts[1:])]
                per = [r.normal(size=(c, d)) * 0.5 for _ in items]
                for nrm in (False, True):
                    for how, o, oi in (("shared (C, D) offset", off, [off] * k), ("per-item offsets", per, per),
                                       ("3-D array of offsets", np.array(per), per), ("no offset", None, None)):
                        kw = {} if o is None else {"test_channel_offsets": o}
                        allc = np.asarray(em.linear_scoring(models, ubm, items, frame_length_normalization=nrm, **kw))
                        one = np.concatenate([np.asarray(em.linear_scoring(
                            models, ubm, [items[p]], frame_length_normalization=nrm,
                            **({} if o is None else {"test_channel_offsets": [oi[p]]}))) for p in range(k)], axis=1)
                        sc_ = float(np.max(np.abs(one))) + 1e-12
                        fact("ItemsScoredIndependently", allc.shape == one.shape and np.max(np.abs(allc - one)) <= 1e-9 * sc_,
                             items=k, offsets=how, normalised=nrm, together=allc.tolist(), alone=one.tolist())
            # models given as MACHINES that are almost the UBM (steps of 1e-7, 1e-6, 1 along one direction, same weights
            # and variances): rows are per model object, the score is linear in the step
            dirn = r.normal(size=(c, d))
            steps = [0.0, 1e-7, 1e-6, 1.0]
            near_m = [gmm(mu + h * dirn, var) for h in steps]
            near_a = np.array([mu + h * dirn for h in steps])
            for nrm in (False, True):
                sm = np.asarray(em.linear_scoring(near_m, ubm, [stats], [off], nrm))
                sa_ = np.asarray(em.linear_scoring(near_a, ubm, [stats], [off], nrm))
                one = np.concatenate([np.asarray(em.linear_scoring([mm_], ubm, [stats], [off], nrm)) for mm_ in near_m], axis=0)
                top = float(np.max(np.abs(sa_))) + 1e-300
                fact("MachinesEqArrays.near_duplicates", sm.shape == sa_.shape and np.max(np.abs(sm - sa_)) <= 1e-9 * top
                     and np.max(np.abs(one - sa_)) <= 1e-9 * top, normalised=nrm, machines=sm.tolist(), arrays=sa_.tolist())
                # (tolerance: 1e-6 of the step's own scale, plus the rounding of forming mu + h d in double precision,
                # eps |mu| per element, carried through the formula -- the score itself may be a small difference of
                # large terms, so it is no yardstick; corrected after a false alarm in the thorough tier)
                resid = np.abs(np.asarray(stats.sum_px) - np.asarray(stats.n)[:, None] * (mu + off)) / var
                div = float(n) if nrm else 1.0
                tol_s = (1e-6 * 1e-7 * float(np.sum(np.abs(dirn) * resid)) + 16 * np.finfo(float).eps * float(np.sum(np.abs(mu) * resid))) / div
                fact("LinearInOffset.small_steps", abs(float(sa_[1, 0]) - 1e-7 * float(sa_[3, 0])) <= tol_s
                     and abs(float(sm[1, 0]) - 1e-7 * float(sm[3, 0])) <= tol_s,
                     normalised=nrm, step_1e_7=float(sm[1, 0]), step_1=float(sm[3, 0]), tolerance=tol_s)
            # the storage type of the UBM's parameters is not part of the formula: a UBM whose (float32-representable)
            # means are kept in single precision scores double-precision models like the same UBM kept in double
            # precision; models a small step away from a UBM far from the origin make any rounding of the model visible
            mu32 = (mu + float(r.choice([0.0, 50.0, -300.0]))).astype(np.float32)
            u64, u32 = gmm(mu32.astype(np.float64), var), gmm(mu32.astype(np.float64), var)
            u32.means = mu32                      # kept as given: a float32 array
            near = mu32.astype(np.float64)[None] + 10.0 ** r.uniform(-4, -1) * r.normal(size=(nm, c, d))
            Xs = X + (mu32.astype(np.float64) - mu).mean(axis=0)
            s64, s32 = u64.acc_stats(Xs), u32.acc_stats(Xs)
            for nrm in (False, True):
                a64 = np.asarray(em.linear_scoring(near, u64, [s64], [off], nrm))
                a32 = np.asarray(em.linear_scoring(near, u32, [s32], [off], nrm))
                fact("StorageTypeOfUbmIrrelevant", a32.shape == a64.shape and np.max(np.abs(a32 - a64)) <= 1e-9 * (float(np.max(np.abs(a64))) + 1e-12),
                     normalised=nrm, float32_ubm=a32.tolist(), float64_ubm=a64.tolist())
            big = float(np.max(np.abs(sc))) + 1e-12
            fact("NormalisedIsScoreOverT", np.all(np.isfinite(sc_norm)) and np.max(np.abs(sc_norm * n - sc)) <= 1e-9 * big,
                 normalised=sc_norm.tolist(), score=sc.tolist(), t=n)
            fact("MachinesEqArrays", np.max(np.abs(sc_arr - sc)) <= 1e-9 * big, arrays=sc_arr.tolist(), machines=sc.tolist())
            fact("MapUbmEqPrior", np.max(np.abs(sc_map - sc)) <= 1e-9 * big, map=sc_map.tolist(), prior=sc.tolist())
            fact("ZeroForUbm", abs(float(sc_ubm[0, 0])) <= 1e-9 * big, score=float(sc_ubm[0, 0]))
        except Exception as e:
            fact("CallSucceeds", False, error="%s: %s" % (type(e).__name__, e))
        evaluated = any(e["name"] in ("FiniteDifferenceIsScore", "CallSucceeds") for e in ev)
        trs.append({"kind": "linear-scoring", "need": ["FiniteDifferenceIsScore"] if evaluated else [], "ev": ev})
        meta.append(me)
    verdicts = traces.validate(ck, "lsfacts", ck.work, trs, module="TraceFacts")
    for tr, me, (v, pos) in zip(trs, meta, verdicts):
        ck.replayed += 1
        ck.seen(["M3", me["seed"]])
        if v == "ok":
            ck.sample({"mechanism": "M3", "trace": tr["ev"][:4], "meta": me}, limit=7)
        else:
            ck.violation("M3:TraceFacts:" + v, {"mechanism": "M3", "module": "TraceFacts", "trace": tr, "meta": me,
                                                 "rejected_at_event": pos, "clause": v})
    ck.extra["m3_traces"] = len(trs)
