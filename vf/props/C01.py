"""C01 - GMM log-likelihood is the log of a normalised diagonal-Gaussian mixture density.

M1  specs/GmmDensity.tla over specs/LogTerm.tla: the cached-normaliser formula equals the declarative
    product of normalised 1-D Gaussians exactly (symbolic log terms), for every machine / sample of the
    domain incl. active floors, far tails and mixed feature scales; rows score identically alone, in a
    batch, in any chunk; three deviations must be refuted.
M2  (decisive) every exported scenario replayed: log_weighted_likelihood against the exported terms,
    log_likelihood against their 60-digit log-sum-exp (stdlib decimal), single vector / batch /
    row-chunked Dask array, acc_stats(X).log_likelihood against the sum; finiteness in the tails.
    Oracle cross-check: quadrature of exp(log_likelihood) must give 1."""
import itertools
import random
from decimal import Decimal, getcontext
from fractions import Fraction as F

import numpy as np

from .. import mc, tlc
from ..common import pin_repo, tla

getcontext().prec = 60
LN2, LN3, LN5 = Decimal(2).ln(), Decimal(3).ln(), Decimal(5).ln()
PI = Decimal("3.14159265358979323846264338327950288419716939937510582097494459")
LN2PI = (2 * PI).ln()
INV = ["CachedFormIsDensity", "BatchEqSingle", "ChunkEqBatch", "AffineShift"]
WEIGHTS = {1: [[F(1)]], 2: [[F(1, 2), F(1, 2)], [F(1, 4), F(3, 4)]], 3: [[F(1, 2), F(1, 3), F(1, 6)], [F(1, 3)] * 3]}
MEANS = [F(-2), F(0), F(3)]
VARS = [F(1, 4), F(1), F(9)]
FLOORS = [F(1, 1000), F(1, 2)]
XV = [0, 1, -3, 90, 2000]


def dec(fr_):
    return Decimal(fr_[0]) / Decimal(fr_[1])


def term_value(t):
    return dec(t["q"]) + dec(t["p"]) * LN2PI + dec(t["l2"]) * LN2 + dec(t["l3"]) * LN3 + dec(t["l5"]) * LN5


def lse(vals):
    mx = max(vals)
    return mx + sum((v - mx).exp() for v in vals).ln()


def machines(rng, C, D, count):
    out = []
    for _ in range(count):
        out.append({"w": rng.choice(WEIGHTS[C]),
                    "mu": [[rng.choice(MEANS) for _ in range(D)] for _ in range(C)],
                    "var": [[rng.choice(VARS) for _ in range(D)] for _ in range(C)],
                    "floor": rng.choice(FLOORS)})
    return out


def compositions(n):
    from ..kmeans_model import compositions as c
    return list(c(n))


def model(ck, name, C, D, ms, batches, dev=(), expect_violation=False, export=True, coverage=False):
    comps = set()
    for b in batches:
        comps |= set(compositions(len(b)))
    defs = {"MC_M": mc.Expr("{" + ", ".join(tla(m) for m in ms) + "}"),
            "MC_B": mc.Expr("{" + ", ".join(tla([list(r) for r in b]) for b in batches) + "}"),
            "MC_Comps": mc.Expr("{" + ", ".join(tla(list(c)) for c in sorted(comps)) + "}"),
            "MC_Scales": mc.Expr("{<<-2, 1>>, <<3, 1>>, <<1, 2>>}"), "MC_Shifts": mc.Expr("{-1, 5}"),
            "MC_Dev": mc.Expr("{" + ", ".join('"%s"' % d for d in dev) + "}")}
    text = mc.module("MC_GmmDensity", ["GmmDensity"], defs)
    cfg = mc.cfg(consts={"C": C, "D": D},
                 subst={"Machines": "MC_M", "Batches": "MC_B", "Comps": "MC_Comps", "Scales": "MC_Scales",
                        "Shifts": "MC_Shifts", "Dev": "MC_Dev"},
                 invariants=INV, constraints=["Export"] if export else [])
    r = tlc.run(ck.work, "MC_GmmDensity", cfg, root_text=text, workers=16, coverage=coverage,
                expect_violation=expect_violation)
    ck.account(name, r, expect_violation=expect_violation)
    return r.records


def run(ck):
    em = pin_repo()
    rng = random.Random(ck.seed)
    quick = ck.tier == "quick"
    ck.assumptions += ["weights / variances / floors restricted to 2^i 3^j 5^k so that every weighted log-density is an "
                       "exact symbolic term; the final log-sum-exp is evaluated by stdlib decimal at 60 digits",
                       "comparison tolerance 1e-10 relative; the evaluator is cross-checked by quadrature (integral of "
                       "exp(log_likelihood) = 1 within 1e-6)"]
    recs = []
    for C, D in ([(1, 1), (2, 1), (2, 2), (3, 2)] if quick else [(1, 1), (1, 2), (2, 1), (2, 2), (3, 1), (3, 2)]):
        ms = machines(rng, C, D, 6 if quick else 10)
        rows = list(itertools.product(XV, repeat=D))
        batches = []
        for _ in range(4 if quick else 8):
            n = rng.choice([1, 2, 3, 4])
            batches.append(tuple(rng.choice(rows) for _ in range(n)))
        recs += model(ck, "density-C%d-D%d" % (C, D), C, D, ms, batches, coverage=not quick)
    ck.exhaustive = True
    for d in ("DENS_NO_LOG_WEIGHT", "DENS_NORMALISER_WITHOUT_2PI", "DENS_FLOOR_IGNORED"):
        ms = [{"w": [F(1, 4), F(3, 4)], "mu": [[F(0)], [F(3)]], "var": [[F(1, 4)], [F(9)]], "floor": F(1, 2)}]
        model(ck, "deviation:" + d, 2, 1, ms, [((1,), (-3,))], dev=[d], expect_violation=True, export=False)
    seen = set()
    for rec in recs:
        k = repr(rec)
        if k in seen:
            continue
        seen.add(k)
        replay(ck, em, rec)
    quadrature(ck, em, rng, 6 if quick else 14)
    tail_sweep(ck, em, rng, 6 if quick else 10)
    rare_components(ck, em, rng, 6 if quick else 15)


def build(em, m, history=False):
    C = len(m["w"])
    g = em.GMMMachine(C, weights=np.array([float(F(*x)) for x in m["w"]]))
    means = np.array([[float(F(*x)) for x in row] for row in m["mu"]])
    var = np.array([[float(F(*x)) for x in row] for row in m["var"]])
    if history:
        # the same machine reached another way: configured with a low floor, used, then the floor is raised
        g.variance_thresholds = 1e-3
        g.means = means
        g.variances = var
        g.log_likelihood(means[:1])
        g.variance_thresholds = float(F(*m["floor"]))
        return g
    g.variance_thresholds = float(F(*m["floor"]))
    g.means = means
    g.variances = var
    return g


def replay(ck, em, rec):
    import dask
    import dask.array as da
    g = build(em, rec["m"], history=(len(rec["batch"]) + len(rec["comp"])) % 2 == 1)
    X = np.array(rec["batch"], dtype=float)
    n, D = X.shape
    exp_terms = [[term_value(t) for t in row] for row in rec["out"]]       # [row][component]
    exp_lwl = np.array([[float(v) for v in row] for row in exp_terms]).T    # (C, n)
    exp_ll = np.array([float(lse(row)) for row in exp_terms])
    ck.replayed += 1
    ck.seen(rec)
    scn = {"machine": rec["m"], "batch": rec["batch"], "comp": rec["comp"]}

    def bad(clause, detail):
        ck.violation("M2:GmmDensity:" + clause, {"mechanism": "M2", "module": "GmmDensity", "scenario": scn, "detail": detail})

    def same(a, b, tol=1e-10):
        a, b = np.asarray(a, dtype=float), np.asarray(b, dtype=float)
        return a.shape == b.shape and np.all(np.isfinite(a)) and np.all(np.abs(a - b) <= tol * np.maximum(1.0, np.abs(b)))

    lwl = np.asarray(g.log_weighted_likelihood(X))
    if not same(lwl, exp_lwl):
        return bad("CachedFormIsDensity", "log_weighted_likelihood %s, expected %s" % (lwl.tolist(), exp_lwl.tolist()))
    st = g.acc_stats(X)
    ll = np.asarray(g.log_likelihood(X))
    if not same(ll, exp_ll):
        return bad("LogSumExp", "log_likelihood %s, expected log-sum-exp of the exact terms %s" % (ll.tolist(), exp_ll.tolist()))
    for i in range(n):
        one = np.asarray(g.log_likelihood(X[i]))
        if one.shape != (1,) or not same(one, ll[i:i + 1], 1e-13):
            return bad("BatchEqSingle", "row %d alone scores %s, inside the batch %s" % (i, one.tolist(), ll[i]))
    with dask.config.set(scheduler="synchronous"):
        dl = np.asarray(g.log_likelihood(da.from_array(X, chunks=(tuple(rec["comp"]), D))).compute())
    if not same(dl, ll, 1e-13):
        return bad("ChunkEqBatch", "row-chunked Dask array %s scores %s, NumPy batch %s" % (rec["comp"], dl.tolist(), ll.tolist()))
    if ck.replayed % 3:
        return _after_dask_histories(ck, em, rec, g, X, exp_terms, exp_ll, ll, lwl, st, scn, bad, same)
    # a score asked of the machine is the score of the mixture it held WHEN ASKED: the lazy Dask results are evaluated
    # only after the machine has been given other parameters through its setters (then the parameters are put back)
    with dask.config.set(scheduler="synchronous"):
        Xd = da.from_array(X, chunks=(tuple(rec["comp"]), D))
        lazy_ll, lazy_lwl, lazy_st = g.log_likelihood(Xd), g.log_weighted_likelihood(Xd), g.acc_stats(Xd)
        keep = (np.array(g.weights), np.array(g.means), np.array(g.variances))
        g.means = keep[1] + 2.5
        g.variances = keep[2] * 3.0
        g.weights = keep[0][::-1].copy()
        late = (np.asarray(dask.compute(lazy_ll)[0]), np.asarray(dask.compute(lazy_lwl)[0]), float(dask.compute(lazy_st.log_likelihood)[0]))
        g.weights, g.means, g.variances = keep
    # several lazy results evaluated in ONE graph (two machines on the same samples, one machine on two sample sets,
    # a likelihood ratio built lazily): every result is still the one of its own machine and samples
    with dask.config.set(scheduler="synchronous"):
        other = em.GMMMachine(len(rec["m"]["w"]), weights=np.array(g.weights)[::-1].copy())
        other.means, other.variances = np.array(g.means) + 1.25, np.array(g.variances) * 1.5
        Xd = da.from_array(X, chunks=(tuple(rec["comp"]), D))
        Yd = da.from_array(X[::-1] * 0.5 + 0.25, chunks=(tuple(rec["comp"]), D))
        ja, jb, jc = dask.compute(g.log_likelihood(Xd), other.log_likelihood(Xd), g.log_likelihood(Yd))
        ratio = np.asarray((other.log_likelihood(Xd) - g.log_likelihood(Xd)).compute())
        sa, sb = g.acc_stats(Xd), g.acc_stats(Yd)
        la, lb = dask.compute(sa.log_likelihood, sb.log_likelihood)
    eb, ec = np.asarray(other.log_likelihood(X)), np.asarray(g.log_likelihood(X[::-1] * 0.5 + 0.25))
    if not (same(ja, ll, 1e-12) and same(jb, eb, 1e-12) and same(jc, ec, 1e-12) and same(ratio, eb - ll, 1e-9)
            and same([float(la)], [float(ll.sum())], 1e-12) and same([float(lb)], [float(ec.sum())], 1e-12)):
        return bad("ScoreIsOfTheMachineAsked", "Dask scores of two machines / two sample sets computed in one graph: %s / %s / %s, "
                   "each computed alone %s / %s / %s" % (np.asarray(ja).tolist(), np.asarray(jb).tolist(), np.asarray(jc).tolist(),
                                                        ll.tolist(), eb.tolist(), ec.tolist()))
    if not (same(late[0], ll, 1e-13) and same(late[1], lwl, 1e-13) and same([late[2]], [float(st.log_likelihood)], 1e-12)):
        return bad("ScoreIsOfTheMachineAsked", "Dask scores requested before the machine's parameters were changed and computed after: "
                   "log_likelihood %s, the machine's answer when asked %s" % (late[0].tolist(), ll.tolist()))
    if not same([float(st.log_likelihood)], [float(sum(lse(row) for row in exp_terms))]):
        return bad("StatsLogLikelihood", "acc_stats(X).log_likelihood %r, expected %r" % (float(st.log_likelihood), float(sum(exp_ll))))
    return _after_dask_histories(ck, em, rec, g, X, exp_terms, exp_ll, ll, lwl, st, scn, bad, same)


def _after_dask_histories(ck, em, rec, g, X, exp_terms, exp_ll, ll, lwl, st, scn, bad, same):
    import dask
    import dask.array as da
    n, D = X.shape
    # ---- the same machine and samples far from the origin (GmmDensity.AffineShift with a = 1: nothing may move)
    for b in (1e6, -3e7):
        g3 = em.GMMMachine(len(rec["m"]["w"]), weights=np.array([float(F(*x)) for x in rec["m"]["w"]]))
        g3.variance_thresholds = float(F(*rec["m"]["floor"]))
        g3.means = np.asarray(g.means) + b
        g3.variances = np.asarray(g.variances)
        Xb = X + b
        near = np.abs(X).max() < 1e3         # (X + b) - (mu + b) is exact only for moderate samples
        if not near:
            continue
        got = np.asarray(g3.log_likelihood(Xb))
        if not same(got, exp_ll, 1e-7):
            return bad("FarFromOrigin", "features shifted by %g (NumPy batch): log_likelihood %s, expected %s" % (b, got.tolist(), exp_ll.tolist()))
        with dask.config.set(scheduler="synchronous"):
            gd = np.asarray(g3.log_likelihood(da.from_array(Xb, chunks=(tuple(rec["comp"]), D))).compute())
            sd = g3.acc_stats(da.from_array(Xb, chunks=(tuple(rec["comp"]), D)))
            nd = np.asarray(dask.compute(sd.n)[0], dtype=float)
        if not same(gd, exp_ll, 1e-7):
            return bad("FarFromOrigin", "features shifted by %g (Dask array): log_likelihood %s, expected %s" % (b, gd.tolist(), exp_ll.tolist()))
        if not same(nd, np.asarray(st.n, dtype=float), 1e-6):
            return bad("FarFromOrigin", "features shifted by %g (Dask array): responsibilities %s, unshifted %s" % (b, nd.tolist(), np.asarray(st.n).tolist()))
    # ---- the same machine widened: its features repeated T times (each component becomes a product of T
    # independent copies, so every weighted log-density is log w + T * (term - log w)) and expressed in other
    # units (x -> a x shifts every log-density by -D' log|a|, GmmDensity.AffineShift).  Many features with
    # uniformly small / large variances is where a normaliser computed as log(prod(...)) leaves double range.
    T = 32
    C = len(rec["m"]["w"])
    logw = [(Decimal(x[0]) / Decimal(x[1])).ln() for x in rec["m"]["w"]]
    for a in (1e-3, 1.0, 1e3):
        g2 = em.GMMMachine(C, weights=np.array([float(F(*x)) for x in rec["m"]["w"]]))
        g2.variance_thresholds = float(F(*rec["m"]["floor"])) * a * a
        g2.means = np.tile(np.asarray(g.means), (1, T)) * a
        g2.variances = np.tile(np.asarray(g.variances), (1, T)) * a * a
        Xw = np.tile(X, (1, T)) * a
        shift = Decimal(D * T) * Decimal(abs(a)).ln()
        exp_w = [[logw[c] + T * (row[c] - logw[c]) - shift for c in range(C)] for row in exp_terms]
        exp_llw = np.array([float(lse(row)) for row in exp_w])
        got = np.asarray(g2.log_likelihood(Xw))
        if not same(got, exp_llw, 1e-9):
            return bad("WideMachine", "%d features (the scenario's features repeated %d times), units x%g: log_likelihood %s, "
                       "expected %s" % (D * T, T, a, got.tolist(), exp_llw.tolist()))
        st2 = g2.acc_stats(Xw)
        # responsibilities are exp(lwl - ll): their rounding error is eps * |lwl| (far tails have |lwl| ~ 1e7)
        slack = max(1e-9, 16 * np.finfo(float).eps * float(np.max(np.abs(exp_llw)))) * n
        if not (np.all(np.isfinite(np.asarray(st2.n))) and abs(float(np.sum(st2.n)) - n) <= slack):
            return bad("WideMachine", "%d features, units x%g: responsibilities %s do not sum to %d" % (D * T, a, np.asarray(st2.n).tolist(), n))
    ck.sample({"mechanism": "M2", "scenario": scn, "log_likelihood": ll.tolist(), "verdict": "ok"})


def quadrature(ck, em, rng, count):
    """The evaluator and the code agree on a density that integrates to one."""
    for i in range(count):
        C = rng.choice([1, 2, 3])
        D = 1 if i % 3 else 2
        m = machines(rng, C, D, 1)[0]
        g = build(em, {"w": [[x.numerator, x.denominator] for x in m["w"]],
                       "mu": [[[x.numerator, x.denominator] for x in r] for r in m["mu"]],
                       "var": [[[x.numerator, x.denominator] for x in r] for r in m["var"]],
                       "floor": [m["floor"].numerator, m["floor"].denominator]})
        sd = float(np.sqrt(np.max(g.variances)))
        lo, hi = float(np.min(g.means)) - 12 * sd, float(np.max(g.means)) + 12 * sd
        if D == 1:
            xs = np.linspace(lo, hi, 400001)
            val = np.trapezoid(np.exp(np.asarray(g.log_likelihood(xs[:, None]))), xs)
        else:
            xs = np.linspace(lo, hi, 1201)
            gx, gy = np.meshgrid(xs, xs, indexing="ij")
            p = np.exp(np.asarray(g.log_likelihood(np.stack([gx.ravel(), gy.ravel()], axis=1)))).reshape(gx.shape)
            val = np.trapezoid(np.trapezoid(p, xs, axis=1), xs)
        ck.replayed += 1
        ck.seen(["quadrature", i, repr(m)])
        if not abs(val - 1) < 1e-6:
            ck.violation("M2:GmmDensity:IntegratesToOne", {"mechanism": "M2", "module": "GmmDensity", "machine": repr(m),
                                                          "detail": "integral of exp(log_likelihood) = %.9f" % val})


def dec_ll(g, x):
    """log sum_c w_c prod_d N(x_d; mu_cd, var_cd) of the machine's own (float) parameters at 60 digits."""
    w, mu, var = np.asarray(g.weights), np.asarray(g.means), np.asarray(g.variances)
    terms = []
    for c in range(len(w)):
        q = sum((Decimal(float(x[d])) - Decimal(float(mu[c, d]))) ** 2 / Decimal(float(var[c, d]))
                + (2 * PI * Decimal(float(var[c, d]))).ln() for d in range(mu.shape[1]))
        terms.append(Decimal(float(w[c])).ln() - q / 2)
    return terms, lse(terms)


def tail_sweep(ck, em, rng, count):
    """GmmDensity holds at every distance from the means: one sample walked outwards along a ray so that its
    log-likelihood sweeps 1 ... 1e7 geometrically and the band 600 ... 800 (where exp() of a double leaves the normal
    range, then flushes to zero) in steps of 0.5; scored alone, next to a bulk sample, next to a farther sample,
    in one-row Dask blocks and through acc_stats."""
    import dask
    import dask.array as da
    mags = np.concatenate([np.geomspace(1, 1e7, 120), np.arange(600, 800, 0.5)])
    for i in range(count):
        C = rng.choice([1, 2, 3])
        D = rng.choice([1, 2, 3])
        m = machines(rng, C, D, 1)[0]
        g = build(em, {"w": [[x.numerator, x.denominator] for x in m["w"]],
                       "mu": [[[x.numerator, x.denominator] for x in r] for r in m["mu"]],
                       "var": [[[x.numerator, x.denominator] for x in r] for r in m["var"]],
                       "floor": [m["floor"].numerator, m["floor"].denominator]})
        r = np.random.RandomState(rng.randrange(10 ** 6))
        u = r.normal(size=D)
        u /= np.linalg.norm(u)
        c0 = r.randint(0, C)
        sd = np.sqrt(np.asarray(g.variances)[c0])
        X = np.array([np.asarray(g.means)[c0] + np.sqrt(2 * t) * sd * u for t in mags])
        exp = [dec_ll(g, x) for x in X]
        exp_ll = np.array([float(e[1]) for e in exp])
        bulk = np.asarray(g.means)[c0] + 0.3 * sd
        ck.replayed += 1
        ck.seen(["tail", i, repr(m)])
        scn = {"machine": repr(m), "ray_from_component": int(c0), "direction": u.tolist()}

        def bad(clause, j, how, got):
            ck.violation("M2:GmmDensity:" + clause, {"mechanism": "M2", "module": "GmmDensity", "scenario": scn,
                         "sample": X[j].tolist(), "detail": "%s: log_likelihood %r, expected %r" % (how, float(got), float(exp_ll[j]))})

        def close(a, b, tol=1e-10):
            return np.isfinite(a) and abs(a - b) <= tol * max(1.0, abs(b))
        whole = np.asarray(g.log_likelihood(X))
        lwl = np.asarray(g.log_weighted_likelihood(X))
        with dask.config.set(scheduler="synchronous"):
            rows = np.asarray(g.log_likelihood(da.from_array(X, chunks=(1, D))).compute())
        ok = True
        for j in range(len(X)):
            alone = float(np.asarray(g.log_likelihood(X[j]))[0])
            pair = float(np.asarray(g.log_likelihood(np.stack([bulk, X[j]])))[1])
            far = float(np.asarray(g.log_likelihood(np.stack([X[j], X[-1]])))[0])
            for how, got in (("scored alone", alone), ("next to a sample near a mean", pair),
                             ("next to a farther sample", far), ("inside the whole ray", whole[j]),
                             ("one-row Dask blocks", rows[j])):
                if not close(got, exp_ll[j]):
                    bad("TailSweep", j, how, got)
                    ok = False
                    break
            if ok and not all(close(lwl[c, j], float(exp[j][0][c])) for c in range(C)):
                bad("CachedFormIsDensity", j, "log_weighted_likelihood %s" % lwl[:, j].tolist(), lwl[:, j].max())
                ok = False
            if ok:
                st = g.acc_stats(np.stack([bulk, X[j]]))
                e2 = float(dec_ll(g, bulk)[1] + exp[j][1])
                if not close(float(st.log_likelihood), e2):
                    bad("StatsLogLikelihood", j, "acc_stats([near, this]).log_likelihood (expected %r)" % e2, float(st.log_likelihood))
                    ok = False
            if not ok:
                break
        if ok:
            ck.sample({"mechanism": "M2", "tail_sweep": scn, "samples": len(X), "verdict": "ok"}, limit=3)


def rare_components(ck, em, rng, count):
    """GmmDensity holds for every positive weight: machines with one component of weight 1e-3 ... 1e-15 (large
    UBMs, components emptied by training), scored at samples near that component and tens of standard deviations
    from the heavy ones, where the rare component carries the likelihood."""
    import dask
    import dask.array as da
    for i in range(count):
        r = np.random.RandomState(rng.randrange(10 ** 6))
        C, D = int(r.randint(2, 5)), int(r.randint(1, 4))
        small = 10.0 ** -r.uniform(3, 15.5, size=1 + (C > 2 and r.rand() < 0.3))
        w = r.uniform(0.2, 1, size=C)
        w[:len(small)] = 0
        w = w / w.sum() * (1 - small.sum())
        w[:len(small)] = small
        mu = r.normal(size=(C, D)) * 2
        mu[:len(small)] += 60.0 * r.choice([-1, 1], size=(len(small), D))       # far from the heavy components
        var = r.uniform(0.3, 2.5, size=(C, D))
        g = em.GMMMachine(C, weights=w.copy())
        if i % 2:
            g.means, g.variances = mu.copy(), var.copy()
        else:
            g.means, g.variances = mu.copy(), var.copy()
            g.weights = w.copy()                # assigned after the Gaussians
        X = np.concatenate([mu[k] + r.normal(size=(4, D)) * np.sqrt(var[k]) for k in range(C)])
        exp = [dec_ll(g, x) for x in X]
        exp_ll = np.array([float(e[1]) for e in exp])
        exp_lwl = np.array([[float(v) for v in e[0]] for e in exp]).T
        ck.replayed += 1
        ck.seen(["rare", i, w.tolist()])
        scn = {"weights": w.tolist(), "means": mu.tolist(), "variances": var.tolist()}

        def bad(clause, detail):
            ck.violation("M2:GmmDensity:" + clause, {"mechanism": "M2", "module": "GmmDensity", "scenario": scn, "detail": detail})

        def close(a, b, tol=1e-11):
            a, b = np.asarray(a, dtype=float), np.asarray(b, dtype=float)
            return a.shape == b.shape and np.all(np.isfinite(a)) and np.all(np.abs(a - b) <= tol * np.maximum(1.0, np.abs(b)))
        lwl = np.asarray(g.log_weighted_likelihood(X))
        if not close(lwl, exp_lwl):
            bad("CachedFormIsDensity", "component of weight %s: log_weighted_likelihood off by %.3e"
                % (small.tolist(), float(np.max(np.abs(lwl - exp_lwl)))))
            continue
        ll = np.asarray(g.log_likelihood(X))
        with dask.config.set(scheduler="synchronous"):
            dl = np.asarray(g.log_likelihood(da.from_array(X, chunks=(3, D))).compute())
        one = np.array([float(np.asarray(g.log_likelihood(x))[0]) for x in X])
        st = g.acc_stats(X)
        if not (close(ll, exp_ll) and close(dl, exp_ll) and close(one, exp_ll)):
            bad("LogSumExp", "component of weight %s: log_likelihood off by %.3e (batch) %.3e (Dask) %.3e (single vectors)"
                % (small.tolist(), float(np.max(np.abs(ll - exp_ll))), float(np.max(np.abs(dl - exp_ll))), float(np.max(np.abs(one - exp_ll)))))
            continue
        tot = float(sum(e[1] for e in exp))
        if not close([float(st.log_likelihood)], [tot]):
            bad("StatsLogLikelihood", "acc_stats(X).log_likelihood %r, expected %r" % (float(st.log_likelihood), tot))
            continue
        ck.sample({"mechanism": "M2", "rare_component": {"weights": w.tolist()}, "verdict": "ok"}, limit=3)
