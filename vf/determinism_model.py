"""Binding of specs/Determinism.tla to the estimators: TLC runs, concrete problems, and the execution of one
abstract step (Perturb / PerturbDraw / Fit) on the real code.

An abstract Fit(e, c, d, o, p, r) is made concrete by a *variant* (how the estimator is driven: initialiser,
NumPy or Dask input, statistics list or array entry point, label set) chosen by the caller; the reference a
fit is compared with is always computed with the same variant."""
import itertools

import numpy as np

from . import mc, tlc

INV = ["ResultIsFunctionOfMultisetAndSeed", "HistoryIndependent", "RandomnessComesFromOwnSeed"]
PROPS = ["GlobalStreamEffectDocumented"]
ALL = ["kmeans", "gmm", "isv", "jfa", "wccn"]
# deviation -> formulas it must violate
DEVS = {"KMEANS_IGNORES_RANDOM_STATE": INV + PROPS,
        "GMM_KMEANS_UNSEEDED": ["RandomnessComesFromOwnSeed"],
        "UVD_NOT_RESEEDED": INV + PROPS,
        "WCCN_DEPENDS_ON_LABEL_ORDER": ["ResultIsFunctionOfMultisetAndSeed"],
        "ACC_IGNORES_CLASS_ID": ["ResultIsFunctionOfMultisetAndSeed"],
        "LOOP_BOOKKEEPING_SURVIVES_FIT": ["ResultIsFunctionOfMultisetAndSeed", "HistoryIndependent"]}
KMEANS_DEFAULT_SEED = 0     # KMeansMachine(..., random_state=0) in the signature


def _set(xs):
    return mc.Expr("{" + ", ".join('"%s"' % x if isinstance(x, str) else str(x) for x in xs) + "}")


def model_run(ck, name, maxlen, ests=ALL, seeds=(0, 1), pseeds=(0, 1), orders=(1, 2), relabels=(1, 2), problems=(1,),
              dev=(), invariants=INV, props=PROPS, export=True, expect_violation=False, coverage=False, workers=16):
    defs = {"MC_Ests": _set(ests), "MC_Seeds": _set(seeds), "MC_PSeeds": _set(pseeds), "MC_Orders": _set(orders),
            "MC_Relabels": _set(relabels), "MC_Problems": _set(problems), "MC_Dev": _set(dev)}
    text = mc.module("MC_Determinism", ["Determinism"], defs)
    cfg = mc.cfg(consts={"MaxLen": maxlen, "KMeansDefaultSeed": KMEANS_DEFAULT_SEED},
                 subst={"Ests": "MC_Ests", "Seeds": "MC_Seeds", "PerturbSeeds": "MC_PSeeds", "Orders": "MC_Orders",
                        "Relabels": "MC_Relabels", "Problems": "MC_Problems", "Dev": "MC_Dev"},
                 invariants=invariants, properties=props, constraints=["Export"] if export else [])
    r = tlc.run(ck.work, "MC_Determinism", cfg, root_text=text, workers=workers, coverage=coverage,
                expect_violation=expect_violation)
    ck.account(name, r, expect_violation=expect_violation)
    return r


# ------------------------------------------------------------------ abstract steps as exported
def parse_step(t):
    if t[0] == "Fit":
        return {"a": "Fit", "e": t[1], "c": t[2], "d": t[3], "o": t[4], "p": t[5], "r": t[6],
                "toks": [tuple(x) for x in t[7]], "odep": t[8], "pdep": t[9], "ga": (t[10], t[11]),
                "ob": t[12] if len(t) > 12 else "fresh"}
    return {"a": t[0], "r": t[1], "ga": (t[2], t[3])}


def result_class(s, variant):
    """The abstract result (TLC's record) as a hashable key: equal keys = the model says equal results."""
    return (s["e"], s["c"], variant, s["d"], tuple(s["toks"]), s["odep"], s["pdep"])


def own_key(s, variant):
    return (s["e"], s["c"], variant, s["d"], s["o"], s["p"], s["r"])


def canonical_key(s, variant):
    """The fit the model declares equal to this one that uses the reference order / the identity relabelling
    wherever the result does not depend on them."""
    return (s["e"], s["c"], variant, s["d"], s["o"] if s["odep"] else 1, s["p"] if s["pdep"] else 1, s["r"])


# ------------------------------------------------------------------ concrete problems
VARIANTS = {
    ("kmeans", "drawn"): ["random/numpy", "random/dask", "k-means||/numpy", "k-means||/dask"],
    ("kmeans", "given"): ["array/numpy", "array/dask"],
    ("gmm", "drawn"): ["default/numpy", "default/dask", "trainer-random/numpy", "trainer-random/dask"],
    ("gmm", "given"): ["explicit/numpy", "explicit/dask"],
    ("isv", "given"): ["stats", "array", "dask", "bag"],
    ("isv", "drawn"): ["array", "dask"],
    ("jfa", "given"): ["stats", "array", "dask", "bag"],
    ("jfa", "drawn"): ["array", "dask"],
    ("wccn", "given"): ["numpy", "pinv", "dask", "labels:5,7,9", "labels:10,3,-4", "labels:-1,-2,-3"],
}
K = 3   # classes of the labelled problems
RELABEL = {i + 1: p for i, p in enumerate(itertools.permutations(range(K)))}
# id 1 is the identity; make id 2 a permutation without fixed point (a cycle)
RELABEL[2], RELABEL[4] = RELABEL[4], RELABEL[2]


class Problems:
    """Tiny seeded problems: C=2 Gaussians / clusters, D=2 features, 9 labelled samples in 3 classes."""

    def __init__(self, seed):
        self.seed = seed
        self.cache = {}

    def get(self, d):
        if d in self.cache:
            return self.cache[d]
        rs = np.random.RandomState((1000003 * self.seed + 7919 * d) % (2 ** 31))
        pr = {"d": d}
        # unlabelled: four tight blobs on the corners of a square -> six stable 2-partitions, so that the
        # trained model really depends on which samples the seeded initialiser picks
        per = 4 if d % 2 else 5
        corners = np.array([[0, 0], [1, 0], [0, 1], [1, 1]], float) * 4
        # (even d: overlapping blobs, so that the second k-means iteration still moves the centroids)
        X = np.concatenate([c + (0.3 if d % 2 else 1.3) * rs.randn(per, 2) for c in corners])
        pr["X"] = X[rs.permutation(len(X))]
        pr["init"] = np.array([[0.3, 2.1], [3.8, 1.9]]) if d % 2 else np.array([[2.1, 0.2], [1.9, 3.7]])
        pr["km_iter"] = 3 if d % 2 else 2
        pr["gmm"] = dict(max_fitting_steps=2, update_means=True, update_variances=True, update_weights=True) \
            if d % 2 else dict(max_fitting_steps=1)
        # labelled: three classes, three samples each, one 2-D observation per sample
        cm = rs.randn(K, 2) * 2 + [1.5, 1.0]
        pr["Xl"] = np.concatenate([cm[k] + 0.8 * rs.randn(3, 2) for k in range(K)])
        pr["yl"] = np.repeat(np.arange(K), 3)
        if d % 2 == 0:
            # tied occupancies (round eight): the observations of the even problems lie far out on either side of the
            # UBM (~60 units), so every posterior saturates to exactly 0 / 1 and many sessions have bit-identical
            # zeroth-order statistics with different first-order ones -- anything keyed on, or shared between,
            # sessions that "look the same" then depends on the order in which the sessions are visited
            side = np.where(np.arange(3 * K) % 2 == 0, -1.0, 1.0)[:, None]
            pr["Xl"] = pr["Xl"] + side * np.array([60.0, 55.0])
        pr["fa"] = dict(r_U=2, r_V=1, em_iterations=2) if d % 2 else dict(r_U=1, r_V=2, em_iterations=1)
        pr["ubm"] = dict(means=np.array([[0.0, 0.0], [3.0, 2.0]]), variances=np.array([[1.0, 0.5], [0.7, 1.2]]),
                         weights=np.array([0.4, 0.6]))
        self.cache[d] = pr
        return pr

    def order(self, n, o):
        """Order id -> permutation of range(n); 1 = identity, 2.. = seeded permutations, 3 = reversal."""
        if o == 1:
            return np.arange(n)
        if o == 3:
            return np.arange(n)[::-1].copy()
        return np.random.RandomState((self.seed * 31 + o * 101 + n) % (2 ** 31)).permutation(n)


def observables(e, c, m):
    if e == "kmeans":
        return [np.array(m.centroids_, dtype=float)]
    if e == "gmm":
        return [np.array(m.means, dtype=float), np.array(m.variances, dtype=float), np.array(m.weights, dtype=float)]
    if e in ("isv", "jfa"):
        out = [np.array(m.U, dtype=float), np.array(m.D, dtype=float)]
        if e == "jfa":
            out.insert(1, np.array(m.V, dtype=float))
        if c == "drawn":
            out += [np.array(m.ubm.means, dtype=float), np.array(m.ubm.variances, dtype=float),
                    np.array(m.ubm.weights, dtype=float)]
        return out
    return [np.array(np.asarray(m.weights), dtype=float)]


# number of draws the caller makes from NumPy's global generator BETWEEN constructing an estimator and calling
# its fit (0 for the references, the position in the history otherwise): an estimator must not rely on the
# global stream staying where its constructor left it
GAP = [0]


def _gap():
    if GAP[0]:
        np.random.rand(GAP[0])


def _coinciding_scale(make_km, XA, XB, wrap):
    """The unit in which the earlier data set A is expressed: chosen so that the criterion its k-means training ends
    with equals the criterion of the FIRST iteration on B (what a loop that kept its previous criterion on the object
    would compare with).  Public API only; a few fixed-point steps (exact at once for a seeded draw of indices)."""
    m1 = make_km(1)
    m1.fit(wrap(XB))
    target = float(m1.average_min_distance)
    sc = 1.0
    for _ in range(4):
        mA = make_km(None)
        mA.fit(wrap(XA * sc))
        dA = float(mA.average_min_distance)
        if not (np.isfinite(dA) and dA > 0 and np.isfinite(target) and target > 0):
            break
        sc *= float(np.sqrt(target / dA))
    return sc


def fit(em, probs, e, c, variant, d, o, p, r, used=None):
    """Builds the estimator with random_state=r and fits it; returns the public parameters.  used = the earlier Fit
    step (same estimator, configuration and seed) whose object is fitted again: the object is first fitted on that
    step's problem, then on this one."""
    import dask
    import dask.array as da
    pr = probs.get(d)
    pr0 = probs.get(used["d"]) if used else None
    with dask.config.set(scheduler="synchronous"):
        if e in ("kmeans", "gmm"):
            how, backend = variant.split("/")
            wrap = (lambda a: da.from_array(a, chunks=(5, 2))) if backend == "dask" else (lambda a: a)
            Xn = pr["X"][probs.order(len(pr["X"]), o)].copy()
            X = wrap(Xn)
            XA = pr0["X"][probs.order(len(pr0["X"]), used["o"])].copy() if used else None
            if e == "kmeans":
                def make_km(cap):
                    init = pr["init"].copy() if how == "array" else how
                    return em.KMeansMachine(2, init_method=init, random_state=r, max_iter=cap or pr["km_iter"])
                m = make_km(None)
                if used:
                    m.fit(wrap(XA * _coinciding_scale(make_km, XA, Xn, wrap)))
            else:
                kw = dict(pr["gmm"])

                def make_km(cap):
                    return em.KMeansMachine(2, init_method="random", random_state=r, max_iter=cap or 3)
                if how == "trainer-random":
                    kw["k_means_trainer"] = make_km(None)
                if how == "twin":   # what the default initialisation is documented to be
                    kw["k_means_trainer"] = em.KMeansMachine(2, random_state=r)
                if used and how == "trainer-random":
                    # the configured trainer object has initialised another GMM before
                    em.GMMMachine(2, random_state=r, **kw).fit(wrap(XA * _coinciding_scale(make_km, XA, Xn, wrap)))
                m = em.GMMMachine(2, random_state=r, **kw)
                if how == "explicit":
                    m.means = pr["init"].copy()
                    m.variances = np.array([[1.0, 0.6], [0.8, 1.1]])
                    m.weights = np.array([0.45, 0.55])
            _gap()
            m.fit(X)
            return observables(e, c, m)
        perm = probs.order(len(pr["yl"]), o)
        X = pr["Xl"][perm].copy()
        y = np.array(RELABEL[p])[pr["yl"][perm]]
        X0 = y0 = None
        if used:
            perm0 = probs.order(len(pr0["yl"]), used["o"])
            X0 = pr0["Xl"][perm0].copy() * 1.5 + 0.25
            y0 = np.array(RELABEL[used["p"]])[pr0["yl"][perm0]]
        if e == "wccn":
            if variant.startswith("labels:"):
                lab = np.array([int(v) for v in variant[7:].split(",")])
                y = lab[y]
                y0 = lab[y0] if used else None
            if variant == "dask":
                X = da.from_array(X, chunks=(4, 2))
                X0 = da.from_array(X0, chunks=(4, 2)) if used else None
            m = em.WCCN(pinv=(variant == "pinv"))
            if used:
                m.fit(X0, y0)
                _gap()
            m.fit(X, y)
            return observables(e, c, m)
        fa = pr["fa"]
        if c == "given":
            ubm = em.GMMMachine(2)
            ubm.means, ubm.variances, ubm.weights = (pr["ubm"][k].copy() for k in ("means", "variances", "weights"))
            kw = dict(ubm=ubm)
        else:
            kw = dict(ubm_kwargs=dict(n_gaussians=2, random_state=r, max_fitting_steps=2))
        if e == "isv":
            m = em.ISVMachine(r_U=fa["r_U"], em_iterations=fa["em_iterations"], random_state=r, **kw)
        else:
            m = em.JFAMachine(r_U=fa["r_U"], r_V=fa["r_V"], em_iterations=fa["em_iterations"], random_state=r, **kw)
        def train(Xd, yd):
            if variant == "stats":
                m.fit(m.ubm.transform(Xd), yd)
            elif variant == "bag":
                import dask.bag as db
                m.fit(db.from_sequence(m.ubm.transform(Xd), npartitions=3), yd)
            elif variant == "array":
                m.fit_using_array(Xd, yd)
            else:
                m.fit_using_array(da.from_array(Xd, chunks=(4, 2)), yd)
        _gap()
        train(X, y)
        return observables(e, c, m)


def bitwise_equal(a, b):
    return len(a) == len(b) and all(x.shape == y.shape and x.tobytes() == y.tobytes() for x, y in zip(a, b))


def max_excess(a, b, tol=1e-8):
    """None if a is within tol*max(1,|b|) of b everywhere, else the largest absolute difference (inf for shape
    mismatch or non-finite values)."""
    if len(a) != len(b):
        return float("inf")
    worst = None
    for x, y in zip(a, b):
        if x.shape != y.shape or not (np.all(np.isfinite(x)) and np.all(np.isfinite(y))):
            return float("inf")
        if x.size and not np.all(np.abs(x - y) <= tol * np.maximum(1.0, np.abs(y))):
            worst = max(worst or 0.0, float(np.abs(x - y).max()))
    return worst


def global_state():
    s = np.random.get_state()
    return (s[0], s[1].tobytes(), s[2], s[3], s[4])
