"""Binding of specs/IVector.tla to bob.learn.em.ivector: scenario domains, TLC runs, and the replay of
every exported terminal state through IVectorMachine.project / transform and the module-level
e_step / m_step."""
import itertools
import json
import os
from fractions import Fraction as F

import numpy as np

from . import mc, tlc
from .common import allclose, tla, tla_rat

INVARIANTS = ["ProjectionSolvesSystem", "ZeroFramesGiveZero", "PosteriorCovIsInverse", "MStepSolvesNormalEq",
              "SigmaAboveFloor", "AllFinite", "AffineInvariant"]
DEVIATION = "IVECTOR_SIGMA_DIV_ZERO_COUNT"
BW, BA = 60, 4000     # scope of the 32-bit model (see EScope / MScope in the module)


# ------------------------------------------------------------------ scenario domains
def q(x):
    x = F(x)
    return [x.numerator, x.denominator]


def stat_from_points(C, D, pts):
    """A statistic as the responsibility-weighted moments of a few points: pts = [(x (D values), r (C weights))].
    Such statistics are consistent (S >= F^2/N, N = 0 => F = S = 0), as those produced by a GMM are."""
    n = [sum((F(r[c]) for _, r in pts), F(0)) for c in range(C)]
    f = [[sum((F(r[c]) * F(x[d]) for x, r in pts), F(0)) for d in range(D)] for c in range(C)]
    s = [[sum((F(r[c]) * F(x[d]) ** 2 for x, r in pts), F(0)) for d in range(D)] for c in range(C)]
    return {"n": n, "f": f, "s": s}


def stat_key(st):
    return json.dumps([[q(v) for v in st["n"]], [[q(v) for v in row] for row in st["f"]],
                       [[q(v) for v in row] for row in st["s"]]])


def stat_pool(C, D, xvals, rvals, max_points=2):
    """All distinct statistics of 1..max_points weighted points on the grid (the zero statistic included)."""
    single = [(x, r) for x in itertools.product(xvals, repeat=D) for r in itertools.product(rvals, repeat=C)]
    pool, seen = [], set()
    for k in range(1, max_points + 1):
        for pts in itertools.combinations_with_replacement(single, k):
            st = stat_from_points(C, D, pts)
            key = stat_key(st)
            if key not in seen:
                seen.add(key)
                pool.append(st)
    return pool


def scn_json(s):
    return {"m": [[q(v) for v in row] for row in s["m"]],
            "T": [[[q(v) for v in vec] for vec in row] for row in s["T"]],
            "sg": [[q(v) for v in row] for row in s["sg"]],
            "upd": bool(s["upd"]),
            "stats": [{"n": [q(v) for v in st["n"]], "f": [[q(v) for v in row] for row in st["f"]],
                       "s": [[q(v) for v in row] for row in st["s"]]} for st in s["stats"]]}


def _fr(v):
    return [_fr(x) for x in v] if isinstance(v, (list, tuple)) else F(v)


def scn_tla(s):
    return {"m": _fr(s["m"]), "T": _fr(s["T"]), "sg": _fr(s["sg"]), "upd": bool(s["upd"]),
            "stats": [{"n": _fr(st["n"]), "f": _fr(st["f"]), "s": _fr(st["s"])} for st in s["stats"]]}


def random_scenario(rng, C, D, Rt, pool, mvals, tvals, sgvals, nstats=(1, 2), zero_comp=None):
    k = rng.choice(nstats)
    stats = [rng.choice(pool) for _ in range(k)]
    if zero_comp is not None:      # a component that is empty in every statistic
        stats = [{"n": [F(0) if c == zero_comp else st["n"][c] for c in range(C)],
                  "f": [[F(0)] * D if c == zero_comp else st["f"][c] for c in range(C)],
                  "s": [[F(0)] * D if c == zero_comp else st["s"][c] for c in range(C)]} for st in stats]
    return {"m": [[rng.choice(mvals) for _ in range(D)] for _ in range(C)],
            "T": [[[rng.choice(tvals) for _ in range(Rt)] for _ in range(D)] for _ in range(C)],
            "sg": [[rng.choice(sgvals) for _ in range(D)] for _ in range(C)],
            "upd": rng.random() < 0.7, "stats": stats}


def rat_set(vals):
    return "{" + ", ".join(tla_rat(F(v)) for v in vals) + "}"


def product_domain(C, D, Rt, mvals, tvals, sgvals, statlists):
    """TLA+ text of the full product: every (m, T, sigma) over the value sets x every listed statistics list
    x update_sigma on/off."""
    sl = "{" + ", ".join(tla([{"n": st["n"], "f": st["f"], "s": st["s"]} for st in lst]) for lst in statlists) + "}"
    return mc.Expr("[m : [1..%d -> [1..%d -> %s]], T : [1..%d -> [1..%d -> [1..%d -> %s]]], "
                   "sg : [1..%d -> [1..%d -> %s]], upd : BOOLEAN, stats : %s]"
                   % (C, D, rat_set(mvals), C, D, Rt, rat_set(tvals), C, D, rat_set(sgvals), sl))


# ------------------------------------------------------------------ TLC
def model_run(ck, name, C, D, Rt, floor, affs, scenarios=None, domain=None, dev=(), export=True,
              expect_violation=False, invariants=INVARIANTS, coverage=False, workers=16, bw=BW, ba=BA):
    """One exhaustive TLC run of IVector over the given scenarios (an explicit list, handed over as a JSON
    file, or a TLA+ set expression); returns the records exported at the terminal states."""
    root = "MC_IVector"
    if scenarios is not None:
        dom = mc.Expr("{" + ",\n  ".join(tla(scn_tla(s)) for s in scenarios) + "}")
    else:
        dom = domain
    defs = {"MC_Scenarios": dom,
            "MC_Floor": mc.Expr(tla_rat(floor)),
            "MC_Affs": mc.Expr("{" + ", ".join("<<%s, %s>>" % (tla_rat(a), tla_rat(b)) for a, b in affs) + "}"),
            "MC_Dev": mc.Expr("{" + ", ".join('"%s"' % d for d in dev) + "}")}
    text = mc.module(root, ["IVector"], defs)
    cfg = mc.cfg(consts={"C": C, "D": D, "Rt": Rt, "Bw": bw, "Ba": ba},
                 subst={"Scenarios": "MC_Scenarios", "Floor": "MC_Floor", "Affs": "MC_Affs", "Dev": "MC_Dev"},
                 invariants=invariants, constraints=["Export"] if export else [])
    r = tlc.run(ck.work, root, cfg, root_text=text, workers=workers, coverage=coverage,
                expect_violation=expect_violation)
    ck.account(name, r, expect_violation=expect_violation)
    return r.records
