"""Binding of specs/IVector.tla to bob.learn.em.ivector: scenario domains, TLC runs, and the replay of
every exported terminal state through IVectorMachine.project / transform and the module-level
e_step / m_step."""
import itertools
import json
from fractions import Fraction as F

import numpy as np

from . import mc, tlc
from .common import allclose, tla, tla_rat

INVARIANTS = ["ProjectionSolvesSystem", "ZeroFramesGiveZero", "PosteriorCovIsInverse", "MStepSolvesNormalEq",
              "SigmaAboveFloor", "AllFinite", "AffineInvariant"]
DEVIATION = "IVECTOR_SIGMA_DIV_ZERO_COUNT"
BW, BA, BT = 60, 600, 2000     # scope of the 32-bit model (see EScope / MScope in the module)


# ------------------------------------------------------------------ scenario domains
def q(x):
    x = F(x)
    return [x.numerator, x.denominator]


def stat_from_points(C, D, pts):
    """A statistic as the responsibility-weighted moments of a few points: pts = [(x (D values), r (C weights))].
    Such statistics are consistent (S >= F^2/N, N = 0 => F = S = 0), as those produced by a GMM are."""
    n = [sum((F(r[c]) for _, r in pts), F(0)) for c in range(C)]
    f = [[sum((F(r[c]) * F(x[d]) for x, r in pts), F(0)) for d in range(D)] for c in range(C)]
    s = [[sum((F(r[c]) * F(x[d]) ** 2 for x, r in pts), F(0)) for d in range(D)] for c in range(C)]
    return {"n": n, "f": f, "s": s}


def stat_key(st):
    return json.dumps([[q(v) for v in st["n"]], [[q(v) for v in row] for row in st["f"]],
                       [[q(v) for v in row] for row in st["s"]]])


def stat_pool(C, D, xvals, rvals, max_points=2):
    """All distinct statistics of 1..max_points weighted points on the grid (the zero statistic included)."""
    single = [(x, r) for x in itertools.product(xvals, repeat=D) for r in itertools.product(rvals, repeat=C)]
    pool, seen = [], set()
    for k in range(1, max_points + 1):
        for pts in itertools.combinations_with_replacement(single, k):
            st = stat_from_points(C, D, pts)
            key = stat_key(st)
            if key not in seen:
                seen.add(key)
                pool.append(st)
    return pool


def _fr(v):
    return [_fr(x) for x in v] if isinstance(v, (list, tuple)) else F(v)


def scn_tla(s):
    return {"m": _fr(s["m"]), "T": _fr(s["T"]), "sg": _fr(s["sg"]), "upd": bool(s["upd"]),
            "stats": [{"n": _fr(st["n"]), "f": _fr(st["f"]), "s": _fr(st["s"])} for st in s["stats"]]}


def random_scenario(rng, C, D, Rt, pool, mvals, tvals, sgvals, nstats=(1, 2), zero_comp=None):
    k = rng.choice(nstats)
    stats = [rng.choice(pool) for _ in range(k)]
    if zero_comp is not None:      # a component that is empty in every statistic
        stats = [{"n": [F(0) if c == zero_comp else st["n"][c] for c in range(C)],
                  "f": [[F(0)] * D if c == zero_comp else st["f"][c] for c in range(C)],
                  "s": [[F(0)] * D if c == zero_comp else st["s"][c] for c in range(C)]} for st in stats]
    return {"m": [[rng.choice(mvals) for _ in range(D)] for _ in range(C)],
            "T": [[[rng.choice(tvals) for _ in range(Rt)] for _ in range(D)] for _ in range(C)],
            "sg": [[rng.choice(sgvals) for _ in range(D)] for _ in range(C)],
            "upd": rng.random() < 0.7, "stats": stats}


def rat_set(vals):
    return "{" + ", ".join(tla_rat(F(v)) for v in vals) + "}"


def product_domain(C, D, Rt, mvals, tvals, sgvals, statlists):
    """TLA+ text of the full product: every (m, T, sigma) over the value sets x every listed statistics list
    x update_sigma on/off."""
    sl = "{" + ", ".join(tla([{"n": st["n"], "f": st["f"], "s": st["s"]} for st in lst]) for lst in statlists) + "}"
    return mc.Expr("[m : [1..%d -> [1..%d -> %s]], T : [1..%d -> [1..%d -> [1..%d -> %s]]], "
                   "sg : [1..%d -> [1..%d -> %s]], upd : BOOLEAN, stats : %s]"
                   % (C, D, rat_set(mvals), C, D, Rt, rat_set(tvals), C, D, rat_set(sgvals), sl))


# ------------------------------------------------------------------ TLC
def model_run(ck, name, C, D, Rt, floor, affs, scenarios=None, domain=None, dev=(), export=True,
              expect_violation=False, invariants=INVARIANTS, coverage=False, workers=16, bw=BW, ba=BA, bt=BT, _retry=0):
    """One exhaustive TLC run of IVector over the given scenarios (an explicit list, written into the MC module,
    or a TLA+ set expression such as product_domain); returns the records exported at the terminal states
    (phase "m", or the phase at which the scenario leaves the 32-bit scope)."""
    root = "MC_IVector"
    if scenarios is not None:
        dom = mc.Expr("{" + ",\n  ".join(tla(scn_tla(s)) for s in scenarios) + "}")
    else:
        dom = domain
    defs = {"MC_Scenarios": dom,
            "MC_Floor": mc.Expr(tla_rat(floor)),
            "MC_Affs": mc.Expr("{" + ", ".join("<<%s, %s>>" % (tla_rat(a), tla_rat(b)) for a, b in affs) + "}"),
            "MC_Dev": mc.Expr("{" + ", ".join('"%s"' % d for d in dev) + "}")}
    text = mc.module(root, ["IVector"], defs)
    cfg = mc.cfg(consts={"C": C, "D": D, "Rt": Rt, "Bw": bw, "Ba": ba, "Bt": bt},
                 subst={"Scenarios": "MC_Scenarios", "Floor": "MC_Floor", "Affs": "MC_Affs", "Dev": "MC_Dev"},
                 invariants=invariants, constraints=["Export"] if export else [])
    try:
        r = tlc.run(ck.work, root, cfg, root_text=text, workers=workers, coverage=coverage,
                    expect_violation=expect_violation)
    except tlc.MachineryError as e:
        # a scenario left the 32-bit range although it passed the scope guards: never a verdict; the same
        # scenarios are run once more in a tighter scope (more of them stop at the projection / the E-step)
        if "Overflow when computing" not in str(e) or _retry >= 2:
            raise
        ck.notes.append("TLC run %s overflowed 32-bit integers with scope (%d, %d, %d); repeated with a tighter scope"
                        % (name, bw, ba, bt))
        return model_run(ck, name, C, D, Rt, floor, affs, scenarios=scenarios, domain=domain, dev=dev, export=export,
                         expect_violation=expect_violation, invariants=invariants, coverage=coverage,
                         workers=workers, bw=max(bw // 2, 4), ba=max(ba // 3, 8), bt=max(bt // 3, 8), _retry=_retry + 1)
    ck.account(name, r, expect_violation=expect_violation)
    return r.records


# ------------------------------------------------------------------ the implementation side
def fval(x):
    return float(F(x[0], x[1]))


def arr(v):
    """nested lists of [num, den] -> float array"""
    def conv(u):
        if isinstance(u, list) and len(u) == 2 and all(isinstance(x, int) for x in u):
            return fval(u)
        return [conv(x) for x in u]
    return np.array(conv(v), dtype=float)


def make_machine(em, m, T, sg, Rt, floor, upd):
    """An IVectorMachine in the given current state: UBM means m, total-variability matrix T (c,d,t),
    covariances sg (c,d)."""
    m, T, sg = np.asarray(m, dtype=float), np.asarray(T, dtype=float), np.asarray(sg, dtype=float)
    C, D = m.shape
    ubm = em.GMMMachine(C)
    ubm.means = m.copy()
    ubm.variances = sg.copy()
    mach = em.IVectorMachine(ubm, dim_t=Rt, max_iterations=1, update_sigma=bool(upd), variance_floor=float(floor))
    mach.dim_c, mach.dim_d = C, D
    mach.T = T.copy()
    mach.sigma = sg.copy()
    return mach


def _layout(a):
    """The same values in a memory layout chosen from the values themselves (deterministic): C order, Fortran
    order or a strided view -- results must not depend on the layout of the caller's arrays."""
    import random as _random
    import zlib
    from .common import relayout
    return relayout(a, _random.Random(zlib.crc32(np.ascontiguousarray(a).tobytes())))


def make_stats(em, n, f, s):
    n, f, s = np.asarray(n, dtype=float), np.asarray(f, dtype=float), np.asarray(s, dtype=float)
    st = em.GMMStats(f.shape[0], f.shape[1])
    # the frame counter is bookkeeping: the i-vector depends on n and sum_px only.  Statistics filled by hand
    # (init_fields, attribute assignment) often leave t at its default 0.
    st.t = int(np.ceil(n.sum())) if int(np.ceil(n.sum() * 7)) % 3 else 0
    st.n = n.copy()
    st.sum_px = _layout(f.copy())
    st.sum_pxx = _layout(s.copy())
    return st


def affine(m, T, sg, stats, a, b):
    """features x -> a x + b"""
    return (a * m + b, a * T, a * a * sg,
            [(n, a * f + b * n[:, None], a * a * s + 2 * a * b * f + b * b * n[:, None]) for n, f, s in stats])


def replay(ck, em, rec, Rt, floor, affs, label):
    """Replays one exported terminal state: project / transform on every statistic, the module-level
    e_step on the list, the module-level m_step on its result; after every step the code must be at the
    value TLC printed.  Components without data (exported mask `nodata`) are compared relationally:
    any finite T, any finite covariance >= floor."""
    from bob.learn.em.ivector import e_step, m_step
    scn = rec["scn"]
    m, T, sg = arr(scn["m"]), arr(scn["T"]), arr(scn["sg"])
    stats = [(arr(st["n"]), arr(st["f"]), arr(st["s"])) for st in scn["stats"]]
    upd = scn["upd"]
    flo = float(floor)
    ck.replayed += 1
    ck.seen([label, scn])
    info = {"mechanism": "M2", "module": "IVector", "config": label, "variance_floor": flo, "dim_t": Rt,
            "floor_exact": q(floor), "record": rec,
            "scenario": {"ubm_means": m.tolist(), "T": T.tolist(), "sigma": sg.tolist(), "update_sigma": upd,
                         "stats": [{"n": n.tolist(), "sum_px": f.tolist(), "sum_pxx": s.tolist()} for n, f, s in stats]}}

    def bad(clause, detail, known=False):
        rep = dict(info)
        rep["detail"] = detail
        if known:
            ck.finding("D6", "M2:IVector:" + clause, rep)
        else:
            ck.violation("M2:IVector:" + clause, rep)
        return clause

    def attempt(what, fn):
        try:
            return True, fn()
        except Exception as e:          # the property quantifies over these inputs: raising is a failure
            bad("AllFinite", "%s raised %s: %s" % (what, type(e).__name__, e))
            return False, None

    # ---- Project / transform
    exp_w = arr(rec["w"])
    gs = [make_stats(em, *st) for st in stats]
    # a machine with a past (round eight): two thirds of the machines were in ANOTHER state first, projected there,
    # and are brought into the scenario's state afterwards -- in place through the public T / sigma arrays, or by
    # assigning new arrays; the i-vector must be the posterior mean under the parameters the machine holds now
    past = ck.replayed % 3
    info["machine_history"] = ("fresh", "projected elsewhere, then T[...] = / sigma[...] = in place",
                               "projected elsewhere, then new arrays assigned")[past]
    if past == 0:
        mach = make_machine(em, m, T, sg, Rt, flo, upd)
    else:
        mach = make_machine(em, m, T * 0.5 + 0.25, sg * 2.0 + 0.125, Rt, flo, upd)
        for g in gs:
            attempt("project (earlier state)", lambda: mach.project(g))
        if past == 1:
            mach.T[...] = T
            mach.sigma[...] = sg
        else:
            mach.T, mach.sigma = np.array(T, dtype=float), np.array(sg, dtype=float)
    for i, g in enumerate(gs):
        ok, w = attempt("project(stats[%d])" % i, lambda: np.asarray(mach.project(g), dtype=float))
        if not ok:
            return "raised"
        if w.shape != (Rt,) or not allclose(w, exp_w[i]):
            zero = not np.any(stats[i][0])
            return bad("ZeroFramesGiveZero" if zero else "ProjectionSolvesSystem",
                       "project(stats[%d]): expected %s, observed %s" % (i, exp_w[i].tolist(), w.tolist()))
    ok, ws = attempt("transform", lambda: mach.transform(gs))
    if not ok:
        return "raised"
    if len(ws) != len(gs) or any(np.asarray(x).shape != (Rt,) or not allclose(x, e) for x, e in zip(ws, exp_w)):
        return bad("ProjectionSolvesSystem", "transform(list): expected %s, observed %s"
                   % (exp_w.tolist(), [np.asarray(x).tolist() for x in ws]))
    # the same i-vectors after an affine map of the feature space (TLC: AffineInvariant)
    for a, b in affs:
        m2, T2, sg2, st2 = affine(m, T, sg, stats, float(a), float(b))
        mach2 = make_machine(em, m2, T2, sg2, Rt, flo, upd)
        for i, st in enumerate(st2):
            ok, w = attempt("project (features mapped)", lambda: np.asarray(mach2.project(make_stats(em, *st)), dtype=float))
            if not ok:
                return "raised"
            if not allclose(w, exp_w[i]):
                return bad("AffineInvariant", "features x -> %s x + %s: project(stats[%d]) expected %s, observed %s"
                           % (a, b, i, exp_w[i].tolist(), w.tolist()))
    if rec["phase"] == "p":
        return "ok"
    # ---- EStep
    acc = rec["acc"]
    ok, es = attempt("e_step", lambda: e_step(mach, gs))
    if not ok:
        return "raised"
    for name, attr, exp in (("N E[ww']", "nij_sigma_wij2", arr(acc["nww"])), ("Fnorm E[w]'", "fnorm_sigma_wij", arr(acc["fw"])),
                            ("Snorm", "snormij", arr(acc["sn"])), ("N", "nij", arr(acc["n"]))):
        obs = np.asarray(getattr(es, attr), dtype=float)
        if obs.shape != exp.shape or not allclose(obs, exp):
            return bad("EStepAccumulators", "e_step accumulator %s (%s): expected %s, observed %s"
                       % (name, attr, exp.tolist(), obs.tolist()))
    if not (np.array_equal(mach.T, T) and np.array_equal(mach.sigma, sg)):
        return bad("EStepAccumulators", "e_step changed the machine")
    if rec["phase"] == "e":
        return "ok"
    # ---- MStep
    exp_T, exp_sg = arr(rec["newT"]), arr(rec["newSg"])
    nodata = np.array(rec["nodata"], dtype=bool)
    ok, _ = attempt("m_step", lambda: m_step(mach, es))
    if not ok:
        return "raised"
    oT, osg = np.asarray(mach.T, dtype=float), np.asarray(mach.sigma, dtype=float)
    if oT.shape != exp_T.shape or osg.shape != exp_sg.shape:
        return bad("MStepSolvesNormalEq", "shapes after m_step: T %s sigma %s" % (oT.shape, osg.shape))
    sig_d6 = bool(upd and nodata.any() and np.all(np.isnan(osg[nodata])) and np.all(np.isfinite(osg[~nodata])))
    if not np.all(np.isfinite(oT)) or not np.all(np.isfinite(osg)):
        return bad("AllFinite", "after m_step: T %s, sigma %s (components without data: %s)"
                   % (oT.tolist(), osg.tolist(), nodata.tolist()), known=sig_d6)
    if upd and np.any(osg < flo):
        return bad("SigmaAboveFloor", "after m_step: sigma %s below the floor %s; expected %s"
                   % (osg.tolist(), flo, exp_sg.tolist()))
    if not allclose(oT[~nodata], exp_T[~nodata]):
        return bad("MStepSolvesNormalEq", "after m_step: T expected %s, observed %s" % (exp_T.tolist(), oT.tolist()))
    if upd:
        if not allclose(osg[~nodata], exp_sg[~nodata]):
            return bad("SigmaUpdate", "after m_step: sigma expected %s, observed %s" % (exp_sg.tolist(), osg.tolist()))
    elif not allclose(osg, sg, 1e-15):
        return bad("SigmaUpdate", "update_sigma off but sigma changed: %s -> %s" % (sg.tolist(), osg.tolist()))
    ck.sample({"mechanism": "M2", "config": label, "scenario": info["scenario"],
               "expected": {"w": exp_w.tolist(), "T": exp_T.tolist(), "sigma": exp_sg.tolist()}, "verdict": "ok"})
    return "ok"
