"""M3: batches of traces recorded from the implementation, validated by one TLC run of a monitor
trace specification.  Also the rank / exact-comparison abstractions used by the recorders."""
import json
import os
from fractions import Fraction

from . import mc, tlc


def ranks(values, rtol=1e-9, atol=1e-12):
    """Map floats to ranks; values within tolerance of each other (chained) share a rank, so that
    rank' >= rank is exactly value' >= value - tol.  Non-finite values get rank -2 (always worse)."""
    import math
    idx = [i for i, v in enumerate(values) if v is not None and math.isfinite(v)]
    order = sorted(idx, key=lambda i: values[i])
    out = [-2] * len(values)
    r = 0
    prev = None
    for i in order:
        v = values[i]
        if prev is not None and abs(v - prev) > max(atol, rtol * max(abs(v), abs(prev))):
            r += 1
        out[i] = r
        prev = v
    return out


def rel_change(prev, cur, thr, band=1e-12, abs_slack=0.0):
    """Exact evaluation of |(prev - cur) / prev| <= thr on the floats the code compared
    (floats are dyadic rationals).  Returns "na" | "le" | "gt" | "edge"."""
    import math
    if thr is None or prev is None:
        return "na"
    if not (math.isfinite(prev) and math.isfinite(cur)):
        return "gt"          # inf/NaN never compare <=
    if prev == 0:
        return "edge"        # undefined relative change: either continuation
    p, c, t = Fraction(prev), Fraction(cur), Fraction(thr)
    lhs = abs(p - c)
    rhs = t * abs(p)
    if rhs == 0:
        if lhs != 0 and abs_slack and lhs <= Fraction(abs_slack) * abs(p):
            return "edge"
        return "le" if lhs == 0 else "gt"   # a float difference is zero iff the operands are equal
    # the code evaluates the quotient in floating point: a value within rounding distance of the
    # threshold may fall on either side
    if abs(lhs - rhs) <= Fraction(band) * rhs + Fraction(abs_slack) * abs(p):
        return "edge"
    return "le" if lhs < rhs else "gt"


def validate(ck, name, workdir, traces, module="TraceLoop", spec="TSpec", report="Report"):
    """Run the monitor on a batch; returns list of (verdict, position) per trace, in order."""
    if not traces:
        return []
    path = os.path.join(workdir, name + ".traces.json")
    with open(path, "w") as f:
        json.dump(traces, f)
    text = "---- MODULE MC_%s ----\nEXTENDS %s\n====\n" % (name, module)
    cfg = mc.cfg(spec=spec, constraints=[report])
    r = tlc.run(workdir, "MC_" + name, cfg, root_text=text, workers=1, coverage=False,
                env={"TRACE_FILE": path})
    ck.account("trace:" + name, r)
    verdicts = {}
    for t in r.tuples:
        if t and t[0] == "VERDICT":
            verdicts[t[1]] = (t[2], t[3])
    if len(verdicts) != len(traces):
        raise tlc.MachineryError("trace validation printed %d verdicts for %d traces\n%s"
                                 % (len(verdicts), len(traces), r.stdout[-3000:]))
    return [verdicts[i + 1] for i in range(len(traces))]
