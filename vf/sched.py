"""A replaying Dask scheduler: runs the ready tasks of a graph in the order dictated by a
choice sequence, optionally passing task inputs and outputs through cloudpickle exactly
as a multi-process executor does (the `Isolated` memory mode of specs/TaskGraph.tla)."""
from collections.abc import Mapping

import cloudpickle
from dask._task_spec import Alias, DataNode, convert_legacy_graph


class ReplayScheduler:
    def __init__(self, choices=None, isolate=False, rng=None, record=None):
        self.choices = list(choices) if choices is not None else None
        self.pos = 0
        self.isolate = isolate
        self.rng = rng
        self.graphs = []         # per dask.compute call: list of (key name, n_deps) in execution order
        self.record = record     # optional callback(keyname, result)

    def _pick(self, n):
        if self.choices is not None:
            c = self.choices[self.pos % len(self.choices)] if self.choices else 0
            self.pos += 1
            return c % n
        if self.rng is not None:
            return self.rng.randrange(n)
        return 0

    def __call__(self, dsk, keys, **kw):
        if not isinstance(dsk, Mapping):
            dsk = dsk.__dask_graph__()
        dsk = convert_legacy_graph(dsk)
        deps = {k: set(t.dependencies) for k, t in dsk.items()}
        done = {}
        pending = set(dsk)
        order = []
        while pending:
            ready = sorted((k for k in pending if deps[k] <= done.keys()), key=str)
            real = [k for k in ready if not isinstance(dsk[k], (DataNode, Alias))]
            if real:
                k = real[self._pick(len(real))]
            else:
                k = ready[0]
            t = dsk[k]
            vals = {d: done[d] for d in deps[k]}
            isreal = not isinstance(t, (DataNode, Alias))
            if self.isolate and isreal:
                t, vals = cloudpickle.loads(cloudpickle.dumps((t, vals)))
            r = t(vals)
            if self.isolate and isreal:
                r = cloudpickle.loads(cloudpickle.dumps(r))
            done[k] = r
            pending.discard(k)
            if isreal:
                name = k[0] if isinstance(k, tuple) else k
                order.append((str(name), len(deps[k])))
                if self.record:
                    self.record(str(name), r)
        self.graphs.append(order)

        def pack(ks):
            return [pack(x) for x in ks] if isinstance(ks, list) else done[ks]
        return pack(keys)
