"""Generation of MC_* wrapper modules and .cfg files (constants as definitions: TLC .cfg files
accept neither negative numbers nor tuples inside constant sets)."""
from .common import tla


def module(name, extends, defs):
    lines = ["---- MODULE %s ----" % name, "EXTENDS %s" % ", ".join(extends)]
    for k, v in defs.items():
        lines.append("%s == %s" % (k, v if isinstance(v, str) and v.startswith("@") is False and _is_expr(v) else tla(v)))
    lines.append("====")
    return "\n".join(lines) + "\n"


class Expr(str):
    """A raw TLA+ expression (not to be quoted as a string)."""


def _is_expr(v):
    return isinstance(v, Expr)


def cfg(spec="Spec", consts=None, subst=None, invariants=(), properties=(), constraints=(),
        action_constraints=(), view=None, deadlock=False, postcondition=None, init=None, next=None):
    out = []
    if init:
        out += ["INIT " + init, "NEXT " + next]
    else:
        out.append("SPECIFICATION " + spec)
    cs = []
    for k, v in (consts or {}).items():
        cs.append("%s = %s" % (k, tla(v) if not isinstance(v, Expr) else v))
    for k, v in (subst or {}).items():
        cs.append("%s <- %s" % (k, v))
    if cs:
        out.append("CONSTANTS")
        out += ["  " + c for c in cs]
    for i in invariants:
        out.append("INVARIANT " + i)
    for p in properties:
        out.append("PROPERTY " + p)
    for c in constraints:
        out.append("CONSTRAINT " + c)
    for c in action_constraints:
        out.append("ACTION_CONSTRAINT " + c)
    if view:
        out.append("VIEW " + view)
    if postcondition:
        out.append("POSTCONDITION " + postcondition)
    out.append("CHECK_DEADLOCK " + ("TRUE" if deadlock else "FALSE"))
    return "\n".join(out) + "\n"
