------------------------------- MODULE Rat -------------------------------
(* Exact rational arithmetic on gcd-normalised pairs <<num, den>>, den > 0.
   TLC integers are 32 bit and overflow is a TLC error, never a silent wrap,
   so an out-of-range model aborts the run instead of giving a wrong verdict. *)
EXTENDS Integers, Sequences, FiniteSets

Abs(x) == IF x < 0 THEN -x ELSE x
RECURSIVE GCD(_, _)
GCD(a, b) == IF b = 0 THEN a ELSE GCD(b, a % b)
Norm(n, d) == LET s == IF d < 0 THEN -1 ELSE 1
                  g == GCD(Abs(n), Abs(d))
              IN IF n = 0 THEN <<0, 1>> ELSE <<(s * n) \div g, (s * d) \div g>>
R(n) == <<n, 1>>
Q(n, d) == Norm(n, d)
Zero == <<0, 1>>
One == <<1, 1>>
\* sums and comparisons go through the least common denominator (keeps intermediates small)
Add(a, b) == LET g == GCD(a[2], b[2]) IN Norm(a[1] * (b[2] \div g) + b[1] * (a[2] \div g), a[2] * (b[2] \div g))
Sub(a, b) == LET g == GCD(a[2], b[2]) IN Norm(a[1] * (b[2] \div g) - b[1] * (a[2] \div g), a[2] * (b[2] \div g))
\* products cancel across the two fractions before multiplying
Mul(a, b) == LET g1 == GCD(Abs(a[1]), b[2])
                 g2 == GCD(Abs(b[1]), a[2])
             IN IF a[1] = 0 \/ b[1] = 0 THEN <<0, 1>>
                ELSE Norm((a[1] \div g1) * (b[1] \div g2), (a[2] \div g2) * (b[2] \div g1))
Div(a, b) == Mul(a, IF b[1] < 0 THEN <<-b[2], -b[1]>> ELSE <<b[2], b[1]>>)      \* b # 0 is the caller's obligation
Neg(a) == <<-a[1], a[2]>>
Sq(a) == Mul(a, a)
Leq(a, b) == LET g == GCD(a[2], b[2]) IN a[1] * (b[2] \div g) <= b[1] * (a[2] \div g)
Lt(a, b) == LET g == GCD(a[2], b[2]) IN a[1] * (b[2] \div g) < b[1] * (a[2] \div g)
IsZero(a) == a[1] = 0
IsPos(a) == a[1] > 0
RMax(a, b) == IF Leq(a, b) THEN b ELSE a
RMin(a, b) == IF Leq(a, b) THEN a ELSE b
RAbs(a) == <<Abs(a[1]), a[2]>>

\* sum of f[i] over a finite index set (any order: addition is exact)
RECURSIVE SumOver(_, _)
SumOver(f, S) == IF S = {} THEN Zero
                 ELSE LET i == CHOOSE i \in S : TRUE IN Add(f[i], SumOver(f, S \ {i}))
\* sum of a sequence of rationals
RECURSIVE SumSeq(_)
SumSeq(s) == IF s = <<>> THEN Zero ELSE Add(Head(s), SumSeq(Tail(s)))

\* vectors are sequences of rationals
VAdd(u, v) == [j \in DOMAIN u |-> Add(u[j], v[j])]
VSub(u, v) == [j \in DOMAIN u |-> Sub(u[j], v[j])]
VScale(a, u) == [j \in DOMAIN u |-> Mul(a, u[j])]
VMul(u, v) == [j \in DOMAIN u |-> Mul(u[j], v[j])]
VDiv(u, v) == [j \in DOMAIN u |-> Div(u[j], v[j])]
VZero(n) == [j \in 1..n |-> Zero]
Dot(u, v) == SumOver([j \in DOMAIN u |-> Mul(u[j], v[j])], DOMAIN u)
SqDist(u, v) == SumOver([j \in DOMAIN u |-> Sq(Sub(u[j], v[j]))], DOMAIN u)
RECURSIVE VSumOver(_, _, _)
VSumOver(f, S, n) == IF S = {} THEN VZero(n)
                     ELSE LET i == CHOOSE i \in S : TRUE IN VAdd(f[i], VSumOver(f, S \ {i}, n))
=============================================================================
