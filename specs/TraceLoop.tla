----------------------------- MODULE TraceLoop -----------------------------
(* Trace specification (monitor form) for iterative trainers, validated against
   executions recorded from the implementation (M3).  It re-uses the guards of
   TrainLoop: one source of truth for the stopping rule.

   A trace is a record
     [kind |-> STRING, cap |-> Int (NoCap = -1), thr |-> BOOLEAN, dir |-> "up" | "down" | "none",
      ev |-> sequence of events]
   and an event is
     [ev |-> "Iter", k, rank, rel, guard, valid, why]   one EM iteration was performed
     [ev |-> "Stop", k, ...]                              training returned after k iterations
   rank   : rank of the objective after iteration k among all objective values of the trace
            (ties clustered by the recorder with a relative tolerance), so rank' >= rank is
            value' >= value - tol;
   rel    : exact comparison |prev - cur| <= thr * |prev| of the *reported* criteria made by
            the recorder in rational arithmetic: "le" | "gt" | "edge" | "na";
   guard  : TRUE when the property's precondition for monotonicity fails at this step (a floor
            is active, a cluster emptied), which suspends the Monotone clause for this step;
   valid  : the model is valid after the iteration (finite, simplex, floors).
   Every event is consumable; the first violated clause is latched in `verdict` and a
   verdict line is printed for every trace, so one bad trace never hides another.      *)
EXTENDS TrainLoop, Json, IOUtils, TLCExt, TLC

Traces == JsonDeserialize(IOEnv.TRACE_FILE)

VARIABLES tid, l, step, rank, status, verdict
tvars == <<tid, l, step, rank, status, verdict>>
T == Traces[tid]

\* the objective BEFORE the first iteration (rank0, the starting model's) takes part in Monotone when the recorder says
\* that the starting model is the one the first iteration was entered with (fromStart): the first EM iteration ascends
\* like every other one.  Recorders whose starting point is not an explicit model leave it out (rank = -1: no comparison).
TInit == /\ tid \in 1..Len(Traces) /\ l = 1 /\ step = 0
         /\ rank = (IF "fromStart" \in DOMAIN Traces[tid] /\ Traces[tid].fromStart THEN Traces[tid].rank0 ELSE -1)
         /\ status = "run" /\ verdict = "ok"

Worse(r1, r0, dir) == IF dir = "up" THEN r1 < r0 ELSE IF dir = "down" THEN r1 > r0 ELSE FALSE

CheckIter(e) ==
    IF status # "run" THEN "Iter.afterStop"
    ELSE IF ~MayIterate(step, T.cap) THEN "CapRespected"
    ELSE IF e.k # step + 1 THEN "Iter.stepCounter"
    ELSE IF l > 1 /\ T.ev[l - 1].ev = "Iter" /\ MustStop(step, T.ev[l - 1].rel, T.thr) THEN "StopsAtFirstCrossing"
    ELSE IF ~e.guard /\ rank # -1 /\ Worse(e.rank, rank, T.dir) THEN "Monotone"
    ELSE IF ~e.valid THEN "Valid"
    ELSE "ok"

CheckStop(e) ==
    IF status # "run" THEN "Stop.twice"
    ELSE IF e.k # step THEN "Stop.atStep"
    ELSE IF step = 0 THEN (IF T.cap = 0 THEN "ok" ELSE "Stop.beforeFirstIteration")
    ELSE IF MayStop(step, T.ev[l - 1].rel, T.thr) THEN "ok"          \* converged (or on the edge)
    ELSE IF ~MayIterate(step, T.cap) THEN "ok"                        \* cap reached
    ELSE "NoEarlyStop"

TStep == /\ l <= Len(T.ev) /\ verdict = "ok"
         /\ LET e == T.ev[l] IN
              /\ verdict' = (IF e.ev = "Iter" THEN CheckIter(e) ELSE CheckStop(e))
              /\ step' = IF e.ev = "Iter" THEN e.k ELSE step
              /\ rank' = IF e.ev = "Iter" THEN e.rank ELSE rank
              /\ status' = IF e.ev = "Stop" THEN "stopped" ELSE status
         /\ l' = l + 1 /\ UNCHANGED tid

\* a trace must end with a Stop event
TEnd == /\ l = Len(T.ev) + 1 /\ verdict = "ok" /\ status = "run"
        /\ verdict' = "Stop.missing" /\ l' = l + 1 /\ UNCHANGED <<tid, step, rank, status>>

TSpec == TInit /\ [][TStep \/ TEnd]_tvars
Finished == (l > Len(T.ev) /\ status = "stopped") \/ verdict # "ok"
Report == Finished => PrintT(<<"VERDICT", tid, verdict, l - 1>>)
=============================================================================
