----------------------------- MODULE Determinism -----------------------------
(* Where the randomness of a fit comes from, and what a fit may depend on (C16).

   NumPy's global generator is an abstract token stream: its state is (seed token, position).
   `np.random.seed(s)` puts it at (s, 0); drawing n numbers yields the tokens
   <<seed, position, n>> and advances the position by n.  A generator of its own built from
   an integer seed r (check_random_state(r) in dask-ml) yields the SAME tokens as the global
   generator re-seeded with r, as in NumPy.  A process starts at Boot = (-1, 0): a stream no
   estimator can name.

   Sources of randomness, as written in the code:
     k-means  (kmeans.py:304-321)   initialize -> k_init(random_state=self.random_state): own generator
                                    seeded r; the global stream is not touched.  With an explicit array of
                                    initial centroids nothing is drawn.
     GMM      (gmm.py:727-745)      KMeansMachine(n_gaussians, random_state=self.random_state) -> as k-means.
                                    With explicit means nothing is drawn.
     ISV/JFA  (factor_analysis.py:260-292 create_UVD)
                                    np.random.seed(self.random_state), then U (and V) from the GLOBAL stream:
                                    the global stream is RESET to r and advanced as a side effect (allowed by
                                    the property; stated by GlobalStreamEffectDocumented).  With config "drawn"
                                    the UBM is first trained inside fit_using_array by a k-means initialised
                                    GMM (a GMMMachine built from ubm_kwargs carrying the same seed).
     WCCN     (wccn.py:55-77)       none.

   Objects.  "Training the same estimator twice" includes fitting the SAME object again, and objects handed
   from one estimator to the next (a configured k_means_trainer shared by several GMMs).  A Fit step is made
   on a "fresh" object or on a "used" one: an object built with the same constructor arguments (estimator,
   configuration, seed) that an earlier step of the history has fitted -- on any problem.  As written:
     k-means  fit() re-initialises the centroids (initialize) and starts its loop from a local
              `distance = inf`; average_min_distance is overwritten by every iteration.  Nothing an earlier fit
              left on the object is read.
     GMM      config "drawn": the initialisation is run by the k-means trainer object; a used trainer behaves
              like a fresh one (above).  (Calling fit() again on a GMM that has means CONTINUES its training:
              another question, specified in GmmFit.tla.)
     ISV/JFA  fit() on an object that already has U and D CONTINUES from them (factor_analysis.py:237
              `if not hasattr(self, "_U") ...: create_UVD()`), and the UBM trained by a first
              fit_using_array is kept: like a GMM with means, a second fit is another question.  Not reusable
              in this model.
     WCCN     everything is recomputed.
   So the result does not depend on the object being used.

   The result of a fit is an uninterpreted function, represented by the record of its arguments:
   estimator, configuration, problem (the labelled sample MULTISET and the hyper-parameters), the tokens
   the randomness source yields, and -- only where the code (or a named deviation) makes it so -- the
   order of presentation and the names of the classes.  Config "drawn" selects initial parameters by a
   seeded draw of sample INDICES, which depends on the order of presentation by construction; the
   property demands only history / global-stream independence there.

   Named deviations (each must make TLC fail):
     KMEANS_IGNORES_RANDOM_STATE   k_init(random_state=None): draws from the global stream
     GMM_KMEANS_UNSEEDED           KMeansMachine(n_gaussians) without random_state: always the default seed
     UVD_NOT_RESEEDED              create_UVD without np.random.seed
     WCCN_DEPENDS_ON_LABEL_ORDER   class means looked up by label value / label iteration order
     ACC_IGNORES_CLASS_ID          per-class accumulation not addressed by the class id
     LOOP_BOOKKEEPING_SURVIVES_FIT the k-means loop compares its first criterion with what the previous fit of
                                   the object left behind (previous criterion kept on the object)      *)
EXTENDS Integers, Sequences, FiniteSets, TLC, Json

CONSTANTS Ests,          \* subset of {"kmeans", "gmm", "isv", "jfa", "wccn"}
          Seeds,         \* integer values of random_state
          PerturbSeeds,  \* arguments of np.random.seed in Perturb
          Orders,        \* ids of orders of presentation (1 = the reference order)
          Relabels,      \* ids of permutations of the class ids 0..K-1 (1 = identity)
          Problems,      \* ids of (labelled multiset, hyper-parameters)
          MaxLen,        \* length of the histories
          KMeansDefaultSeed,
          Dev

VARIABLES g,             \* state of the global stream: [seed, pos]
          hist           \* the history: sequence of steps
vars == <<g, hist>>

Boot == [seed |-> -1, pos |-> 0]
Reseed(s) == [seed |-> s, pos |-> 0]
Adv(gs, n) == [gs EXCEPT !.pos = @ + n]
Tok(gs, n) == <<gs.seed, gs.pos, n>>           \* the n tokens at gs

NInit == 1                                      \* draws of the k-means initialiser (abstract count)
NUvd(e) == IF e = "jfa" THEN 2 ELSE 1           \* U ; U and V

Configs(e) == IF e = "wccn" THEN {"given"} ELSE {"drawn", "given"}
Labelled(e) == e \in {"isv", "jfa", "wccn"}
Seeded(e) == e # "wccn"

\* ---- randomness phases: [toks |-> tokens consumed, g |-> global stream afterwards]
KmSeed(e, r) == IF "KMEANS_IGNORES_RANDOM_STATE" \in Dev THEN -2
                ELSE IF e # "kmeans" /\ "GMM_KMEANS_UNSEEDED" \in Dev THEN KMeansDefaultSeed
                ELSE r
KmPhase(gs, e, r) == IF KmSeed(e, r) = -2
                     THEN [toks |-> <<Tok(gs, NInit)>>, g |-> Adv(gs, NInit)]
                     ELSE [toks |-> <<Tok(Reseed(KmSeed(e, r)), NInit)>>, g |-> gs]
UvdPhase(gs, e, r) == IF "UVD_NOT_RESEEDED" \in Dev
                      THEN [toks |-> <<Tok(gs, NUvd(e))>>, g |-> Adv(gs, NUvd(e))]
                      ELSE [toks |-> <<Tok(Reseed(r), NUvd(e))>>, g |-> Adv(Reseed(r), NUvd(e))]
None(gs) == [toks |-> <<>>, g |-> gs]

Run(gs, e, c, r) ==
    CASE e \in {"kmeans", "gmm"} /\ c = "drawn" -> KmPhase(gs, e, r)
      [] e \in {"kmeans", "gmm"} /\ c = "given" -> None(gs)
      [] e \in {"isv", "jfa"} /\ c = "given"    -> UvdPhase(gs, e, r)
      [] e \in {"isv", "jfa"} /\ c = "drawn"    -> LET k == KmPhase(gs, e, r)
                                                       u == UvdPhase(k.g, e, r)
                                                   IN [toks |-> k.toks \o u.toks, g |-> u.g]
      [] OTHER                                  -> None(gs)

\* what the result depends on besides the tokens and the multiset
OrderDep(e, c, o) == IF c = "drawn" THEN o ELSE 0
LabelDep(e, p) == IF \/ e = "wccn" /\ "WCCN_DEPENDS_ON_LABEL_ORDER" \in Dev
                     \/ e \in {"isv", "jfa"} /\ "ACC_IGNORES_CLASS_ID" \in Dev
                  THEN p ELSE 0
\* what a used object carries into the fit: the problem its last fit was made on (0: nothing is read)
LeftDep(e, c, ob, ld) == IF /\ ob = "used" /\ "LOOP_BOOKKEEPING_SURVIVES_FIT" \in Dev
                            /\ (e = "kmeans" \/ (e = "gmm" /\ c = "drawn"))
                         THEN ld ELSE 0
Result(gs, e, c, d, o, p, r, ob, ld) ==
    [e |-> e, c |-> c, d |-> d, toks |-> Run(gs, e, c, r).toks, o |-> OrderDep(e, c, o), p |-> LabelDep(e, p),
     left |-> LeftDep(e, c, ob, ld)]
NoResult == [e |-> "-", c |-> "-", d |-> 0, toks |-> <<>>, o |-> 0, p |-> 0, left |-> 0]

Step(a, e, c, d, o, p, r, ob, res, ga) ==
    [a |-> a, e |-> e, c |-> c, d |-> d, o |-> o, p |-> p, r |-> r, ob |-> ob, res |-> res, ga |-> ga]

\* which objects can be used again for the same question
Reusable(e, c) == \/ e \in {"kmeans", "wccn"}
                  \/ e = "gmm" /\ c = "drawn"            \* the shared k-means trainer
\* the problem of the last fit made with an object of these constructor arguments (0: none yet)
LastFits(e, c, r) == {i \in 1..Len(hist) : hist[i].a = "Fit" /\ hist[i].e = e /\ hist[i].c = c /\ hist[i].r = r}
LastD(e, c, r) == LET I == LastFits(e, c, r) IN IF I = {} THEN 0 ELSE hist[CHOOSE i \in I : \A j \in I : j <= i].d

Init == g = Boot /\ hist = <<>>

Perturb == \E s \in PerturbSeeds :
              /\ Len(hist) < MaxLen
              /\ g' = Reseed(s)
              /\ hist' = Append(hist, Step("Perturb", "-", "-", 0, 0, 0, s, "-", NoResult, g'))
PerturbDraw == /\ Len(hist) < MaxLen
               /\ g' = Adv(g, 1)
               /\ hist' = Append(hist, Step("PerturbDraw", "-", "-", 0, 0, 0, 0, "-", NoResult, g'))
Fit == \E e \in Ests, d \in Problems, o \in Orders :
         \E c \in Configs(e), p \in (IF Labelled(e) THEN Relabels ELSE {1}),
            r \in (IF Seeded(e) THEN Seeds ELSE {0}) :
            \E ob \in (IF Reusable(e, c) /\ LastD(e, c, r) # 0 THEN {"fresh", "used"} ELSE {"fresh"}) :
              /\ Len(hist) < MaxLen
              /\ g' = Run(g, e, c, r).g
              /\ hist' = Append(hist, Step("Fit", e, c, d, o, p, r, ob,
                                           Result(g, e, c, d, o, p, r, ob, LastD(e, c, r)), g'))

Next == Perturb \/ PerturbDraw \/ Fit
Spec == Init /\ [][Next]_vars

\* ---------------- properties (C16)
FitIdx == {i \in 1..Len(hist) : hist[i].a = "Fit"}
\* two fits ask the same question when estimator, configuration, problem (multiset) and seed agree --
\* and, for a seeded draw of sample indices only, the order of presentation
SameQuestion(x, y) == /\ x.e = y.e /\ x.c = y.c /\ x.d = y.d /\ x.r = y.r
                      /\ (x.c = "drawn" => x.o = y.o)
ResultIsFunctionOfMultisetAndSeed ==
    \A i, j \in FitIdx : SameQuestion(hist[i], hist[j]) => hist[i].res = hist[j].res
\* every fit gives what the same fit gives as the first action of a fresh process
HistoryIndependent ==
    \A i \in FitIdx : LET s == hist[i] IN s.res = Result(Boot, s.e, s.c, s.d, s.o, s.p, s.r, "fresh", 0)
\* every token a fit consumes belongs to the stream named by its own random_state
RandomnessComesFromOwnSeed ==
    \A i \in FitIdx : \A k \in 1..Len(hist[i].res.toks) : hist[i].res.toks[k][1] = hist[i].r
\* ISV/JFA leave the global stream at a state that depends on their own seed only; the others leave it alone
GlobalStreamEffectDocumented ==
    [][(Len(hist') = Len(hist) + 1 /\ hist'[Len(hist')].a = "Fit") =>
          LET s == hist'[Len(hist')]
          IN g' = IF s.e \in {"isv", "jfa"} THEN Adv(Reseed(s.r), NUvd(s.e)) ELSE g]_vars

\* ---------------- export of the complete histories that end with a fit (M2)
Compact(s) == IF s.a = "Fit"
              THEN <<"Fit", s.e, s.c, s.d, s.o, s.p, s.r, s.res.toks, s.res.o, s.res.p, s.ga.seed, s.ga.pos, s.ob>>
              ELSE <<s.a, s.r, s.ga.seed, s.ga.pos>>
Export == IF Len(hist) = MaxLen /\ hist[MaxLen].a = "Fit"
          THEN PrintT(ToJson([h |-> [i \in 1..Len(hist) |-> Compact(hist[i])]]))
          ELSE TRUE
=============================================================================
