------------------------------ MODULE GmmStats ------------------------------
(* GMMStats containers on a heap (gmm.py:107-150 e_step, :306-335 __add__/__iadd__, :153-172 the
   reduction functools.reduce(operator.iadd, stats) used by m_step).

   A data set of N samples is split into blocks (any set partition); every block is accumulated
   once by an E-step, giving a fresh container; containers are then combined by `+` (a NEW
   container, operands untouched) or `+=` (the LEFT operand is mutated, the right one untouched)
   in any order until one container remains.  Each sample contributes  r(c,i) * [1, x_i, x_i^2]
   per component c, with responsibilities r(.,i) >= 0 summing to one, plus one to the count t and
   ll_i to the total log-likelihood.  `cov` is a ghost bag recording which samples a container
   covers.  Adding containers of different shapes is refused and leaves both operands intact.

   Containers have a life cycle of their own: a zero accumulator is obtained from the constructor, from
   resize() / init_fields() of any container, or by reset() of a container that is no longer needed
   (gmm.py:210-239, :358-362); it covers nothing and is then used like any other operand, typically as the
   left side of `+=`.  At most one such step per behaviour (ghost set `zeroed`) keeps the model small.       *)
EXTENDS Rat, TLC, Json, Bags

CONSTANTS N,            \* samples 1..N
          C,            \* components
          Scenarios,    \* set of records [x, r, ll]: sample values (integers, one feature), responsibility
                        \* vectors (C rationals >= 0 summing to 1) and per-sample log-likelihood stand-ins
          Partitions,   \* set of partitions: each a set of non-empty disjoint blocks covering 1..N
          AllowZero,    \* BOOLEAN: whether the Zero / Reset steps of the container life cycle are explored
          Dev           \* named deviations

VARIABLES x, r, ll, part,       \* scenario
          heap,                 \* sequence of containers [cov, t, n, px, pxx, llsum, live]
          todo,                 \* blocks not yet accumulated
          refused,              \* a shape-mismatched addition was attempted and refused
          zeroed,               \* ghost: containers made by Zero / Reset (at most one per behaviour)
          hist                  \* history of operations (export only)
vars == <<x, r, ll, part, heap, todo, refused, zeroed, hist>>
Covs(h) == [k \in 1..Len(h) |-> [i \in 1..N |-> IF i \in BagToSet(h[k].cov) THEN CopiesIn(i, h[k].cov) ELSE 0]]

Idx == 1..N
Comp == 1..C
Contribution(i) == [t |-> 1,
                    n |-> [c \in Comp |-> r[i][c]],
                    px |-> [c \in Comp |-> Mul(r[i][c], R(x[i]))],
                    pxx |-> [c \in Comp |-> Mul(r[i][c], R(x[i] * x[i]))],
                    llsum |-> ll[i]]
ZeroVal == [t |-> 0, n |-> [c \in Comp |-> Zero], px |-> [c \in Comp |-> Zero], pxx |-> [c \in Comp |-> Zero], llsum |-> Zero]
Plus(a, b) == [t |-> a.t + b.t, n |-> VAdd(a.n, b.n), px |-> VAdd(a.px, b.px), pxx |-> VAdd(a.pxx, b.pxx),
               llsum |-> Add(a.llsum, b.llsum)]
RECURSIVE SumContrib(_)
SumContrib(S) == IF S = {} THEN ZeroVal ELSE LET i == CHOOSE i \in S : TRUE IN Plus(Contribution(i), SumContrib(S \ {i}))
\* value of a bag of samples (a sample covered twice counts twice)
RECURSIVE BagValue(_)
BagValue(b) == IF b = EmptyBag THEN ZeroVal
               ELSE LET i == CHOOSE i \in BagToSet(b) : TRUE
                    IN Plus(Contribution(i), BagValue(b (-) SetToBag({i})))
ValOf(o) == [t |-> o.t, n |-> o.n, px |-> o.px, pxx |-> o.pxx, llsum |-> o.llsum]
Mk(cov, v, live) == [cov |-> cov, t |-> v.t, n |-> v.n, px |-> v.px, pxx |-> v.pxx, llsum |-> v.llsum, live |-> live]
Live == {k \in 1..Len(heap) : heap[k].live}

Init == /\ \E s \in Scenarios : x = s.x /\ r = s.r /\ ll = s.ll
        /\ part \in Partitions /\ todo = part
        /\ heap = <<>> /\ refused = FALSE /\ zeroed = {} /\ hist = <<>>

\* machine.acc_stats(X[block]) -- a fresh container
EStep(b) == /\ b \in todo /\ todo' = todo \ {b}
            /\ heap' = Append(heap, Mk(SetToBag(b), SumContrib(b), TRUE))
            /\ hist' = Append(hist, [op |-> "EStep", a |-> 0, b |-> 0, block |-> b, res |-> Len(heap) + 1, covs |-> Covs(heap')])
            /\ UNCHANGED <<x, r, ll, part, refused, zeroed>>
\* c = a + b : new container; a and b keep their values (they are retired from further
\* combination only to bound the model -- their values stay on the heap and stay checked)
AddNew(a, b) == /\ a \in Live /\ b \in Live /\ a # b
                /\ LET v == IF "ADD_MUTATES_LEFT" \in Dev THEN ValOf(heap[a]) ELSE Plus(ValOf(heap[a]), ValOf(heap[b]))
                       na == IF "ADD_MUTATES_LEFT" \in Dev
                             THEN Mk(heap[a].cov (+) heap[b].cov, Plus(ValOf(heap[a]), ValOf(heap[b])), FALSE)
                             ELSE [heap[a] EXCEPT !.live = FALSE]
                   IN heap' = Append([heap EXCEPT ![a] = na, ![b] = [heap[b] EXCEPT !.live = FALSE]],
                                     Mk(heap[a].cov (+) heap[b].cov, Plus(ValOf(heap[a]), ValOf(heap[b])), TRUE))
                /\ hist' = Append(hist, [op |-> "Add", a |-> a, b |-> b, block |-> {}, res |-> Len(heap) + 1, covs |-> Covs(heap')])
                /\ UNCHANGED <<x, r, ll, part, todo, refused, zeroed>>
\* a += b : a mutated, b untouched
IAdd(a, b) == /\ a \in Live /\ b \in Live /\ a # b
              /\ LET v == Plus(ValOf(heap[a]), ValOf(heap[b]))
                     \* deviation: reset() gives both moments ONE buffer, so every += lands in both
                     sh == VAdd(v.px, heap[b].pxx)
                     v2 == IF "IADD_SKIPS_PXX" \in Dev THEN [v EXCEPT !.pxx = heap[a].pxx]
                           ELSE IF "RESET_SHARES_MOMENT_BUFFERS" \in Dev /\ a \in zeroed THEN [v EXCEPT !.px = sh, !.pxx = sh]
                           ELSE v
                 IN heap' = [heap EXCEPT ![a] = Mk(heap[a].cov (+) heap[b].cov, v2, TRUE),
                                         ![b] = [heap[b] EXCEPT !.live = FALSE]]
              /\ hist' = Append(hist, [op |-> "IAdd", a |-> a, b |-> b, block |-> {}, res |-> a, covs |-> Covs(heap')])
              /\ UNCHANGED <<x, r, ll, part, todo, refused, zeroed>>
\* a + other / a += other with `other` of another shape: ValueError, nothing changes
Mismatch(a) == /\ a \in Live /\ ~refused /\ refused' = TRUE
               /\ hist' = Append(hist, [op |-> "Mismatch", a |-> a, b |-> 0, block |-> {}, res |-> 0, covs |-> Covs(heap)])
               /\ UNCHANGED <<x, r, ll, part, heap, todo, zeroed>>

\* a zero accumulator: GMMStats(C, D), or resize() / init_fields() of some container
ZeroNew == /\ AllowZero /\ zeroed = {} /\ zeroed' = {Len(heap) + 1}
           /\ heap' = Append(heap, Mk(EmptyBag, ZeroVal, TRUE))
           /\ hist' = Append(hist, [op |-> "Zero", a |-> 0, b |-> 0, block |-> {}, res |-> Len(heap) + 1, covs |-> Covs(heap')])
           /\ UNCHANGED <<x, r, ll, part, todo, refused>>
\* reset() of a container whose value is no longer needed
Reset(k) == /\ AllowZero /\ zeroed = {} /\ k \in 1..Len(heap) /\ ~heap[k].live /\ zeroed' = {k}
            /\ heap' = [heap EXCEPT ![k] = Mk(EmptyBag, ZeroVal, TRUE)]
            /\ hist' = Append(hist, [op |-> "Reset", a |-> k, b |-> 0, block |-> {}, res |-> k, covs |-> Covs(heap')])
            /\ UNCHANGED <<x, r, ll, part, todo, refused>>

Next == \/ \E b \in todo : EStep(b)
        \/ ZeroNew \/ \E k \in 1..Len(heap) : Reset(k)
        \/ \E a, b \in Live : AddNew(a, b) \/ IAdd(a, b)
        \/ \E a \in Live : Mismatch(a)
Spec == Init /\ [][Next]_vars
Done == todo = {} /\ Cardinality(Live) = 1

\* ---------------- properties (C02)
\* every container holds exactly the sum of the contributions of the samples it covers
ValueIsSumOfCovers == \A k \in 1..Len(heap) : ValOf(heap[k]) = BagValue(heap[k].cov)
\* counts are non-negative and add up to the number of samples covered
NNonNegSumsToT == \A k \in 1..Len(heap) : /\ \A c \in Comp : ~Lt(heap[k].n[c], Zero)
                                         /\ SumOver(heap[k].n, Comp) = R(heap[k].t)
\* whatever the partition and the order of combination, the last container is the whole-set one
SameCoversSameValue == Done => LET k == CHOOSE k \in Live : TRUE IN ValOf(heap[k]) = SumContrib(Idx)
\* `+` never changes an operand; `+=` never changes its right operand; a refused addition changes nothing
AddDoesNotMutate == [][\A k \in 1..Len(heap) :
                          (k \in DOMAIN heap' /\ ~(hist'[Len(hist')].op \in {"IAdd", "Reset"} /\ hist'[Len(hist')].a = k))
                              => ValOf(heap'[k]) = ValOf(heap[k])]_vars
MismatchRefused == [][hist'[Len(hist')].op = "Mismatch" => heap' = heap]_vars

View == <<x, r, ll, part, heap, todo, refused, zeroed>>
Export == Done => PrintT(ToJson([part |-> part, hist |-> hist]))
=============================================================================
