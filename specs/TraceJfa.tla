------------------------------ MODULE TraceJfa ------------------------------
(* Monitor for executions of the real JFAMachine.fit recorded at the public per-phase steps
   (vf/jfaphases_model.py: Recorder).  A trace is a record
       [kind |-> STRING, K |-> em_iterations, ev |-> sequence of events]
   with events of exactly the shape the control layer of JfaPhases appends to `calls`
       [name, v, u, d, y, xu, xy, z, exact, shapes]
   (tags computed by the recorder by VALUE: v/u/d = index of the recorded version of V/U/D that the
   machine held on entry; y = version of V whose exact posterior mean the given y equals; xu, xy =
   version of U and tag of the y whose exact posterior mean the given x equals; -1 = none / zero,
   -9 = matches nothing; z = 0 iff the result is reproduced with z = 0; exact = the returned
   accumulators / subspace / estimate equal the independent evaluation).
   The clauses are the predicates of JfaPhases itself (one source of truth), evaluated event by
   event; the first violated clause is latched and one verdict line is printed per trace.        *)
EXTENDS Integers, Sequences, Json, IOUtils, TLCExt, TLC

Traces == JsonDeserialize(IOEnv.TRACE_FILE)

VARIABLES tid, l, verdict, closed
tvars == <<tid, l, verdict, closed>>
T == Traces[tid]

\* the design module with its own state idle: only its constant-level operators over event sequences are used
J == INSTANCE JfaPhases WITH Iters <- {}, Dev <- {}, Scenarios <- {}, By <- 0, Bt <- 0, Ba <- 0,
                             K <- 0, pc <- "idle", it <- 0, sub <- "E", fin <- FALSE, vV <- 0, vU <- 0, vD <- 0,
                             ly <- -1, lx <- <<-1, -1>>, calls <- <<>>,
                             scn <- <<>>, phase <- "idle", post <- <<>>, acc <- <<>>, new <- <<>>

TInit == /\ tid \in 1..Len(Traces) /\ l = 1 /\ verdict = "ok" /\ closed = FALSE

TStep == /\ l <= Len(T.ev) /\ verdict = "ok"
         /\ verdict' = J!ClauseAt(T.ev, T.K, l)
         /\ l' = l + 1 /\ UNCHANGED <<tid, closed>>

\* a run must be complete: 2K calls per phase and the two finalize calls
TEnd == /\ l = Len(T.ev) + 1 /\ verdict = "ok" /\ ~closed
        /\ closed' = TRUE
        /\ verdict' = (IF Len(T.ev) = J!RunLen(T.K) THEN "ok" ELSE "PhaseOrder")
        /\ UNCHANGED <<tid, l>>

TSpec == TInit /\ [][TStep \/ TEnd]_tvars
Finished == closed \/ verdict # "ok"
Report == Finished => PrintT(<<"VERDICT", tid, verdict, l - 1>>)
=============================================================================
