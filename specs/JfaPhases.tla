------------------------------ MODULE JfaPhases ------------------------------
(* JFAMachine training (factor_analysis.py: JFAMachine.fit :2125-2245, e_step_v/m_step_v/finalize_v,
   e_step_u/m_step_u/finalize_u, e_step_d/m_step_d, compute_accumulators_V/U/D, update_y,
   compute_latent_x, update_z, update_U).  Supervector mean of class i in session h:

        m + V y_i + U x_ih + D o z_i ,      y_i, x_ih, z_i ~ N(0, I),  diagonal covariance s.

   TWO LAYERS, two specifications in one module (each keeps the other layer's variables idle).

   (a) CONTROL LAYER  (CSpec).  `fit` as written: three loops of em_iterations E/M pairs, finalize_v
       between the first two, finalize_u between the last two.  Subspaces are VERSION TAGS (a counter
       per subspace, bumped by its M-step); point estimates carry the tags of what they were computed
       from: y -> the version of V, x -> (version of U, tag of the y that was held fixed).  Every call
       appends one EVENT to `calls`,
           [name, v, u, d : versions of V, U, D the call saw on entry,
            y            : tag of the y the call was given (FinalizeV: of the y it returns); -1 = none / zero,
            xu, xy       : tag of the x the call was given (FinalizeU: returns); -1, -1 = none / zero,
            z            : 0 = z is zero in this call, 1 = z is the posterior mean under the current D,
            exact, shapes: filled by the recorder for real executions (numeric layer / ShapesKept)],
       and every formula of the layer is a predicate over event sequences (XxxAt below), so the very
       same predicates judge the model's behaviours here and the recorded executions of the real
       `fit` in TraceJfa.tla (one source of truth).
       Named deviations: JFA_FINALIZE_V_BEFORE_LAST_MSTEP (y computed before the last M-step of V),
       JFA_U_PHASE_IGNORES_Y (the U phase is run without the y handed over).

   (b) NUMERIC LAYER  (NSpec).  Exact rationals, rank 1 (r_U = r_V = 1), one feature per component
       (supervector index = component), 2 classes x 1..2 sessions, fractional counts.  INDUCTIVE
       ONE-STEP FORM: the current V, U, D and the point estimates handed to the U and D phases
       (y0 per class, x0 per session) range over ALL small rationals, not only over values reachable
       by training, and each public step is taken once from there:

            start --EStepV--> eV --MStepV--> mV          start --FinalizeV--> fV
            start --EStepU--> eU --MStepU--> mU          start --FinalizeU--> fU
            start --EStepD--> eD --MStepD--> mD

       The actions transcribe the residual / precision form of the code (class-accumulated
       statistics n_acc, f_acc; (I + sum N Prod)^-1; the fn residuals); the declarative side is written per
       session from the model: the gradient of the complete-data log-posterior vanishes at the
       posterior mean and its curvature is minus the inverse posterior covariance
       (PosteriorMomentsExact), the accumulators are the posterior second moments weighted by the
       counts and the centred statistics times the posterior means (AccumulatorsAreMoments), the
       M-step solves  W_c A1_c = A2_c  with A1_c > 0 (MStepSolvesNormalEq), hence does not decrease
       the EM auxiliary function  Q_c(W) = W A2_c - 1/2 W^2 A1_c  (AuxNonDecreasing); with exact
       posteriors that is ascent of the marginal likelihood (EM theorem, trusted; the marginal itself
       contains log-determinants and is validated on traces, M3).
       Named deviations: JFA_A1_WITHOUT_POSTERIOR_COV, JFA_D_MSTEP_INVERTED, JFA_U_PHASE_IGNORES_Y.

       TLC integers are 32 bit: an E-step (M-step) is taken only when the exact posterior means
       (accumulators) are within the bounds By, Bt, Ba; a scenario outside is followed as far as it
       fits (and exported that far).                                                           *)
EXTENDS Rat, TLC, Json

CONSTANTS Iters,        \* values of em_iterations explored by the control layer
          Dev,          \* named deviations switched on
          Scenarios,    \* numeric scenarios (records, see above)
          By, Bt, Ba    \* scope of the 32-bit model

\* =================================================================== events and their clauses
VPhase == {"EStepV", "MStepV", "FinalizeV"}
UPhase == {"EStepU", "MStepU", "FinalizeU"}
DPhase == {"EStepD", "MStepD"}
RunLen(k) == 6 * k + 2
\* the j-th call of fit with em_iterations = k
Expected(k, j) ==
    IF j <= 2 * k THEN (IF j % 2 = 1 THEN "EStepV" ELSE "MStepV")
    ELSE IF j = 2 * k + 1 THEN "FinalizeV"
    ELSE IF j <= 4 * k + 1 THEN (IF (j - (2 * k + 1)) % 2 = 1 THEN "EStepU" ELSE "MStepU")
    ELSE IF j = 4 * k + 2 THEN "FinalizeU"
    ELSE IF (j - (4 * k + 2)) % 2 = 1 THEN "EStepD" ELSE "MStepD"
CountBefore(seq, j, nm) == Cardinality({i \in 1..(j - 1) : seq[i].name = nm})

\* V phase, then U, then D; each exactly k E/M pairs, E before M; one finalize between phases
PhaseOrderAt(seq, k, j) == j <= RunLen(k) /\ seq[j].name = Expected(k, j)
\* every call works on the subspaces as left by the M-steps so far (no stale copy)
SeesCurrentAt(seq, j) == /\ seq[j].v = CountBefore(seq, j, "MStepV")
                         /\ seq[j].u = CountBefore(seq, j, "MStepU")
                         /\ seq[j].d = CountBefore(seq, j, "MStepD")
\* the y used by the U and D phases is the one computed with the final V; the x used by the D phase
\* was computed with the final U and that y
HandOverAt(seq, k, j) ==
    LET e == seq[j] IN
    /\ e.name \in {"FinalizeV", "EStepU", "FinalizeU", "EStepD"} => e.y = k
    /\ e.name \in {"FinalizeU", "EStepD"} => e.xu = k /\ e.xy = k
\* x = z = 0 throughout the V phase, z = 0 throughout the U phase
ZZeroAt(seq, j) ==
    LET e == seq[j] IN
    /\ e.name \in VPhase \cup UPhase => e.z = 0
    /\ e.name \in VPhase \cup {"EStepU", "MStepU"} => e.xu = -1 /\ e.xy = -1
ExactAt(seq, j) == seq[j].exact
ShapesAt(seq, j) == seq[j].shapes
\* first clause violated by the j-th event ("ok" if none)
ClauseAt(seq, k, j) ==
    IF ~PhaseOrderAt(seq, k, j) THEN "PhaseOrder"
    ELSE IF ~SeesCurrentAt(seq, j) THEN "EachEStepSeesCurrentSubspace"
    ELSE IF ~HandOverAt(seq, k, j) THEN "HandOverUsesFinalSubspace"
    ELSE IF ~ZZeroAt(seq, j) THEN "ZIsZeroInVAndU"
    ELSE IF ~ExactAt(seq, j) THEN (IF seq[j].name \in {"MStepV", "MStepU", "MStepD"}
                                   THEN "MStepSolvesNormalEq" ELSE "PosteriorMomentsExact")
    ELSE IF ~ShapesAt(seq, j) THEN "ShapesKept"
    ELSE "ok"

VARIABLES K, pc, it, sub, fin,      \* control: em_iterations, phase, completed pairs, next call, y finalized
          vV, vU, vD,               \* control: versions of the subspaces
          ly, lx,                   \* control: tags of the y / x handed over
          calls,                    \* control: the events so far
          scn, phase, post, acc, new        \* numeric layer
cvars == <<K, pc, it, sub, fin, vV, vU, vD, ly, lx, calls>>
nvars == <<scn, phase, post, acc, new>>
vars == <<cvars, nvars>>

\* =================================================================== (a) control layer
NoX == <<-1, -1>>
Ev(nm, yy, xx, zz) == [name |-> nm, v |-> vV, u |-> vU, d |-> vD, y |-> yy, xu |-> xx[1], xy |-> xx[2],
                       z |-> zz, exact |-> TRUE, shapes |-> TRUE]
Early == "JFA_FINALIZE_V_BEFORE_LAST_MSTEP" \in Dev
YForU == IF "JFA_U_PHASE_IGNORES_Y" \in Dev THEN -1 ELSE ly

NIdle == scn = <<>> /\ phase = "idle" /\ post = <<>> /\ acc = <<>> /\ new = <<>>
CInit == /\ K \in Iters /\ pc = "V" /\ it = 0 /\ sub = "E" /\ fin = FALSE
         /\ vV = 0 /\ vU = 0 /\ vD = 0 /\ ly = -1 /\ lx = NoX /\ calls = <<>>
         /\ NIdle

\* e_step_v: initialize_XYZ (x = y = z = 0), update_y with the current V, accumulators
CEStepV == /\ pc = "V" /\ sub = "E" /\ it < K
           /\ calls' = Append(calls, Ev("EStepV", -1, NoX, 0))
           /\ sub' = "M" /\ UNCHANGED nvars /\ UNCHANGED <<K, pc, it, fin, vV, vU, vD, ly, lx>>
\* m_step_v: V := A2 / A1
CMStepV == /\ pc = "V" /\ sub = "M"
           /\ calls' = Append(calls, Ev("MStepV", -1, NoX, 0))
           /\ vV' = vV + 1 /\ it' = (IF fin /\ it + 1 = K THEN 0 ELSE it + 1) /\ sub' = "E"
           /\ pc' = (IF fin /\ it + 1 = K THEN "U" ELSE pc)
           /\ UNCHANGED nvars /\ UNCHANGED <<K, fin, vU, vD, ly, lx>>
\* finalize_v: y recomputed with the V of the moment (x = z = 0); intended: after the last M-step
CFinalizeV == /\ pc = "V" /\ ~fin
              /\ IF Early THEN sub = "M" /\ it = K - 1 ELSE sub = "E" /\ it = K
              /\ calls' = Append(calls, Ev("FinalizeV", vV, NoX, 0))
              /\ ly' = vV /\ fin' = TRUE
              /\ IF Early THEN UNCHANGED <<pc, it>> ELSE pc' = "U" /\ it' = 0
              /\ UNCHANGED nvars /\ UNCHANGED <<K, sub, vV, vU, vD, lx>>
\* e_step_u: x estimated with the current U and the y handed over, z = 0
CEStepU == /\ pc = "U" /\ sub = "E" /\ it < K
           /\ calls' = Append(calls, Ev("EStepU", YForU, NoX, 0))
           /\ sub' = "M" /\ UNCHANGED nvars /\ UNCHANGED <<K, pc, it, fin, vV, vU, vD, ly, lx>>
CMStepU == /\ pc = "U" /\ sub = "M"
           /\ calls' = Append(calls, Ev("MStepU", -1, NoX, 0))
           /\ vU' = vU + 1 /\ it' = it + 1 /\ sub' = "E"
           /\ UNCHANGED nvars /\ UNCHANGED <<K, pc, fin, vV, vD, ly, lx>>
\* finalize_u: x recomputed with the final U and the y handed over
CFinalizeU == /\ pc = "U" /\ sub = "E" /\ it = K
              /\ calls' = Append(calls, Ev("FinalizeU", YForU, <<vU, YForU>>, 0))
              /\ lx' = <<vU, YForU>> /\ pc' = "D" /\ it' = 0
              /\ UNCHANGED nvars /\ UNCHANGED <<K, sub, fin, vV, vU, vD, ly>>
\* e_step_d: z estimated with the current D and the x, y handed over
CEStepD == /\ pc = "D" /\ sub = "E" /\ it < K
           /\ calls' = Append(calls, Ev("EStepD", ly, lx, 1))
           /\ sub' = "M" /\ UNCHANGED nvars /\ UNCHANGED <<K, pc, it, fin, vV, vU, vD, ly, lx>>
CMStepD == /\ pc = "D" /\ sub = "M"
           /\ calls' = Append(calls, Ev("MStepD", -1, NoX, 0))
           /\ vD' = vD + 1 /\ it' = it + 1 /\ sub' = "E"
           /\ pc' = (IF it + 1 = K THEN "done" ELSE pc)
           /\ UNCHANGED nvars /\ UNCHANGED <<K, fin, vV, vU, ly, lx>>
CNext == CEStepV \/ CMStepV \/ CFinalizeV \/ CEStepU \/ CMStepU \/ CFinalizeU \/ CEStepD \/ CMStepD
CSpec == CInit /\ [][CNext]_vars

Calls == 1..Len(calls)
PhaseOrder == /\ \A j \in Calls : PhaseOrderAt(calls, K, j)
              /\ pc = "done" <=> Len(calls) = RunLen(K)
HandOverUsesFinalSubspace == \A j \in Calls : HandOverAt(calls, K, j)
ZIsZeroInVAndU == \A j \in Calls : ZZeroAt(calls, j)
EachEStepSeesCurrentSubspace == \A j \in Calls : SeesCurrentAt(calls, j)
\* the control layer has tags only: shapes cannot change there; the real shapes come with the events
ShapesKept == \A j \in Calls : ShapesAt(calls, j)
\* every behaviour reaches the end: no state before "done" is stuck
CNotStuck == pc # "done" => ENABLED CNext
CExport == pc = "done" => PrintT(ToJson([K |-> K, calls |-> calls]))

\* =================================================================== (b) numeric layer
Cs(k) == 1..Len(k.m)
Hs(k) == 1..Len(k.N)
Is(k) == 1..k.nc
HsOf(k, i) == {h \in Hs(k) : k.cls[h] = i}
Half == <<1, 2>>
Tup(n, e(_)) == IF n = 1 THEN <<e(1)>> ELSE IF n = 2 THEN <<e(1), e(2)>>
                ELSE IF n = 3 THEN <<e(1), e(2), e(3)>> ELSE <<e(1), e(2), e(3), e(4)>>
Small(x, B) == Abs(x[1]) <= B /\ x[2] <= B
\* sums through the least common denominator: same values as Rat!Add, smaller intermediates
AddL(a, b) == LET g == GCD(a[2], b[2])
              IN Norm(a[1] * (b[2] \div g) + b[1] * (a[2] \div g), (a[2] \div g) * b[2])
SubL(a, b) == AddL(a, Neg(b))
LeqL(a, b) == LET g == GCD(a[2], b[2]) IN a[1] * (b[2] \div g) <= b[1] * (a[2] \div g)
RECURSIVE SumL(_, _)
SumL(f, S) == IF S = {} THEN Zero
              ELSE LET i == CHOOSE i \in S : TRUE IN AddL(f[i], SumL(f, S \ {i}))
\* the least common multiple of the denominators of f over S, 0 when it exceeds B (all f[i][2] <= B)
RECURSIVE LcmB(_, _, _)
LcmB(f, S, B) == IF S = {} THEN 1
                 ELSE LET i == CHOOSE i \in S : TRUE
                          r == LcmB(f, S \ {i}, B)
                      IN IF r = 0 THEN 0
                         ELSE LET l == (r \div GCD(r, f[i][2])) * f[i][2] IN IF l > B THEN 0 ELSE l
Summable(f, S, B) == (\A i \in S : Small(f[i], B)) /\ LcmB(f, S, B) # 0

\* ---- statistics: class totals as `initialize` accumulates them (n_acc, f_acc), centred per session
Nt(k, i, c) == SumL([h \in Hs(k) |-> k.N[h][c]], HsOf(k, i))
Ft(k, i, c) == SumL([h \in Hs(k) |-> k.F[h][c]], HsOf(k, i))
Ftil(k, h, c) == SubL(k.F[h][c], Mul(k.N[h][c], k.m[c]))

\* ---- V phase (x = z = 0): update_y / _compute_id_plus_vprod_i / _compute_fn_y_i / compute_accumulators_V
VProd(k, c) == Div(Sq(k.V[c]), k.s[c])
PrecY(k, i) == AddL(One, SumL([c \in Cs(k) |-> Mul(VProd(k, c), Nt(k, i, c))], Cs(k)))
FnY(k, i, c) == SubL(Ft(k, i, c), Mul(Nt(k, i, c), k.m[c]))
CovY(k, i) == Div(One, PrecY(k, i))
MeanY(k, i) == Mul(SumL([c \in Cs(k) |-> Mul(Div(k.V[c], k.s[c]), FnY(k, i, c))], Cs(k)), CovY(k, i))
PostV(k) == [mean |-> Tup(k.nc, LAMBDA i : MeanY(k, i)), cov |-> Tup(k.nc, LAMBDA i : CovY(k, i))]
\* second moment used by A1 (deviation: the posterior covariance is dropped, only the square of the mean is kept)
M2nd(cv, mn) == IF "JFA_A1_WITHOUT_POSTERIOR_COV" \in Dev THEN Sq(mn) ELSE AddL(cv, Sq(mn))
A1TermsV(k, p, c) == [i \in Is(k) |-> Mul(M2nd(p.cov[i], p.mean[i]), Nt(k, i, c))]
A2TermsV(k, p, c) == [i \in Is(k) |-> Mul(FnY(k, i, c), p.mean[i])]

\* ---- U phase (y fixed, z = 0): compute_latent_x / _compute_id_plus_u_prod_ih / _compute_fn_x_ih / compute_accumulators_U
UProd(k, c) == Div(Sq(k.U[c]), k.s[c])
PrecX(k, h) == AddL(One, SumL([c \in Cs(k) |-> Mul(UProd(k, c), k.N[h][c])], Cs(k)))
YOf(k, h) == IF "JFA_U_PHASE_IGNORES_Y" \in Dev THEN Zero ELSE k.y0[k.cls[h]]
FnX(k, h, c) == SubL(SubL(k.F[h][c], Mul(k.N[h][c], k.m[c])), Mul(k.N[h][c], Mul(k.V[c], YOf(k, h))))
CovX(k, h) == Div(One, PrecX(k, h))
MeanX(k, h) == Mul(CovX(k, h), SumL([c \in Cs(k) |-> Mul(Div(k.U[c], k.s[c]), FnX(k, h, c))], Cs(k)))
PostU(k) == [mean |-> Tup(Len(k.N), LAMBDA h : MeanX(k, h)), cov |-> Tup(Len(k.N), LAMBDA h : CovX(k, h))]
A1TermsU(k, p, c) == [h \in Hs(k) |-> Mul(M2nd(p.cov[h], p.mean[h]), k.N[h][c])]
A2TermsU(k, p, c) == [h \in Hs(k) |-> Mul(FnX(k, h, c), p.mean[h])]

\* ---- D phase (x, y fixed): update_z / _compute_id_plus_d_prod_i / _compute_fn_z_i / compute_accumulators_D
PrecZ(k, i, c) == AddL(One, Mul(Mul(Div(k.D[c], k.s[c]), k.D[c]), Nt(k, i, c)))
FnZ(k, i, c) == SubL(SubL(Ft(k, i, c), Mul(Nt(k, i, c), AddL(k.m[c], Mul(k.V[c], k.y0[i])))),
                     SumL([h \in Hs(k) |-> Mul(k.N[h][c], Mul(k.U[c], k.x0[h]))], HsOf(k, i)))
CovZ(k, i, c) == Div(One, PrecZ(k, i, c))
MeanZ(k, i, c) == Mul(Mul(CovZ(k, i, c), Div(k.D[c], k.s[c])), FnZ(k, i, c))
PostD(k) == [mean |-> Tup(k.nc, LAMBDA i : Tup(Len(k.m), LAMBDA c : MeanZ(k, i, c))),
             cov |-> Tup(k.nc, LAMBDA i : Tup(Len(k.m), LAMBDA c : CovZ(k, i, c)))]
A1TermsD(k, p, c) == [i \in Is(k) |-> Mul(M2nd(p.cov[i][c], p.mean[i][c]), Nt(k, i, c))]
A2TermsD(k, p, c) == [i \in Is(k) |-> Mul(FnZ(k, i, c), p.mean[i][c])]

\* ---- behaviour
CIdle == K = 0 /\ pc = "idle" /\ it = 0 /\ sub = "E" /\ fin = FALSE /\ vV = 0 /\ vU = 0 /\ vD = 0
         /\ ly = -1 /\ lx = NoX /\ calls = <<>>
NInit == /\ scn \in Scenarios /\ phase = "start" /\ post = <<>> /\ acc = <<>> /\ new = <<>>
         /\ CIdle

\* an E-step: posterior moments, then (within the 32-bit scope) the accumulators
EStepOf(ph, p, idx, t1(_, _, _), t2(_, _, _), meansmall) ==
    /\ phase = "start" /\ phase' = ph
    /\ meansmall
    /\ \A c \in Cs(scn) : Summable(t1(scn, p, c), idx, Bt) /\ Summable(t2(scn, p, c), idx, Bt)
    /\ post' = p
    /\ acc' = [a1 |-> Tup(Len(scn.m), LAMBDA c : SumL(t1(scn, p, c), idx)),
               a2 |-> Tup(Len(scn.m), LAMBDA c : SumL(t2(scn, p, c), idx))]
    /\ UNCHANGED <<scn, new>> /\ UNCHANGED cvars
EStepV == phase = "start" /\ LET p == PostV(scn) IN
          EStepOf("eV", p, Is(scn), A1TermsV, A2TermsV, \A i \in Is(scn) : Small(p.mean[i], By))
EStepU == phase = "start" /\ LET p == PostU(scn) IN
          EStepOf("eU", p, Hs(scn), A1TermsU, A2TermsU, \A h \in Hs(scn) : Small(p.mean[h], By))
EStepD == phase = "start" /\ LET p == PostD(scn) IN
          EStepOf("eD", p, Is(scn), A1TermsD, A2TermsD,
                  \A i \in Is(scn), c \in Cs(scn) : Small(p.mean[i][c], By))
\* finalize_v / finalize_u: the posterior means once more
FinalizeV == /\ phase = "start" /\ phase' = "fV" /\ post' = PostV(scn) /\ UNCHANGED <<scn, acc, new>> /\ UNCHANGED cvars
             /\ \A i \in Is(scn) : Small(MeanY(scn, i), By)
FinalizeU == /\ phase = "start" /\ phase' = "fU" /\ post' = PostU(scn) /\ UNCHANGED <<scn, acc, new>> /\ UNCHANGED cvars
             /\ \A h \in Hs(scn) : Small(MeanX(scn, h), By)
\* the M-steps: V_c = A2_c / A1_c (m_step_v, update_U at rank 1), D = A2 / A1 (deviation: A1 / A2)
MScope == \A c \in Cs(scn) : Small(acc.a1[c], Ba) /\ Small(acc.a2[c], Ba) /\ ~IsZero(acc.a1[c])
MStepOf(from, to, inverted) ==
    /\ phase = from /\ phase' = to /\ MScope
    /\ inverted => \A c \in Cs(scn) : ~IsZero(acc.a2[c])
    /\ LET w == Tup(Len(scn.m), LAMBDA c : IF inverted THEN Div(acc.a1[c], acc.a2[c]) ELSE Div(acc.a2[c], acc.a1[c]))
       IN (\A c \in Cs(scn) : Small(w[c], Ba)) /\ new' = w
    /\ UNCHANGED <<scn, post, acc>> /\ UNCHANGED cvars
MStepV == phase = "eV" /\ MStepOf("eV", "mV", FALSE)
MStepU == phase = "eU" /\ MStepOf("eU", "mU", FALSE)
MStepD == phase = "eD" /\ MStepOf("eD", "mD", "JFA_D_MSTEP_INVERTED" \in Dev)
NNext == EStepV \/ MStepV \/ FinalizeV \/ EStepU \/ MStepU \/ FinalizeU \/ EStepD \/ MStepD
NSpec == NInit /\ [][NNext]_vars

\* ---- declarative side, written per session from the model (no class totals, no code intermediates)
\* d/d(offset_hc) of log p(data | offsets):  (Ftil_hc - N_hc offset_hc) / s_c
Res(k, h, c, off) == Div(SubL(Ftil(k, h, c), Mul(k.N[h][c], off)), k.s[c])
\* V phase: offset_hc = V_c y_i
GradY(k, i, yy) == SubL(SumL([h \in Hs(k) |-> SumL([c \in Cs(k) |-> Mul(k.V[c], Res(k, h, c, Mul(k.V[c], yy)))],
                                                   Cs(k))], HsOf(k, i)), yy)
CurvY(k, i) == AddL(One, SumL([h \in Hs(k) |-> SumL([c \in Cs(k) |-> Div(Mul(k.N[h][c], Sq(k.V[c])), k.s[c])],
                                                    Cs(k))], HsOf(k, i)))
\* U phase: offset_hc = V_c y_i + U_c x_h, y fixed
GradX(k, h, xx) == SubL(SumL([c \in Cs(k) |->
                                Mul(k.U[c], Res(k, h, c, AddL(Mul(k.V[c], k.y0[k.cls[h]]), Mul(k.U[c], xx))))], Cs(k)), xx)
CurvX(k, h) == AddL(One, SumL([c \in Cs(k) |-> Div(Mul(k.N[h][c], Sq(k.U[c])), k.s[c])], Cs(k)))
\* D phase: offset_hc = V_c y_i + U_c x_h + D_c z_ic, x and y fixed
GradZ(k, i, c, zz) ==
    SubL(SumL([h \in Hs(k) |->
                 Mul(k.D[c], Res(k, h, c, AddL(AddL(Mul(k.V[c], k.y0[i]), Mul(k.U[c], k.x0[h])), Mul(k.D[c], zz))))],
              HsOf(k, i)), zz)
CurvZ(k, i, c) == AddL(One, SumL([h \in Hs(k) |-> Div(Mul(k.N[h][c], Sq(k.D[c])), k.s[c])], HsOf(k, i)))

PosteriorMomentsExact ==
    /\ phase \in {"eV", "fV"} => \A i \in Is(scn) :
          /\ IsZero(GradY(scn, i, post.mean[i]))
          /\ IsPos(CurvY(scn, i)) /\ Mul(post.cov[i], CurvY(scn, i)) = One
    /\ phase \in {"eU", "fU"} => \A h \in Hs(scn) :
          /\ IsZero(GradX(scn, h, post.mean[h]))
          /\ IsPos(CurvX(scn, h)) /\ Mul(post.cov[h], CurvX(scn, h)) = One
    /\ phase = "eD" => \A i \in Is(scn), c \in Cs(scn) :
          /\ IsZero(GradZ(scn, i, c, post.mean[i][c]))
          /\ IsPos(CurvZ(scn, i, c)) /\ Mul(post.cov[i][c], CurvZ(scn, i, c)) = One
\* A1_c = sum over sessions of N_hc E[w^2],  A2_c = sum over sessions of (centred statistic) E[w]
AccumulatorsAreMoments ==
    /\ phase = "eV" => \A c \in Cs(scn) :
          /\ acc.a1[c] = SumL([h \in Hs(scn) |-> Mul(scn.N[h][c], AddL(post.cov[scn.cls[h]], Sq(post.mean[scn.cls[h]])))],
                              Hs(scn))
          /\ acc.a2[c] = SumL([h \in Hs(scn) |-> Mul(Ftil(scn, h, c), post.mean[scn.cls[h]])], Hs(scn))
    /\ phase = "eU" => \A c \in Cs(scn) :
          /\ acc.a1[c] = SumL([h \in Hs(scn) |-> Mul(scn.N[h][c], AddL(post.cov[h], Sq(post.mean[h])))], Hs(scn))
          /\ acc.a2[c] = SumL([h \in Hs(scn) |->
                                 Mul(SubL(Ftil(scn, h, c), Mul(scn.N[h][c], Mul(scn.V[c], scn.y0[scn.cls[h]]))),
                                     post.mean[h])], Hs(scn))
    /\ phase = "eD" => \A c \in Cs(scn) :
          /\ acc.a1[c] = SumL([h \in Hs(scn) |->
                                 Mul(scn.N[h][c], AddL(post.cov[scn.cls[h]][c], Sq(post.mean[scn.cls[h]][c])))], Hs(scn))
          /\ acc.a2[c] = SumL([h \in Hs(scn) |->
                                 Mul(SubL(Ftil(scn, h, c),
                                          Mul(scn.N[h][c], AddL(Mul(scn.V[c], scn.y0[scn.cls[h]]), Mul(scn.U[c], scn.x0[h])))),
                                     post.mean[scn.cls[h]][c])], Hs(scn))
MStepSolvesNormalEq ==
    phase \in {"mV", "mU", "mD"} => \A c \in Cs(scn) : IsPos(acc.a1[c]) /\ Mul(new[c], acc.a1[c]) = acc.a2[c]
\* the EM auxiliary function of component c (up to the positive factor 1/s_c and constants)
Aux(c, w) == SubL(Mul(w, acc.a2[c]), Mul(Half, Mul(Sq(w), acc.a1[c])))
Old(c) == IF phase = "mV" THEN scn.V[c] ELSE IF phase = "mU" THEN scn.U[c] ELSE scn.D[c]
\* (32 bits: compared where the update and the accumulators are small, and the two values as well)
AuxScope(c) == Small(new[c], 12) /\ Small(acc.a1[c], 40) /\ Small(acc.a2[c], 40)
AuxChecked(c) == AuxScope(c) /\ Small(Aux(c, Old(c)), 40000) /\ Small(Aux(c, new[c]), 40000)
AuxNonDecreasing ==
    phase \in {"mV", "mU", "mD"} => \A c \in Cs(scn) : AuxChecked(c) => LeqL(Aux(c, Old(c)), Aux(c, new[c]))
Finite(x) == x[2] > 0
AllFinite ==
    /\ phase \in {"mV", "mU", "mD"} => \A c \in Cs(scn) : Finite(new[c])
    /\ phase \in {"eV", "eU", "eD"} => \A c \in Cs(scn) : Finite(acc.a1[c]) /\ Finite(acc.a2[c])
    /\ phase \in {"eV", "fV"} => \A i \in Is(scn) : Finite(post.mean[i]) /\ Finite(post.cov[i])
    /\ phase \in {"eU", "fU"} => \A h \in Hs(scn) : Finite(post.mean[h]) /\ Finite(post.cov[h])
NShapesKept == phase \in {"mV", "mU", "mD"} => Len(new) = Len(scn.m)

NExport == phase # "start" =>
    PrintT(ToJson([phase |-> phase, scn |-> scn, post |-> post, acc |-> acc, new |-> new,
                   aux |-> IF phase \in {"mV", "mU", "mD"} THEN Cardinality({c \in Cs(scn) : AuxChecked(c)}) ELSE 0]))
=============================================================================
