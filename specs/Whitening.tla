----------------------------- MODULE Whitening -----------------------------
(* Cholesky whitening, exact (whitening.py:48-77).

   Public steps, one action each:
     Mean    mu  = mean(X, axis=0)                                        (whitening.py:60)
     Cov     cov = cov(X^T): centred second moment divided by N-1          (whitening.py:61)
             deviation WHITENING_BIASED_COV: divided by N
     Centre  X - input_subtract, the first half of transform               (whitening.py:76-77)
   W = cholesky(inv(cov), lower) is irrational in general: TLC exports the exact covariance and its
   exact inverse P; the replay requires W lower-triangular with positive diagonal and W W^T = P, from
   which cov(centred X W) = W^T cov W = I (CentredCovUnchanged below + the replayed identity).     *)
EXTENDS Rat, TLC, Json

CONSTANTS N, Dm,
          DataSets,     \* sequences of N points, each a sequence of Dm integers
          Dev

VARIABLES data, phase,      \* "start" | "mean" | "cov" | "centred"
          mean, cov, centred
vars == <<data, phase, mean, cov, centred>>

Idx == 1..N
Feat == 1..Dm

MZero == [a \in Feat |-> [b \in Feat |-> Zero]]
MId == [a \in Feat |-> [b \in Feat |-> IF a = b THEN One ELSE Zero]]
MMul(A, B) == [a \in Feat |-> [b \in Feat |-> SumOver([c \in Feat |-> Mul(A[a][c], B[c][b])], Feat)]]
Det(A) == IF Dm = 1 THEN A[1][1] ELSE Sub(Mul(A[1][1], A[2][2]), Mul(A[1][2], A[2][1]))
MInv(A) == IF Dm = 1 THEN <<<<Div(One, A[1][1])>>>>
           ELSE LET d == Det(A)
                IN <<<<Div(A[2][2], d), Div(Neg(A[1][2]), d)>>, <<Div(Neg(A[2][1]), d), Div(A[1][1], d)>>>>
Symmetric(A) == \A a, b \in Feat : A[a][b] = A[b][a]
PosDef(A) == IsPos(A[1][1]) /\ IsPos(Det(A))

\* declarative sample covariance without any notion of a mean:
\*   (1 / (2 N (N-1))) sum_{a,b} (x_a - x_b)(x_a - x_b)^T
SampleCov(d) == [a \in Feat |-> [b \in Feat |->
    Div(SumOver([i \in Idx |-> SumOver([j \in Idx |-> R((d[i][a] - d[j][a]) * (d[i][b] - d[j][b]))], Idx)], Idx),
        R(2 * N * (N - 1)))]]
\* second moment about zero of a sequence of rational points, (N-1)-normalised
Moment(c) == [a \in Feat |-> [b \in Feat |->
    Div(SumOver([i \in Idx |-> Mul(c[i][a], c[i][b])], Idx), R(N - 1))]]

Init == /\ data \in DataSets
        /\ ~IsZero(Det(SampleCov(data)))                   \* full-rank data only
        /\ phase = "start" /\ mean = <<>> /\ cov = <<>> /\ centred = <<>>

Mean == /\ phase = "start" /\ phase' = "mean"
        /\ mean' = [j \in Feat |-> Div(SumOver([i \in Idx |-> R(data[i][j])], Idx), R(N))]
        /\ UNCHANGED <<data, cov, centred>>
Cov == /\ phase = "mean" /\ phase' = "cov"
       /\ LET norm == IF "WHITENING_BIASED_COV" \in Dev THEN N ELSE N - 1
          IN cov' = [a \in Feat |-> [b \in Feat |->
                       Div(SumOver([i \in Idx |-> Mul(Sub(R(data[i][a]), mean[a]), Sub(R(data[i][b]), mean[b]))], Idx),
                           R(norm))]]
       /\ UNCHANGED <<data, mean, centred>>
Centre == /\ phase = "cov" /\ phase' = "centred"
          /\ centred' = [i \in Idx |-> [j \in Feat |-> Sub(R(data[i][j]), mean[j])]]
          /\ UNCHANGED <<data, mean, cov>>

Next == Mean \/ Cov \/ Centre
Spec == Init /\ [][Next]_vars

\* ---------------- properties (C14, whitening half)
MeanIsSampleMean ==
    phase # "start" => \A j \in Feat : Mul(R(N), mean[j]) = SumOver([i \in Idx |-> R(data[i][j])], Idx)
CovIsSampleCov ==
    phase \in {"cov", "centred"} => /\ cov = SampleCov(data)
                                    /\ Symmetric(cov) /\ PosDef(cov)       \* so the Cholesky factor exists
                                    /\ MMul(cov, MInv(cov)) = MId /\ MMul(MInv(cov), cov) = MId
CentredHasZeroMean ==
    phase = "centred" => \A j \in Feat : IsZero(SumOver([i \in Idx |-> centred[i][j]], Idx))
CentredCovUnchanged ==       \* covariance of the centred data = its raw (N-1)-normalised second moment = cov
    phase = "centred" => Moment(centred) = cov

\* other units of measurement (x -> c x + b): the covariance is multiplied by c^2 and nothing else (the law that
\* lets the harness place a scenario at unit scales 1e-6 ... 1e3 and far from the origin)
Aff(d, c, b) == [i \in DOMAIN d |-> [j \in Feat |-> c * d[i][j] + b]]
AffineLaw ==
    \A c \in {2, -3}, b \in {0, 7} :
        SampleCov(Aff(data, c, b)) = [a \in Feat |-> [bb \in Feat |-> Mul(R(c * c), SampleCov(data)[a][bb])]]

\* ---------------- export (terminal states)
Export == phase = "centred" =>
    PrintT(ToJson([data |-> data, mean |-> mean, cov |-> cov,
                   P |-> IF ~IsZero(Det(cov)) THEN MInv(cov) ELSE MZero]))
=============================================================================
