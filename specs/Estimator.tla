----------------------------- MODULE Estimator -----------------------------
(* The configuration life cycle of an estimator object (scikit-learn protocol), common to KMeansMachine,
   GMMMachine, ISVMachine, JFAMachine, IVectorMachine, WCCN and Whitening.  Not one of the listed properties:
   part of the growing description of the system (DESIGN.md 12.5); run by `./check X01`, never registered.

   An object is [cfg, fitted, gen]:
     cfg     the hyper-parameters, a function from parameter names to abstract values -- what get_params()
             returns and what the constructor was given;
     fitted  whether fit() has produced learned attributes on it;
     gen     the learned state as an abstract token: 0 when unfitted, otherwise the token of the (cfg, data)
             it was fitted with (a fit is a function of configuration and data: C16).

   Actions (each is one public call):
     Construct(c)      a new object with configuration c
     SetParam(i, k, v) set_params(k=v) on object i: visible in get_params(), nothing else changes
     Fit(i, d)         fit on data set d: learned state := F(cfg, d); THE CONFIGURATION IS NOT TOUCHED
     Clone(i)          sklearn.base.clone: a new UNFITTED object with an equal configuration
     Copy(i)           copy.deepcopy / pickle round trip: a new object equal in configuration AND learned state

   As-implemented exceptions, modelled by the constant Fills (parameters that fit() itself fills in when they were
   left at None, by design: ISV/JFA build and keep a UBM from ubm_kwargs): Fit may change those and only those, and
   only from the value "none".

   Named deviations (each must be refuted):
     FIT_OVERWRITES_PARAM    fit() rewrites a hyper-parameter that was set
     CLONE_DROPS_PARAM       clone() leaves one parameter at its default
     COPY_DROPS_LEARNED      a pickled / deep-copied object comes back unfitted
     SETPARAM_NOT_VISIBLE    set_params() stores the value somewhere get_params() / fit() do not read          *)
EXTENDS Integers, Sequences, FiniteSets, TLC, Json

CONSTANTS Params,        \* parameter names
          Vals,          \* abstract values a parameter can take ("none" is the default of fillable parameters)
          Fills,         \* subset of Params that fit() may fill in when "none"
          DataSets,      \* ids of training sets
          Clonable,      \* FALSE for classes whose constructor needs a TRAINED nested estimator (IVectorMachine's ubm):
                         \* sklearn's clone() clones nested estimators unfitted, so clone() raises -- as implemented
          Refit,         \* TRUE: fit() on a fitted object starts afresh (k-means, WCCN, whitening, i-vector);
                         \* FALSE: it continues from the learned state (GMM, ISV, JFA: GmmFit.tla, Determinism.tla),
                         \* which is another question -- such objects are fitted once in this model
          MaxObjs, MaxLen,
          Dev

VARIABLES objs, hist
vars == <<objs, hist>>

Default == [k \in Params |-> IF k \in Fills THEN "none" ELSE "d"]
Cfgs == [Params -> Vals]
Settable(k) == IF k \in Fills THEN {"none", "x"} ELSE {"d", "x"}
CtorCfgs == {c \in Cfgs : \A k \in Params : c[k] \in Settable(k)}
Learned(c, d) == <<c, d>>                    \* the token of what fit learns
NoState == <<>>

Obj(c, f, g) == [cfg |-> c, fitted |-> f, gen |-> g]

Init == objs = <<>> /\ hist = <<>>

Log(a, i, j, extra) == hist' = Append(hist, [a |-> a, i |-> i, j |-> j, x |-> extra])

Construct == \E c \in CtorCfgs :
    /\ Len(objs) < MaxObjs /\ Len(hist) < MaxLen
    /\ objs' = Append(objs, Obj(c, FALSE, NoState))
    /\ Log("Construct", Len(objs) + 1, 0, c)

SetParam == \E i \in 1..Len(objs), k \in Params : \E v \in Settable(k) :
    /\ Len(hist) < MaxLen
    /\ objs[i].cfg[k] # v
    /\ objs' = [objs EXCEPT ![i].cfg = IF "SETPARAM_NOT_VISIBLE" \in Dev /\ k = CHOOSE p \in Params : TRUE
                                       THEN @ ELSE [@ EXCEPT ![k] = v]]
    /\ Log("SetParam", i, 0, <<k, v>>)

FilledBy(c) == [k \in Params |-> IF k \in Fills /\ c[k] = "none" THEN "filled" ELSE c[k]]
FitCfg(c) == IF "FIT_OVERWRITES_PARAM" \in Dev
             THEN [FilledBy(c) EXCEPT ![CHOOSE p \in Params \ Fills : TRUE] = "d"]
             ELSE FilledBy(c)
Fit == \E i \in 1..Len(objs), d \in DataSets :
    /\ Len(hist) < MaxLen
    /\ Refit \/ ~objs[i].fitted
    /\ objs' = [objs EXCEPT ![i] = Obj(FitCfg(@.cfg), TRUE, Learned(@.cfg, d))]
    /\ Log("Fit", i, 0, d)

CloneCfg(c) == IF "CLONE_DROPS_PARAM" \in Dev
               THEN [c EXCEPT ![CHOOSE p \in Params \ Fills : TRUE] = Default[CHOOSE p \in Params \ Fills : TRUE]]
               ELSE c
Clone == \E i \in 1..Len(objs) :
    /\ Clonable
    /\ Len(objs) < MaxObjs /\ Len(hist) < MaxLen
    /\ objs' = Append(objs, Obj(CloneCfg(objs[i].cfg), FALSE, NoState))
    /\ Log("Clone", i, Len(objs) + 1, 0)

Copy == \E i \in 1..Len(objs), how \in {"deepcopy", "pickle"} :
    /\ Len(objs) < MaxObjs /\ Len(hist) < MaxLen
    /\ objs' = Append(objs, IF "COPY_DROPS_LEARNED" \in Dev /\ how = "pickle"
                            THEN Obj(objs[i].cfg, FALSE, NoState) ELSE objs[i])
    /\ Log("Copy", i, Len(objs) + 1, how)

Next == Construct \/ SetParam \/ Fit \/ Clone \/ Copy
Spec == Init /\ [][Next]_vars

\* ---------------- properties
Last == hist'[Len(hist')]
Stepped == Len(hist') = Len(hist) + 1
\* fit() never rewrites a hyper-parameter that was set: it only fills fillable parameters left at "none"
FitKeepsConfiguration ==
    [][Stepped /\ Last.a = "Fit" =>
        \A k \in Params : \/ objs'[Last.i].cfg[k] = objs[Last.i].cfg[k]
                          \/ (k \in Fills /\ objs[Last.i].cfg[k] = "none")]_vars
\* a clone is unfitted and equal in configuration
CloneIsUnfittedTwin ==
    [][Stepped /\ Last.a = "Clone" =>
        /\ objs'[Last.j].cfg = objs[Last.i].cfg /\ ~objs'[Last.j].fitted /\ objs'[Last.j].gen = NoState
        /\ objs'[Last.i] = objs[Last.i]]_vars
\* a copy is equal in everything, and the original is untouched
CopyIsTwin ==
    [][Stepped /\ Last.a = "Copy" => objs'[Last.j] = objs[Last.i] /\ objs'[Last.i] = objs[Last.i]]_vars
\* set_params is visible through the configuration and touches nothing else
SetParamVisible ==
    [][Stepped /\ Last.a = "SetParam" =>
        /\ objs'[Last.i].cfg[Last.x[1]] = Last.x[2]
        /\ \A k \in Params \ {Last.x[1]} : objs'[Last.i].cfg[k] = objs[Last.i].cfg[k]
        /\ objs'[Last.i].fitted = objs[Last.i].fitted /\ objs'[Last.i].gen = objs[Last.i].gen]_vars
\* objects do not influence each other
NoCrossTalk ==
    [][Stepped => \A n \in 1..Len(objs) : (n # Last.i /\ n # Last.j) => objs'[n] = objs[n]]_vars
\* what an object has learned is a function of the configuration it had when fitted and of the data
LearnedIsFunctionOfCfgAndData ==
    \A n \in 1..Len(objs) : objs[n].fitted =>
        \E c \in [Params -> Vals \cup {"filled"}], d \in DataSets : objs[n].gen = Learned(c, d)

\* ---------------- export of complete behaviours (M2)
Export == IF Len(hist) = MaxLen
          THEN PrintT(ToJson([h |-> hist, o |-> [n \in 1..Len(objs) |-> [cfg |-> objs[n].cfg, fitted |-> objs[n].fitted,
                                                                      gen |-> objs[n].gen]]]))
          ELSE TRUE
=============================================================================
