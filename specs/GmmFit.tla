------------------------------- MODULE GmmFit -------------------------------
(* Control flow of GMMMachine.fit around the EM loop (gmm.py:710-742 initialize_gaussians,
   :786-867 fit): which initialisation runs, and how successive calls compose.  Parameters are
   abstracted to provenance tags:
      "unset" | "user" (assigned through a setter) | "prior" (copied from the UBM) |
      "kmeans" (derived from the k-means result) | "ones" (the default variances) |
      <<"em", base, k>> (base parameters after k EM iterations)
   The EM loop itself (stopping rule, ascent) is TrainLoop's / GmmMStep's subject; here every fit runs
   without a threshold, so a fit with cap k performs exactly k iterations.

     fit:  if means are unset:        MAP -> means, variances, floors, weights := prior's
                                      ML  -> k-means on the data; means, variances, weights := derived
           if variances still unset:  variances := ones
           then k iterations of EM on whatever is in place (no re-initialisation)

     initialize_gaussians() called by the user on a MAP machine (any time, also after training): means,
           variances, floors AND weights := prior's -- the machine is the prior again, and training starts over

   Named deviations: FIT_REINITIALISES_EVERY_CALL, REINIT_KEEPS_WEIGHTS.          *)
EXTENDS Integers, Sequences, TLC, Json

CONSTANTS Caps,         \* iteration caps of a fit call
          MaxCalls,
          Dev

VARIABLES trainer, means, vars, wts, iters, hist
fvars == <<trainer, means, vars, wts, iters, hist>>

\* an ML machine is born without Gaussians; a MAP machine is born with its prior's (the constructor copies
\* them), so through the public API its means and variances are never unset
Init == /\ trainer \in {"ml", "map"}
        /\ means \in (IF trainer = "map" THEN {"prior", "user"} ELSE {"unset", "user"})
        /\ vars \in (IF trainer = "map" THEN {"prior", "user"} ELSE {"unset", "user"})
        /\ wts = (IF trainer = "map" THEN "prior" ELSE "default")
        /\ iters = 0 /\ hist = <<>>

InitMeans == IF trainer = "map" THEN "prior" ELSE "kmeans"
Fit(k) ==
    /\ Len(hist) < MaxCalls
    /\ LET reinit == means = "unset" \/ "FIT_REINITIALISES_EVERY_CALL" \in Dev
           m1 == IF reinit THEN InitMeans ELSE means
           v1 == IF reinit
                 THEN (IF trainer = "map" /\ "MAP_INIT_KEEPS_USER_VARIANCES" \in Dev /\ vars = "user" THEN "user" ELSE InitMeans)
                 ELSE vars
           v2 == IF v1 = "unset" THEN "ones" ELSE v1
           i1 == IF reinit THEN 0 ELSE iters
           w1 == IF reinit THEN InitMeans ELSE wts
       IN /\ means' = m1 /\ vars' = v2 /\ iters' = i1 + k
          /\ wts' = (IF k > 0 THEN "trained" ELSE w1)                 \* (every switch is on in this model)
          /\ hist' = Append(hist, [op |-> "fit", cap |-> k, means0 |-> m1, vars0 |-> v2, wts0 |-> w1, reinit |-> reinit,
                                   total |-> i1 + k])
    /\ UNCHANGED trainer
\* the user re-initialises a MAP machine: it is its prior again
Reinit ==
    /\ trainer = "map" /\ Len(hist) < MaxCalls /\ Len(hist) >= 1
    /\ means' = "prior" /\ vars' = "prior" /\ iters' = 0
    /\ wts' = (IF "REINIT_KEEPS_WEIGHTS" \in Dev THEN wts ELSE "prior")
    /\ hist' = Append(hist, [op |-> "reinit", cap |-> 0, means0 |-> "prior", vars0 |-> "prior", wts0 |-> wts', reinit |-> FALSE,
                             total |-> 0])
    /\ UNCHANGED trainer
Next == (\E k \in Caps : Fit(k)) \/ Reinit
Spec == Init /\ [][Next]_fvars

\* the initialisation runs only on a machine whose means were never set
InitOnlyWhenMeansUnset == \A i \in 1..Len(hist) : hist[i].reinit => (i = 1 /\ hist[i].means0 \in {"prior", "kmeans"})
\* later calls continue from the parameters in place: fit(k1); fit(k2) is fit(k1 + k2)
FitsCompose == \A i \in 2..Len(hist) : hist[i].op = "fit" =>
                   /\ hist[i].total = hist[i - 1].total + hist[i].cap /\ hist[i].means0 = hist[i - 1].means0
\* after a re-initialisation the machine is its prior in every parameter, and the next fit starts over from it
ReinitRestoresPrior == \A i \in 1..Len(hist) : hist[i].op = "reinit" =>
                           hist[i].means0 = "prior" /\ hist[i].vars0 = "prior" /\ hist[i].wts0 = "prior"
\* a MAP machine starts from its prior, whatever was assigned to its variances before (the prior is copied whole)
MapStartsFromPrior == (trainer = "map" /\ Len(hist) >= 1) =>
                          /\ ~hist[1].reinit                          \* nothing to initialise: training starts from what is in place
                          /\ hist[1].means0 \in {"prior", "user"} /\ hist[1].vars0 \in {"prior", "user"}
\* explicit means without variances: variances default to ones, means are kept
DefaultVariances == (Len(hist) >= 1 /\ ~hist[1].reinit) => hist[1].vars0 \in {"user", "ones", "prior"}

Export == Len(hist) = MaxCalls => PrintT(ToJson([trainer |-> trainer, hist |-> hist]))
=============================================================================
