------------------------------- MODULE GmmFit -------------------------------
(* Control flow of GMMMachine.fit around the EM loop (gmm.py:710-742 initialize_gaussians,
   :786-867 fit): which initialisation runs, and how successive calls compose.  Parameters are
   abstracted to provenance tags:
      "unset" | "user" (assigned through a setter) | "prior" (copied from the UBM) |
      "kmeans" (derived from the k-means result) | "ones" (the default variances) |
      <<"em", base, k>> (base parameters after k EM iterations)
   The EM loop itself (stopping rule, ascent) is TrainLoop's / GmmMStep's subject; here every fit runs
   without a threshold, so a fit with cap k performs exactly k iterations.

     fit:  if means are unset:        MAP -> means, variances, floors, weights := prior's
                                      ML  -> k-means on the data; means, variances, weights := derived
           if variances still unset:  variances := ones
           then k iterations of EM on whatever is in place (no re-initialisation)

   Named deviation: FIT_REINITIALISES_EVERY_CALL.          *)
EXTENDS Integers, Sequences, TLC, Json

CONSTANTS Caps,         \* iteration caps of a fit call
          MaxCalls,
          Dev

VARIABLES trainer, means, vars, iters, hist
fvars == <<trainer, means, vars, iters, hist>>

\* an ML machine is born without Gaussians; a MAP machine is born with its prior's (the constructor copies
\* them), so through the public API its means and variances are never unset
Init == /\ trainer \in {"ml", "map"}
        /\ means \in (IF trainer = "map" THEN {"prior", "user"} ELSE {"unset", "user"})
        /\ vars \in (IF trainer = "map" THEN {"prior", "user"} ELSE {"unset", "user"})
        /\ iters = 0 /\ hist = <<>>

InitMeans == IF trainer = "map" THEN "prior" ELSE "kmeans"
Fit(k) ==
    /\ Len(hist) < MaxCalls
    /\ LET reinit == means = "unset" \/ "FIT_REINITIALISES_EVERY_CALL" \in Dev
           m1 == IF reinit THEN InitMeans ELSE means
           v1 == IF reinit
                 THEN (IF trainer = "map" /\ "MAP_INIT_KEEPS_USER_VARIANCES" \in Dev /\ vars = "user" THEN "user" ELSE InitMeans)
                 ELSE vars
           v2 == IF v1 = "unset" THEN "ones" ELSE v1
           i1 == IF reinit THEN 0 ELSE iters
       IN /\ means' = m1 /\ vars' = v2 /\ iters' = i1 + k
          /\ hist' = Append(hist, [cap |-> k, means0 |-> m1, vars0 |-> v2, reinit |-> reinit, total |-> i1 + k])
    /\ UNCHANGED trainer
Next == \E k \in Caps : Fit(k)
Spec == Init /\ [][Next]_fvars

\* the initialisation runs only on a machine whose means were never set
InitOnlyWhenMeansUnset == \A i \in 1..Len(hist) : hist[i].reinit => (i = 1 /\ hist[i].means0 \in {"prior", "kmeans"})
\* later calls continue from the parameters in place: fit(k1); fit(k2) is fit(k1 + k2)
FitsCompose == \A i \in 2..Len(hist) : hist[i].total = hist[i - 1].total + hist[i].cap /\ hist[i].means0 = hist[i - 1].means0
\* a MAP machine starts from its prior, whatever was assigned to its variances before (the prior is copied whole)
MapStartsFromPrior == (trainer = "map" /\ Len(hist) >= 1) =>
                          /\ ~hist[1].reinit                          \* nothing to initialise: training starts from what is in place
                          /\ hist[1].means0 \in {"prior", "user"} /\ hist[1].vars0 \in {"prior", "user"}
\* explicit means without variances: variances default to ones, means are kept
DefaultVariances == (Len(hist) >= 1 /\ ~hist[1].reinit) => hist[1].vars0 \in {"user", "ones", "prior"}

Export == Len(hist) = MaxCalls => PrintT(ToJson([trainer |-> trainer, hist |-> hist]))
=============================================================================
