------------------------------ MODULE Ownership ------------------------------
(* Who owns which array, and what every public entry point of bob.learn.em may do with it (C19).

   A heap of CELLS (one cell = one array / label sequence).  Every cell has an owner:
     caller   X (training / probe array), y (labels), init (initial centroids given to k-means),
              mm (model means given to linear_scoring), z (enrolled latent model given to score),
              two statistics objects s1 (the FIRST of the caller's list) and s2 (every other one),
              each owning the arrays n, sum_px, sum_pxx, and a trained prior / UBM machine owning
              means pm, variances pv, weights pw;
     library  one fresh cell L_k for whatever the k-th call returns (all arrays of one returned object
              are one cell; `alias` says where the arrays of a returned object live).
   The content of a cell is an abstract VALUE-TAG, a sequence of naturals:
     caller cell   <<v>>, v counting the changes the cell went through;  cver[c] counts the changes the
                   CALLER asked for, so "val[c] = <<cver[c]>>" says nobody else wrote the cell;
     library cell  <<entry point, argument, input form>> \o (values of the cells read) \o (content of
                   the machine used): a result is a function of what was read to compute it.

   One action per public entry point, with its EFFECT SUMMARY (cells read / written / aliased by the
   result) transcribed from the code:
     kmeans.py :306-323 initialize (k_init returns the GIVEN array when init is an array), :325-392 fit
               (every iteration rebinds centroids_ to the quotient computed by m_step :106-138),
               :394-424 transform / predict, :264-304 get_variances_and_weights_for_each_cluster;
     gmm.py    :504-510 prior deep-copied at construction, :724-735 and at initialize_gaussians,
               :153-172 m_step reduces with functools.reduce(operator.iadd, ..) the statistics the
               E-step has just created, :896-1020 the M-steps assign new arrays through the setters
               (the variances setter always stores np.maximum(..), a new array), :883-893 acc_stats /
               transform, :306-335 GMMStats + (new object) and += (left operand);
     linear_scoring.py :52-87 builds new arrays from everything it is given;
     factor_analysis.py :47-55 reduce_iadd on accumulators computed by the E-steps, :294-361 n_acc /
               f_acc are new arrays, :1459-1513 / :2125-2245 fit, :1269-1320 *_using_array,
               :1519-1566 / :2061-2123 enroll, :1589-1635 / :2247-2296 score (probe statistics pooled
               with sum(data[1:], start=data[0]), i.e. GMMStats.__add__), :1182-1246 estimate_x / ux;
     ivector.py :134-178 e_step rebinds the accumulators (stats.x = stats.x + ..), :271-334 fit (sigma
               is a deep copy of the UBM variances), :336-371 project / transform;
     wccn.py :42-91, whitening.py :48-80 fit (new arrays only) and transform.
   plus the caller's own moves: CallerOverwrites(cell) (arr[...] = something else) and s1 += s2.

   Named deviations (each must make TLC fail):
     KMEANS_INIT_ALIASED_AT_ZERO_ITER  with max_iter = 0 the loop body never runs: centroids_ IS the
                                       caller's init array
     MAP_SHARES_PRIOR_ARRAYS           the MAP machine stores the prior's means / weights arrays
                                       themselves (no deep copy)
     SCORE_POOLS_IN_PLACE              score pools the probe statistics with +=  (writes data[0])
     FIT_CENTRES_X_IN_PLACE            a fit centres the training array in place (X -= X.mean(0))
     IVECTOR_ESTEP_IN_PLACE            the i-vector E-step starts its accumulator from the first
                                       statistic's n and adds to it in place
     STATS_ADD_EMPTY_ALIASES_OPERAND   `a + b` with an empty (zero) operand returns an object built around
                                       the other operand's arrays
     STATS_IADD_EMPTY_ADOPTS_OPERAND   `acc += s` into an empty accumulator adopts s's arrays, so the next
                                       `+=` writes into the caller's s                                  *)
EXTENDS Naturals, Sequences, FiniteSets, TLC, Json

CONSTANTS Families,         \* subset of {"kmeans", "gmm", "stats", "isv", "jfa", "ivector", "linear"}
          Kinds,            \* subset of {"numpy", "dask"}: the form of every array / list input of a behaviour
          MaxLen,           \* calls per behaviour (<= 3)
          MaxOverwrites,    \* CallerOverwrites steps per behaviour
          Dev               \* named deviations

VARIABLES fam, kind,        \* scenario
          val,              \* [Cells -> Seq(Nat)] content tags
          cver,             \* [CallerCells -> Nat] changes requested by the caller
          hist              \* one record per call: what it was, what it returned, what it did
vars == <<fam, kind, val, cver, hist>>

S1 == {"s1n", "s1px", "s1pxx"}
S2 == {"s2n", "s2px", "s2pxx"}
Prior == {"pm", "pv", "pw"}
CellOrder == <<"X", "y", "init", "mm", "z", "s1n", "s1px", "s1pxx", "s2n", "s2px", "s2pxx", "pm", "pv", "pw">>
Lib == <<"L1", "L2", "L3">>
CallerCells == {CellOrder[i] : i \in 1..Len(CellOrder)}
LibCells == {Lib[i] : i \in 1..Len(Lib)}
Cells == CallerCells \cup LibCells
AllOrder == CellOrder \o Lib
ASSUME MaxLen <= Len(Lib)

\* the caller-owned cells a family of entry points can be given (the ones the caller may overwrite later)
FamCells(f) == CASE f = "kmeans"  -> {"X", "init"}
                 [] f = "gmm"     -> {"X"} \cup Prior
                 [] f = "stats"   -> S1 \cup S2 \cup Prior \cup {"mm"}
                 [] f \in {"isv", "jfa"} -> {"X", "y", "z"} \cup S1 \cup S2 \cup Prior
                 [] f = "ivector" -> S1 \cup S2 \cup Prior
                 [] f = "linear"  -> {"X", "y"}
DaskFams == {"kmeans", "gmm", "isv", "jfa", "ivector", "linear"}

OpNames == <<"KMeansFit", "KMeansTransform", "KMeansPredict", "KMeansVarWeights",
             "GmmFitML", "MapConstruct", "GmmFitMAP", "GmmAccStats", "GmmTransform", "GmmLogLikelihood",
             "StatsAdd", "StatsIAdd", "LinearScoring",
             "FaFit", "FaFitUsingArray", "FaEnroll", "FaEnrollUsingArray", "FaScore", "FaScoreUsingArray",
             "FaEstimateX", "FaEstimateUx", "IsvTransform",
             "IvFit", "IvProject", "IvTransform",
             "WccnFit", "WccnTransform", "WhiteningFit", "WhiteningTransform", "CallerOverwrites">>
Forms == <<"numpy", "dask", "list", "bag", "single", "nested", "array", "machines", "construct", "initialize">>
Idx(seq, x) == CHOOSE i \in 1..Len(seq) : seq[i] = x

\* serialisation of the cells of R (in the fixed order, each preceded by its position) under f
RECURSIVE SerFrom(_, _, _)
SerFrom(i, R, f) == IF i > Len(CellOrder) THEN <<>>
                    ELSE (IF CellOrder[i] \in R THEN <<i>> \o f[CellOrder[i]] ELSE <<>>) \o SerFrom(i + 1, R, f)
\* content of a returned object: the values of the cells its arrays live in (positions omitted, so that two
\* objects computed the same way from the same values have the same content wherever they were allocated)
RECURSIVE SerCells(_, _)
SerCells(i, R) == IF i > Len(AllOrder) THEN <<>>
                  ELSE (IF AllOrder[i] \in R THEN val[AllOrder[i]] ELSE <<>>) \o SerCells(i + 1, R)
CV == [c \in CallerCells |-> <<cver[c]>>]

Moved(nval) == {i \in 1..Len(hist) : hist[i].rk = "model" /\ \E c \in hist[i].alias : nval[c] # val[c]}
Models(ops) == {i \in 1..Len(hist) : hist[i].op \in ops}
NOverwrites == Cardinality({i \in 1..Len(hist) : hist[i].op = "CallerOverwrites"})
ArrForm == kind                                         \* array inputs: NumPy array / Dask array
LstForm == IF kind = "dask" THEN "bag" ELSE "list"      \* lists of statistics: list / dask.bag

Step(rec, nval, ncver) == /\ Len(hist) < MaxLen
                          /\ hist' = Append(hist, rec) /\ val' = nval /\ cver' = ncver
                          /\ UNCHANGED <<fam, kind>>

(* A call of entry point `op` (argument arg, input form `form`) on machine m (an index into hist, 0 when the
   entry point builds its own machine or uses the caller's prior), returning a trained machine (rk = "model")
   or a value; it reads the caller cells `reads` and the machine's cells, writes `writes` (empty unless a
   deviation is on) and returns an object whose arrays live in `alias`.                                     *)
Call(op, arg, form, m, rk, reads, writes, alias) ==
    LET k == Len(hist) + 1
        L == Lib[k]
        mcells == IF m = 0 THEN {} ELSE hist[m].alias
        tag == <<Idx(OpNames, op), arg, Idx(Forms, form)>> \o SerFrom(1, reads, val) \o <<0>> \o SerCells(1, mcells)
        nval == [c \in Cells |-> IF c = L /\ L \in alias THEN tag
                                 ELSE IF c \in writes THEN <<val[c][1] + 100>> ELSE val[c]]
    IN /\ Len(hist) < MaxLen
       /\ Step([op |-> op, arg |-> arg, form |-> form, cell |-> "", m |-> m, rk |-> rk,
                alias |-> alias, tag |-> tag, decl |-> SerFrom(1, reads, CV), asked |-> {},
                written |-> {c \in CallerCells : nval[c] # val[c]}, moved |-> Moved(nval),
                same |-> {i \in 1..Len(hist) : hist[i].rk # "none" /\ hist[i].tag = tag}], nval, cver)
Fresh == {Lib[Len(hist) + 1]}
On(d, S) == IF d \in Dev THEN S ELSE {}

\* ------------------------------------------------------------------ k-means
KMeansFit(it) == /\ fam = "kmeans"
                 /\ Call("KMeansFit", it, ArrForm, 0, "model", {"X", "init"}, On("FIT_CENTRES_X_IN_PLACE", {"X"}),
                         IF it = 0 /\ "KMEANS_INIT_ALIASED_AT_ZERO_ITER" \in Dev THEN {"init"} ELSE Fresh)
KMeansUse(op, m) == /\ fam = "kmeans" /\ m \in Models({"KMeansFit"})
                    /\ Call(op, 0, ArrForm, m, "value", {"X"}, {}, Fresh)
KMeansTransform(m) == KMeansUse("KMeansTransform", m)
KMeansPredict(m) == KMeansUse("KMeansPredict", m)
KMeansVarWeights(m) == KMeansUse("KMeansVarWeights", m)

\* ------------------------------------------------------------------ GMM
\* ML training from explicitly set parameters (the arrays given to the setters are handed over: not caller cells)
GmmFitML == /\ fam = "gmm"
            /\ Call("GmmFitML", 0, ArrForm, 0, "model", {"X"}, On("FIT_CENTRES_X_IN_PLACE", {"X"}), Fresh)
\* GMMMachine(trainer="map", ubm=prior) [, then initialize_gaussians()]
MapConstruct(form) == /\ fam = "gmm" /\ form \in {"construct", "initialize"}
                      /\ Call("MapConstruct", 0, form, 0, "model", Prior, {},
                              Fresh \cup On("MAP_SHARES_PRIOR_ARRAYS", {"pm", "pw"}))
\* MAP adaptation; all = 0: means only (the weights stay what construction made them), all = 1: all three updated
GmmFitMAP(all) == /\ fam = "gmm" /\ all \in {0, 1}
                  /\ Call("GmmFitMAP", all, ArrForm, 0, "model", {"X"} \cup Prior, {},
                          Fresh \cup (IF all = 0 THEN On("MAP_SHARES_PRIOR_ARRAYS", {"pw"}) ELSE {}))
GmmUse(op, m) == /\ fam = "gmm" /\ m \in Models({"GmmFitML", "MapConstruct", "GmmFitMAP"}) \cup {0}
                 /\ Call(op, 0, ArrForm, m, "value", {"X"} \cup (IF m = 0 THEN Prior ELSE {}), {}, Fresh)
GmmAccStats(m) == GmmUse("GmmAccStats", m)
GmmTransform(m) == GmmUse("GmmTransform", m)
GmmLogLikelihood(m) == GmmUse("GmmLogLikelihood", m)

\* ------------------------------------------------------------------ statistics, linear scoring
\* a = 0: the caller's statistics added with `+`; a = 1: the reduction starts from an EMPTY container (zero statistics,
\* the usual seed of a sum) on the left; a = 2: an empty container on the right.  Whatever the operands hold, `+`
\* returns a new object in the library's own memory (deviation STATS_ADD_EMPTY_ALIASES_OPERAND: with an empty operand
\* the result is built around the other operand's arrays)
StatsAdd(a) == fam = "stats" /\ Call("StatsAdd", a, "numpy", 0, "value", S1 \cup S2, {},
                                    IF a > 0 /\ "STATS_ADD_EMPTY_ALIASES_OPERAND" \in Dev THEN S1 ELSE Fresh)
\* the caller's statistics accumulated with `+=` into a new, empty container of the caller's: the container is the
\* result, the operands are only read (an accumulator that adopts its first operand's arrays would write into them
\* from the second `+=` on)
StatsAccumulate == fam = "stats" /\ Call("StatsIAdd", 1, "numpy", 0, "value", S1 \cup S2,
                                         On("STATS_IADD_EMPTY_ADOPTS_OPERAND", S1), Fresh)
\* s1 += s2: the caller asks for s1 to be changed; nothing is returned but s1 itself
StatsIAdd == /\ fam = "stats"
             /\ LET nval == [c \in Cells |-> IF c \in S1 THEN <<cver[c] + 1>> ELSE val[c]]
                IN Step([op |-> "StatsIAdd", arg |-> 0, form |-> "numpy", cell |-> "", m |-> 0, rk |-> "none",
                         alias |-> {}, tag |-> <<>>, decl |-> <<>>, asked |-> S1,
                         written |-> {c \in CallerCells : nval[c] # val[c]}, moved |-> Moved(nval), same |-> {}],
                        nval, [c \in CallerCells |-> IF c \in S1 THEN cver[c] + 1 ELSE cver[c]])
LinearScoring(form) == /\ fam = "stats" /\ form \in {"array", "machines"}
                       /\ Call("LinearScoring", 0, form, 0, "value",
                               S1 \cup S2 \cup Prior \cup (IF form = "array" THEN {"mm"} ELSE {}), {}, Fresh)

\* ------------------------------------------------------------------ ISV / JFA (the UBM is the caller's trained prior)
Fa == fam \in {"isv", "jfa"}
FaModels == Models({"FaFit", "FaFitUsingArray"})
FaFit == Fa /\ Call("FaFit", 0, LstForm, 0, "model", S1 \cup S2 \cup {"y"} \cup Prior, {}, Fresh)
FaFitUsingArray == Fa /\ Call("FaFitUsingArray", 0, ArrForm, 0, "model", {"X", "y"} \cup Prior, {}, Fresh)
FaEnroll(m) == Fa /\ m \in FaModels /\ Call("FaEnroll", 0, "list", m, "value", S1 \cup S2 \cup Prior, {}, Fresh)
FaEnrollUsingArray(m) == Fa /\ m \in FaModels /\ Call("FaEnrollUsingArray", 0, "numpy", m, "value", {"X"} \cup Prior, {}, Fresh)
\* single: [s1];  list: [s1, s2...];  nested: [[s1, ..], [.., s2]]
FaScore(m, form) == /\ Fa /\ m \in FaModels /\ form \in {"single", "list", "nested"}
                    /\ Call("FaScore", 0, form, m, "value",
                            {"z"} \cup S1 \cup (IF form = "single" THEN {} ELSE S2) \cup Prior,
                            IF form = "single" THEN {} ELSE On("SCORE_POOLS_IN_PLACE", S1), Fresh)
FaScoreUsingArray(m) == Fa /\ m \in FaModels /\ Call("FaScoreUsingArray", 0, "numpy", m, "value", {"z", "X"} \cup Prior, {}, Fresh)
FaEstimateX(m) == Fa /\ m \in FaModels /\ Call("FaEstimateX", 0, "list", m, "value", S1 \cup S2 \cup Prior, {}, Fresh)
FaEstimateUx(m) == Fa /\ m \in FaModels /\ Call("FaEstimateUx", 0, "list", m, "value", S1 \cup S2 \cup Prior, {}, Fresh)
IsvTransform(m) == fam = "isv" /\ m \in FaModels /\ Call("IsvTransform", 0, "numpy", m, "value", {"X"} \cup Prior, {}, Fresh)

\* ------------------------------------------------------------------ i-vectors
IvFit == fam = "ivector" /\ Call("IvFit", 0, LstForm, 0, "model", S1 \cup S2 \cup Prior,
                                 On("IVECTOR_ESTEP_IN_PLACE", {"s1n"}), Fresh)
IvProject(m) == fam = "ivector" /\ m \in Models({"IvFit"}) /\ Call("IvProject", 0, "single", m, "value", S1 \cup Prior, {}, Fresh)
IvTransform(m) == fam = "ivector" /\ m \in Models({"IvFit"}) /\ Call("IvTransform", 0, "list", m, "value", S1 \cup S2 \cup Prior, {}, Fresh)

\* ------------------------------------------------------------------ WCCN / whitening
WccnFit == fam = "linear" /\ Call("WccnFit", 0, ArrForm, 0, "model", {"X", "y"}, On("FIT_CENTRES_X_IN_PLACE", {"X"}), Fresh)
WccnTransform(m) == fam = "linear" /\ m \in Models({"WccnFit"}) /\ Call("WccnTransform", 0, ArrForm, m, "value", {"X"}, {}, Fresh)
WhiteningFit == fam = "linear" /\ Call("WhiteningFit", 0, ArrForm, 0, "model", {"X"}, On("FIT_CENTRES_X_IN_PLACE", {"X"}), Fresh)
WhiteningTransform(m) == fam = "linear" /\ m \in Models({"WhiteningFit"}) /\ Call("WhiteningTransform", 0, ArrForm, m, "value", {"X"}, {}, Fresh)

\* ------------------------------------------------------------------ the caller overwrites one of its arrays in place
\* (a Dask array has no memory the caller could write: X is only overwritten in NumPy behaviours)
CallerOverwrites(c) ==
    /\ c \in FamCells(fam) /\ ~(kind = "dask" /\ c = "X") /\ NOverwrites < MaxOverwrites
    /\ LET nval == [val EXCEPT ![c] = <<cver[c] + 1>>]
       IN Step([op |-> "CallerOverwrites", arg |-> 0, form |-> "numpy", cell |-> c, m |-> 0, rk |-> "none",
                alias |-> {}, tag |-> <<>>, decl |-> <<>>, asked |-> {c},
                written |-> {d \in CallerCells : nval[d] # val[d]}, moved |-> Moved(nval), same |-> {}],
               nval, [cver EXCEPT ![c] = @ + 1])

Init == /\ fam \in Families
        /\ kind \in (IF fam \in DaskFams THEN Kinds ELSE {"numpy"})
        /\ val = [c \in Cells |-> IF c \in CallerCells THEN <<0>> ELSE <<>>]
        /\ cver = [c \in CallerCells |-> 0]
        /\ hist = <<>>

Ms == 1..Len(hist)
Next == \/ \E it \in {0, 1, 3} : KMeansFit(it)
        \/ \E m \in Ms : KMeansTransform(m)
        \/ \E m \in Ms : KMeansPredict(m)
        \/ \E m \in Ms : KMeansVarWeights(m)
        \/ GmmFitML
        \/ \E f \in {"construct", "initialize"} : MapConstruct(f)
        \/ \E a \in {0, 1} : GmmFitMAP(a)
        \/ \E m \in Ms \cup {0} : GmmAccStats(m)
        \/ \E m \in Ms \cup {0} : GmmTransform(m)
        \/ \E m \in Ms \cup {0} : GmmLogLikelihood(m)
        \/ \E a \in 0..2 : StatsAdd(a)
        \/ StatsIAdd
        \/ StatsAccumulate
        \/ \E f \in {"array", "machines"} : LinearScoring(f)
        \/ FaFit
        \/ FaFitUsingArray
        \/ \E m \in Ms : FaEnroll(m)
        \/ \E m \in Ms : FaEnrollUsingArray(m)
        \/ \E m \in Ms, f \in {"single", "list", "nested"} : FaScore(m, f)
        \/ \E m \in Ms : FaScoreUsingArray(m)
        \/ \E m \in Ms : FaEstimateX(m)
        \/ \E m \in Ms : FaEstimateUx(m)
        \/ \E m \in Ms : IsvTransform(m)
        \/ IvFit
        \/ \E m \in Ms : IvProject(m)
        \/ \E m \in Ms : IvTransform(m)
        \/ WccnFit
        \/ \E m \in Ms : WccnTransform(m)
        \/ WhiteningFit
        \/ \E m \in Ms : WhiteningTransform(m)
        \/ \E c \in CallerCells : CallerOverwrites(c)
Spec == Init /\ [][Next]_vars

\* ---------------- properties (C19)
\* a caller-owned cell only ever changes because the caller asked for it (overwrite, explicit +=)
CallerCellsNeverWritten == /\ \A c \in CallerCells : val[c] = <<cver[c]>>
                           /\ \A k \in 1..Len(hist) : hist[k].written \subseteq hist[k].asked
\* no array of a returned / trained object lives in a caller-owned cell
ResultsDisjointFromInputs == \A k \in 1..Len(hist) : hist[k].rk # "none" => hist[k].alias \cap CallerCells = {}
\* the same call on the same machine with inputs the caller has not changed returns the same value
ReuseGivesSameResult ==
    \A i, j \in 1..Len(hist) :
        (/\ i < j /\ hist[i].rk # "none" /\ hist[i].op = hist[j].op /\ hist[i].arg = hist[j].arg
         /\ hist[i].form = hist[j].form /\ hist[i].m = hist[j].m /\ hist[i].decl = hist[j].decl)
        => hist[i].tag = hist[j].tag
\* what the caller does to its own arrays afterwards never changes a trained machine
LaterOverwriteDoesNotMoveModel == \A k \in 1..Len(hist) : hist[k].op \in {"CallerOverwrites", "StatsIAdd"} => hist[k].moved = {}
\* (stronger, also checked) a trained machine never changes at all: no entry point here re-trains one
ModelsNeverMove == \A k \in 1..Len(hist) : hist[k].moved = {}

\* ---------------- export of the complete behaviours (M2); every shorter behaviour is a prefix of one
Proj == [k \in 1..Len(hist) |->
            [op |-> hist[k].op, arg |-> hist[k].arg, form |-> hist[k].form, cell |-> hist[k].cell, m |-> hist[k].m,
             rk |-> hist[k].rk, alias |-> hist[k].alias \cap CallerCells, asked |-> hist[k].asked,
             written |-> hist[k].written, moved |-> hist[k].moved, same |-> hist[k].same]]
Export == Len(hist) = MaxLen => PrintT(ToJson([fam |-> fam, kind |-> kind, hist |-> Proj]))
=============================================================================
