------------------------------ MODULE GmmMStep ------------------------------
(* One M-step of GMM training from accumulated statistics (gmm.py:882-921 ml_gmm_m_step,
   :924-1002 map_gmm_m_step), exact rationals, one feature, C components.

   The statistics are those of N samples x_i with responsibilities r_i (component 1 gets r_i,
   component 2 gets 1 - r_i when C = 2), so they are always consistent.  Assignments go through
   the machine's setters: the variance is clamped by the variance floor.

   ML   weights n/T, means sum_px/n, variances = second moment about the mean LEFT IN PLACE
        (the updated mean when means are updated, the old mean otherwise), counts floored at `cthr`.
        Below the count floor the contract leaves the value open (any finite, floor-respecting value):
        the model marks those entries `free`.
        Deviation ML_VAR_ABOUT_OLD_MEAN transcribes  sum_pxx/n - mean^2  as the code had it, which is
        the central moment only when the mean in place is the data mean.
   MAP  alpha = n/(n+rel) (Reynolds) or the fixed ratio; weights blended and renormalised; means
        blended, prior kept without evidence; variances = blend of second moments minus the new mean
        squared (Reynolds eq. 13).
        Deviation MAP_VAR_PRIOR_MEAN_NOT_SQUARED transcribes the code: the prior second moment is
        taken as  var0 + mu0  instead of  var0 + mu0^2.                                              *)
EXTENDS Rat, TLC, Json

CONSTANTS N, C,
          Samples,      \* set of records [x, r]: x sequence of N integers, r sequence of N rationals in [0,1]
          OldMeans,     \* set of sequences of C rationals: the machine's means before the step (= prior means for MAP)
          OldVars,      \* likewise variances
          OldWeights,
          Kinds,        \* subset of {"ml", "map"}
          Rels,         \* relevance factors (positive rationals) and fixed ratios: records [reynolds, val]
          CThr,         \* count floor (mean_var_update_threshold)
          VFloors,      \* variance floors
          Scales, Shifts,
          Dev

VARIABLES smp, mu0, var0, w0, kind, rel, vfl, uw, um, uv,     \* scenario (mu0, var0, w0: the machine's parameters before
                                                             \* an ML step; the PRIOR's parameters for a MAP step)
          cur,                                                \* MAP: the machine's current means (a warm start may differ from the prior's)
          w, mu, var, free, done
vars == <<smp, mu0, var0, w0, kind, rel, vfl, uw, um, uv, cur, w, mu, var, free, done>>

Idx == 1..N
Comp == 1..C
Resp(s, i, c) == IF c = 1 THEN s.r[i] ELSE IF C = 2 THEN Sub(One, s.r[i]) ELSE Zero
Nn(s, c) == SumOver([i \in Idx |-> Resp(s, i, c)], Idx)
Px(s, c) == SumOver([i \in Idx |-> Mul(Resp(s, i, c), R(s.x[i]))], Idx)
Pxx(s, c) == SumOver([i \in Idx |-> Mul(Resp(s, i, c), R(s.x[i] * s.x[i]))], Idx)
\* second moment about m, straight from the samples (declarative side)
About(s, c, m) == SumOver([i \in Idx |-> Mul(Resp(s, i, c), Sq(Sub(R(s.x[i]), m)))], Idx)
ClampF(fl, v) == RMax(fl, v)
Clamp(v) == ClampF(vfl, v)

\* ---------------- ML
MLStepP(s, pm, pv, pw, fl) ==
    LET nthr == [c \in Comp |-> RMax(Nn(s, c), CThr)]
        below == [c \in Comp |-> Lt(Nn(s, c), CThr)]
        nw == IF uw THEN [c \in Comp |-> Div(nthr[c], R(N))] ELSE pw
        nm == IF um THEN [c \in Comp |-> Div(Px(s, c), nthr[c])] ELSE pm
        raw == [c \in Comp |->
                  IF "ML_VAR_ABOUT_OLD_MEAN" \in Dev
                  THEN Sub(Div(Pxx(s, c), nthr[c]), Sq(nm[c]))
                  ELSE Div(Add(Sub(Pxx(s, c), Mul(Mul(R(2), nm[c]), Px(s, c))), Mul(Nn(s, c), Sq(nm[c]))), nthr[c])]
        nv == IF uv THEN [c \in Comp |-> ClampF(fl, raw[c])] ELSE pv
    IN [w |-> nw, mu |-> nm, var |-> nv,
        free |-> [c \in Comp |-> below[c] /\ (um \/ uv \/ uw)]]
MLStep(s) == MLStepP(s, mu0, var0, w0, vfl)

\* ---------------- MAP
Alpha(s, c) == IF rel.reynolds THEN Div(Nn(s, c), Add(Nn(s, c), rel.val)) ELSE rel.val
MAPStepP(s, pm, pv, pw, fl, cm) ==
    LET a == [c \in Comp |-> Alpha(s, c)]
        none == [c \in Comp |-> Lt(Nn(s, c), CThr)]          \* no evidence for the component
        blendw == [c \in Comp |-> Add(Mul(a[c], Div(Nn(s, c), R(N))), Mul(Sub(One, a[c]), pw[c]))]
        gamma == SumOver(blendw, Comp)
        nw == IF uw THEN [c \in Comp |-> Div(blendw[c], gamma)] ELSE pw
        nm == IF um THEN [c \in Comp |-> IF none[c] THEN pm[c]
                                         ELSE Add(Mul(a[c], Div(Px(s, c), Nn(s, c))), Mul(Sub(One, a[c]), pm[c]))]
              ELSE cm       \* means not adapted: the machine's current means stay in place
        prior2 == [c \in Comp |-> IF "MAP_VAR_PRIOR_MEAN_NOT_SQUARED" \in Dev THEN Add(pv[c], pm[c])
                                                                             ELSE Add(pv[c], Sq(pm[c]))]
        raw == [c \in Comp |-> IF none[c] THEN Sub(prior2[c], Sq(nm[c]))
                               ELSE Sub(Add(Mul(a[c], Div(Pxx(s, c), Nn(s, c))), Mul(Sub(One, a[c]), prior2[c])), Sq(nm[c]))]
        nv == IF uv THEN [c \in Comp |-> ClampF(fl, raw[c])] ELSE pv
    IN [w |-> nw, mu |-> nm, var |-> nv, free |-> [c \in Comp |-> FALSE]]
MAPStep(s) == MAPStepP(s, mu0, var0, w0, vfl, cur)

Init == /\ smp \in Samples /\ mu0 \in OldMeans /\ var0 \in OldVars /\ w0 \in OldWeights
        /\ kind \in Kinds /\ rel \in Rels /\ vfl \in VFloors
        /\ uw \in BOOLEAN /\ um \in BOOLEAN /\ uv \in BOOLEAN /\ (uw \/ um \/ uv)
        /\ (kind = "ml" => rel = CHOOSE x \in Rels : TRUE)          \* irrelevant for ML: one representative
        /\ cur \in (IF kind = "map" THEN OldMeans ELSE {mu0})
        /\ w = w0 /\ mu = cur /\ var = var0 /\ free = [c \in Comp |-> FALSE] /\ done = FALSE

MStep == /\ ~done /\ done' = TRUE
         /\ LET res == IF kind = "ml" THEN MLStep(smp) ELSE MAPStep(smp)
            IN w' = res.w /\ mu' = res.mu /\ var' = res.var /\ free' = res.free
         /\ UNCHANGED <<smp, mu0, var0, w0, kind, rel, vfl, uw, um, uv, cur>>
Spec == Init /\ [][MStep]_vars

\* ---------------- properties
Evid(c) == ~Lt(Nn(smp, c), CThr)
\* C03: every enabled block is a stationary point of the EM auxiliary function at the values of the
\* blocks the step leaves in place (first-order conditions of a concave block)
MLStationary ==
    (done /\ kind = "ml") => \A c \in Comp : Evid(c) =>
        /\ um => Mul(mu[c], Nn(smp, c)) = Px(smp, c)
        /\ uv => var[c] = Clamp(Div(About(smp, c, mu[c]), Nn(smp, c)))
        /\ uw => w[c] = Div(Nn(smp, c), R(N))
\* C05: Reynolds blend, written as the normal equations of the relevance-penalised objective
MAPIsBlend ==
    (done /\ kind = "map" /\ rel.reynolds) => \A c \in Comp : Evid(c) =>
        /\ um => Mul(mu[c], Add(Nn(smp, c), rel.val)) = Add(Px(smp, c), Mul(rel.val, mu0[c]))
        /\ (uv /\ Lt(vfl, var[c])) =>
              Mul(Add(var[c], Sq(mu[c])), Add(Nn(smp, c), rel.val)) = Add(Pxx(smp, c), Mul(rel.val, Add(var0[c], Sq(mu0[c]))))
MAPFixedAlpha ==
    (done /\ kind = "map" /\ ~rel.reynolds) => \A c \in Comp : Evid(c) =>
        /\ um => mu[c] = Add(Mul(rel.val, Div(Px(smp, c), Nn(smp, c))), Mul(Sub(One, rel.val), mu0[c]))
        /\ (uv /\ Lt(vfl, var[c])) =>
              Add(var[c], Sq(mu[c])) = Add(Mul(rel.val, Div(Pxx(smp, c), Nn(smp, c))), Mul(Sub(One, rel.val), Add(var0[c], Sq(mu0[c]))))
\* adapted weights: the same blend, renormalised
MAPWeights ==
    (done /\ kind = "map" /\ uw) =>
        /\ SumOver(w, Comp) = One
        /\ (rel.reynolds /\ Lt(R(4), rel.val)) \/ \A c, d \in Comp :       \* proportional to the blend
              \* (cross-multiplied form; skipped for the large relevance factor, whose products leave 32 bits)
              Mul(w[c], Add(Mul(Alpha(smp, d), Div(Nn(smp, d), R(N))), Mul(Sub(One, Alpha(smp, d)), w0[d])))
            = Mul(w[d], Add(Mul(Alpha(smp, c), Div(Nn(smp, c), R(N))), Mul(Sub(One, Alpha(smp, c)), w0[c])))
\* a component without evidence keeps the prior's mean and variance
NoEvidenceKeepsPrior ==
    (done /\ kind = "map") => \A c \in Comp : ~Evid(c) =>
        /\ um => mu[c] = mu0[c]
        /\ (uv /\ um) => var[c] = Clamp(var0[c])
        /\ ~um => mu[c] = cur[c]
\* large relevance factor -> prior, small -> ML estimate (rational inequalities)
RelevanceLimits ==
    (done /\ kind = "map" /\ rel.reynolds /\ um) => \A c \in Comp : Evid(c) =>
        LET ex == Div(Px(smp, c), Nn(smp, c))
        IN /\ Leq(Mul(RAbs(Sub(mu[c], mu0[c])), rel.val), Mul(Nn(smp, c), RAbs(Sub(ex, mu0[c]))))
           /\ Leq(Mul(RAbs(Sub(mu[c], ex)), Nn(smp, c)), Mul(rel.val, RAbs(Sub(mu0[c], ex))))
\* C13
WeightsOnSimplex == done => /\ \A c \in Comp : ~Lt(w[c], Zero)
                            /\ ((\A c \in Comp : Evid(c)) => SumOver(w, Comp) = One)
VarAboveFloor == (done /\ uv) => \A c \in Comp : Leq(vfl, var[c]) /\ IsPos(var[c])
\* C15: x -> a x + b (statistics, old / prior parameters and floors transformed accordingly)
AffineEquivariant ==
    done => \A a \in Scales, b \in Shifts :
        a[2] = 1 =>     \* integer scales keep the samples integers
        LET s2 == [x |-> [i \in Idx |-> a[1] * smp.x[i] + b], r |-> smp.r]
            a2 == Sq(a)
            tm == [c \in Comp |-> Add(Mul(a, mu0[c]), R(b))]
            tv == [c \in Comp |-> Mul(a2, var0[c])]
            tc == [c \in Comp |-> Add(Mul(a, cur[c]), R(b))]
            res == IF kind = "ml" THEN MLStepP(s2, tm, tv, w0, Mul(a2, vfl)) ELSE MAPStepP(s2, tm, tv, w0, Mul(a2, vfl), tc)
        IN \A c \in Comp : ~free[c] =>
              /\ res.w[c] = w[c]
              /\ res.mu[c] = Add(Mul(a, mu[c]), R(b))
              \* (MAP with frozen means and adapted variances: Reynolds' eq. 13 with the mean in place is not
              \*  shift-equivariant by itself, so C05's formula and C15 cannot both be demanded there; C05 wins)
              /\ (kind = "map" /\ uv /\ ~um) \/ res.var[c] = Mul(a2, var[c])

Export == done => PrintT(ToJson([smp |-> smp, mu0 |-> mu0, var0 |-> var0, w0 |-> w0, kind |-> kind, rel |-> rel,
                                 vfl |-> vfl, uw |-> uw, um |-> um, uv |-> uv, cur |-> cur,
                                 n |-> [c \in Comp |-> Nn(smp, c)], px |-> [c \in Comp |-> Px(smp, c)],
                                 pxx |-> [c \in Comp |-> Pxx(smp, c)],
                                 w |-> w, mu |-> mu, var |-> var, free |-> free]))
=============================================================================
