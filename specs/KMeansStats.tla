----------------------------- MODULE KMeansStats -----------------------------
(* Nearest-centroid assignment and the cluster statistics used to initialise a GMM
   (kmeans.py:23-63 distances/argmin, :139-173 per-block accumulation and reduction,
   :262-302 get_variances_and_weights_for_each_cluster, gmm.py:710-742 hand-over).

   The scenario (data, row composition, centroids) is chosen in Init; then the public
   steps are taken one by one:  Transform (distance table) -> Predict (labels) ->
   Accumulate(b) for every block b in any order -> Reduce (weights and variances) ->
   InitGmm (the GMM starts from exactly these centroids, variances and weights).
   Ties are excluded from the domain, as the property says.                     *)
EXTENDS Rat, TLC, Json

CONSTANTS N, Dm, K,
          DataSets,     \* sequences of N integer points
          CentSets,     \* sequences of K integer points
          Comps,        \* compositions of N
          Shifts        \* integer translations used by TranslationInvariant

VARIABLES data, comp, cent,             \* scenario
          phase,                        \* "start" | "dist" | "pred" | "acc" | "red" | "gmm"
          dists,                        \* [1..K -> [1..N -> Rat]]  (one row per centroid, one column per sample)
          labels,                       \* [1..N -> 1..K]
          acc,                          \* per block: [cnt, s1, s2] or <<>> when not yet accumulated
          weights, variances,           \* results of the reduction
          gmm                           \* [means, variances, weights] handed to the GMM
vars == <<data, comp, cent, phase, dists, labels, acc, weights, variances, gmm>>

Idx == 1..N
Pt(i) == [j \in 1..Dm |-> R(data[i][j])]
Ct(k) == [j \in 1..Dm |-> R(cent[k][j])]
RECURSIVE PrefixLen(_, _)
PrefixLen(c, b) == IF b = 0 THEN 0 ELSE c[b] + PrefixLen(c, b - 1)
Blk(b) == (PrefixLen(comp, b - 1) + 1)..PrefixLen(comp, b)
Blocks == 1..Len(comp)

\* ---- declarative definitions
SqD(d, c, i, k) == SumOver([j \in 1..Dm |-> Sq(Sub(R(d[i][j]), R(c[k][j])))], 1..Dm)
NearestSet(d, c, i) == {k \in 1..K : \A j \in 1..K : Leq(SqD(d, c, i, k), SqD(d, c, i, j))}
NoTies(d, c) == \A i \in Idx : Cardinality(NearestSet(d, c, i)) = 1
LabelOf(d, c, i) == CHOOSE k \in NearestSet(d, c, i) : TRUE
MembersD(d, c, k) == {i \in Idx : LabelOf(d, c, i) = k}
MeanD(d, c, k, j) == Div(SumOver([i \in Idx |-> R(d[i][j])], MembersD(d, c, k)), R(Cardinality(MembersD(d, c, k))))
BiasedVar(d, c, k, j) ==      \* (1/n_k) * sum over the members of (x_j - mean_j)^2
    LET S == MembersD(d, c, k)
        m == MeanD(d, c, k, j)
    IN Div(SumOver([i \in Idx |-> Sq(Sub(R(d[i][j]), m))], S), R(Cardinality(S)))
Fraction(d, c, k) == Div(R(Cardinality(MembersD(d, c, k))), R(N))
Free == <<0, 0>>      \* marks a value the contract leaves open (variance of a cluster without samples)

Init == /\ data \in DataSets /\ cent \in CentSets /\ comp \in Comps
        /\ NoTies(data, cent)
        /\ phase = "start"
        /\ dists = <<>> /\ labels = <<>> /\ acc = [b \in Blocks |-> <<>>]
        /\ weights = <<>> /\ variances = <<>> /\ gmm = <<>>

\* KMeansMachine.transform
Transform == /\ phase = "start" /\ phase' = "dist"
             /\ dists' = [k \in 1..K |-> [i \in Idx |-> SqDist(Pt(i), Ct(k))]]
             /\ UNCHANGED <<data, comp, cent, labels, acc, weights, variances, gmm>>
\* KMeansMachine.predict: argmin over the rows of the distance table
Predict == /\ phase = "dist" /\ phase' = "pred"
           /\ labels' = [i \in Idx |-> CHOOSE k \in 1..K : \A j \in 1..K : Leq(dists[k][i], dists[j][i])]
           /\ UNCHANGED <<data, comp, cent, dists, acc, weights, variances, gmm>>
\* accumulate_indices_means_vars on one block (any order)
Accumulate(b) ==
    /\ phase \in {"pred", "acc"} /\ acc[b] = <<>> /\ phase' = "acc"
    /\ LET mem(k) == {i \in Blk(b) : labels[i] = k}
       IN acc' = [acc EXCEPT ![b] =
                     [cnt |-> [k \in 1..K |-> Cardinality(mem(k))],
                      s1 |-> [k \in 1..K |-> [j \in 1..Dm |-> SumOver([i \in Idx |-> R(data[i][j])], mem(k))]],
                      s2 |-> [k \in 1..K |-> [j \in 1..Dm |-> SumOver([i \in Idx |-> R(data[i][j] * data[i][j])], mem(k))]]]]
    /\ UNCHANGED <<data, comp, cent, dists, labels, weights, variances, gmm>>
\* reduce_indices_means_vars
Reduce ==
    /\ phase = "acc" /\ \A b \in Blocks : acc[b] # <<>> /\ phase' = "red"
    /\ LET cnt(k) == SumOver([b \in Blocks |-> R(acc[b].cnt[k])], Blocks)
           s1(k, j) == SumOver([b \in Blocks |-> acc[b].s1[k][j]], Blocks)
           s2(k, j) == SumOver([b \in Blocks |-> acc[b].s2[k][j]], Blocks)
       IN /\ weights' = [k \in 1..K |-> Div(cnt(k), R(N))]
          /\ variances' = [k \in 1..K |-> [j \in 1..Dm |->
                              IF IsZero(cnt(k)) THEN Free
                              ELSE Sub(Div(s2(k, j), cnt(k)), Sq(Div(s1(k, j), cnt(k))))]]
    /\ UNCHANGED <<data, comp, cent, dists, labels, acc, gmm>>
\* GMMMachine.initialize_gaussians
InitGmm == /\ phase = "red" /\ phase' = "gmm"
           /\ gmm' = [means |-> [k \in 1..K |-> Ct(k)], variances |-> variances, weights |-> weights]
           /\ UNCHANGED <<data, comp, cent, dists, labels, acc, weights, variances>>

Next == Transform \/ Predict \/ (\E b \in Blocks : Accumulate(b)) \/ Reduce \/ InitGmm
Spec == Init /\ [][Next]_vars

\* ---------------- properties (C20)
DistancesAreSquaredEuclidean ==
    phase # "start" => \A k \in 1..K, i \in Idx : dists[k][i] = SqD(data, cent, i, k) /\ ~Lt(dists[k][i], Zero)
LabelIsNearest == phase \notin {"start", "dist"} => \A i \in Idx : labels[i] \in NearestSet(data, cent, i)
WeightsAreFractions ==
    phase \in {"red", "gmm"} => /\ \A k \in 1..K : weights[k] = Fraction(data, cent, k)
                                /\ SumOver(weights, 1..K) = One
VarIsBiasedVar ==
    phase \in {"red", "gmm"} => \A k \in 1..K, j \in 1..Dm :
        MembersD(data, cent, k) # {} => /\ variances[k][j] = BiasedVar(data, cent, k, j)
                                        /\ ~Lt(variances[k][j], Zero)
\* the composition into blocks and the order of the block tasks never show in the result:
\* weights/variances are functions of (data, cent) only -- implied by the two invariants above
\* for every comp in Comps and every interleaving of Accumulate, which TLC explores.
HandOverExact == phase = "gmm" => /\ gmm.variances = variances /\ gmm.weights = weights
                                  /\ \A k \in 1..K : gmm.means[k] = Ct(k)
\* translating data and centroids by the same vector changes nothing (used by the harness to
\* run the implementation at large offsets against the same expected values)
Shifted(d, t) == [i \in DOMAIN d |-> [j \in 1..Dm |-> d[i][j] + t]]
TranslationInvariant ==
    phase \in {"red", "gmm"} => \A t \in Shifts :
        LET d2 == Shifted(data, t)
            c2 == Shifted(cent, t)
        IN /\ \A k \in 1..K, i \in Idx : SqD(d2, c2, i, k) = dists[k][i]
           /\ \A k \in 1..K : Fraction(d2, c2, k) = weights[k]
           /\ \A k \in 1..K, j \in 1..Dm : MembersD(data, cent, k) # {} => BiasedVar(d2, c2, k, j) = variances[k][j]

\* a change of units x -> s*x (data and centroids) multiplies distances and variances by s^2 and leaves
\* labels and weights unchanged (used by the harness to run the implementation in very small / large units)
Scaled(d, sc) == [i \in DOMAIN d |-> [j \in 1..Dm |-> sc * d[i][j]]]
ScaleEquivariant ==
    phase \in {"red", "gmm"} => \A sc \in Shifts \ {0} :
        LET d2 == Scaled(data, sc)
            c2 == Scaled(cent, sc)
            s2 == R(sc * sc)
        IN /\ \A k \in 1..K, i \in Idx : SqD(d2, c2, i, k) = Mul(s2, dists[k][i])
           /\ \A k \in 1..K : Fraction(d2, c2, k) = weights[k]
           /\ \A k \in 1..K, j \in 1..Dm : MembersD(data, cent, k) # {} => BiasedVar(d2, c2, k, j) = Mul(s2, variances[k][j])

\* ---------------- export (terminal states)
Export == phase = "gmm" =>
    PrintT(ToJson([data |-> data, comp |-> comp, cent |-> cent, dists |-> dists, labels |-> labels,
                   weights |-> weights, variances |-> variances]))
=============================================================================
