----------------------------- MODULE TraceFacts -----------------------------
(* Monitor for traces of harness-evaluated identities (DESIGN.md Appendix A.2, event kind Fact).

   A trace is a record
     [kind |-> STRING, need |-> sequence of fact names, ev |-> sequence of [name |-> STRING, ok |-> BOOLEAN]]
   Every event is consumable.  The verdict is "ok" iff every event has ok = TRUE and every name in
   `need` occurs among the events; otherwise it is the name of the first fact that failed, or
   "Missing" when a required fact was never recorded.  One verdict line is printed per trace. *)
EXTENDS Integers, Sequences, Json, IOUtils, TLCExt, TLC

Traces == JsonDeserialize(IOEnv.TRACE_FILE)

VARIABLES tid, l, verdict, closed
tvars == <<tid, l, verdict, closed>>
T == Traces[tid]

TInit == /\ tid \in 1..Len(Traces) /\ l = 1 /\ verdict = "ok" /\ closed = FALSE

TStep == /\ l <= Len(T.ev) /\ verdict = "ok"
         /\ verdict' = (IF T.ev[l].ok THEN "ok" ELSE T.ev[l].name)
         /\ l' = l + 1 /\ UNCHANGED <<tid, closed>>

AllNeeded == \A k \in 1..Len(T.need) : \E j \in 1..Len(T.ev) : T.ev[j].name = T.need[k]
TEnd == /\ l = Len(T.ev) + 1 /\ verdict = "ok" /\ ~closed
        /\ closed' = TRUE
        /\ verdict' = (IF AllNeeded THEN "ok" ELSE "Missing")
        /\ UNCHANGED <<tid, l>>

TSpec == TInit /\ [][TStep \/ TEnd]_tvars
Finished == closed \/ verdict # "ok"
Report == Finished => PrintT(<<"VERDICT", tid, verdict, l - 1>>)
=============================================================================
