------------------------------- MODULE PairTree -------------------------------
(* IVectorMachine.fit on a Dask bag (ivector.py, the `chunky` branch), one iteration as written:

        stats = [delayed(e_step)(machine=self, data=xx) for xx in X]            <- Build   (one e-step per partition)
        while (length := len(stats)) > 1:                                       <- Round   (one turn of the loop)
            last = stats[-1]
            stats = [delayed(add)(stats[i], stats[length // 2 + i]) for i in range(length // 2)]
            if length % 2 != 0:
                stats.append(last)
        stats_sum = stats[0]                                                    <- Finish
        new_machine = dask.compute(delayed(m_step)(self, stats_sum))[0]         <- RunM
        for attr in ["T", "sigma"]:                                             <- CopyBack
            setattr(self, attr, getattr(new_machine, attr))

   A statistic is represented by the LIST OF PARTITION IDS it has accumulated (the leaves it covers):
   the e-step result of partition i is <<i>>, add(a, b) = a \o b.  A list, not a set, so that counting a
   partition twice is as visible as dropping it.  Python indices are 0-based: stats[i], stats[length//2 + i]
   for i in range(length//2) are stats[j], stats[half + j] for j in 1..half here; stats[-1] is stats[length].

   The machine's parameters T and sigma are VERSION TAGS (number of M-steps applied).  Two memory modes:
   Shared   - the tasks run on the caller's live machine, m_step writes host.T / host.sigma itself;
   Isolated - the tasks run on a copy serialised with the graph: the e-steps read the snapshot, m_step
              updates ITS copy and returns it; only CopyBack brings the listed attributes to the caller.

   Named deviations: PAIRTREE_ODD_CARRY_DROPPED (the `if length % 2 != 0` statement is missing);
   IVECTOR_SIGMA_NOT_COPIED_BACK (the copy-back list is ["T"]).                                        *)
EXTENDS Integers, Sequences, FiniteSets, TLC, Json

CONSTANTS MaxLen,       \* numbers of partitions explored: 1..MaxLen
          Modes,        \* subset of {"Shared", "Isolated"}
          MaxIter,      \* max_iterations explored: 1..MaxIter
          Dev           \* named deviations switched on

VARIABLES L, mode, iters,       \* scenario: number of partitions, memory mode, max_iterations
          phase,                \* "build" | "reduce" | "M" | "C" | "done"
          iter,                 \* iterations completed
          stats,                \* the Python list `stats`
          ever,                 \* versions the e-steps of this iteration saw
          rounds, adds,         \* turns of the while loop / add tasks of this iteration
          msum,                 \* what the M-step received
          host, snap, mret      \* versions: caller's machine, snapshot shipped with the graph, machine returned by m_step
vars == <<L, mode, iters, phase, iter, stats, ever, rounds, adds, msum, host, snap, mret>>

Attrs == {"T", "sigma"}
Ver(k) == [a \in Attrs |-> k]
CopyList == IF "IVECTOR_SIGMA_NOT_COPIED_BACK" \in Dev THEN {"T"} ELSE {"T", "sigma"}
Add(a, b) == a \o b
Seen == IF mode = "Shared" THEN host ELSE snap

Init == /\ L \in 1..MaxLen /\ mode \in Modes /\ iters \in 1..MaxIter
        /\ phase = "build" /\ iter = 0
        /\ stats = <<>> /\ ever = Ver(0) /\ rounds = 0 /\ adds = 0 /\ msum = <<>>
        /\ host = Ver(0) /\ snap = Ver(0) /\ mret = Ver(0)

Build == /\ phase = "build"
         /\ snap' = host
         /\ ever' = host                      \* the graph is submitted at once: every e-step sees this machine
         /\ stats' = [i \in 1..L |-> <<i>>]
         /\ rounds' = 0 /\ adds' = 0
         /\ phase' = "reduce"
         /\ UNCHANGED <<L, mode, iters, iter, msum, host, mret>>

Round == /\ phase = "reduce" /\ Len(stats) > 1
         /\ LET length == Len(stats)
                half == length \div 2
                last == stats[length]
                paired == [j \in 1..half |-> Add(stats[j], stats[half + j])]
            IN /\ stats' = IF length % 2 # 0 /\ "PAIRTREE_ODD_CARRY_DROPPED" \notin Dev
                             THEN Append(paired, last) ELSE paired
               /\ adds' = adds + half
         /\ rounds' = rounds + 1
         /\ UNCHANGED <<L, mode, iters, phase, iter, ever, msum, host, snap, mret>>

Finish == /\ phase = "reduce" /\ Len(stats) <= 1
          /\ msum' = stats[1]
          /\ phase' = "M"
          /\ UNCHANGED <<L, mode, iters, iter, stats, ever, rounds, adds, host, snap, mret>>

RunM == /\ phase = "M"
        /\ IF mode = "Shared"
              THEN /\ host' = Ver(iter + 1) /\ mret' = Ver(iter + 1)          \* m_step(self, ..) returns self
              ELSE /\ mret' = [a \in Attrs |-> snap[a] + 1] /\ UNCHANGED host   \* the worker's copy
        /\ phase' = "C"
        /\ UNCHANGED <<L, mode, iters, iter, stats, ever, rounds, adds, msum, snap>>

CopyBack == /\ phase = "C"
            /\ host' = [a \in Attrs |-> IF a \in CopyList THEN mret[a] ELSE host[a]]
            /\ iter' = iter + 1
            /\ phase' = IF iter + 1 < iters THEN "build" ELSE "done"
            /\ UNCHANGED <<L, mode, iters, stats, ever, rounds, adds, msum, snap, mret>>

Next == Build \/ Round \/ Finish \/ RunM \/ CopyBack
Spec == Init /\ [][Next]_vars /\ WF_vars(Next)

\* ---------------------------------------------------------------- properties (C12)
RECURSIVE Flat(_)
Flat(s) == IF s = <<>> THEN <<>> ELSE Head(s) \o Flat(Tail(s))
IsPermOf(q, S) == Len(q) = Cardinality(S) /\ {q[i] : i \in 1..Len(q)} = S

\* conservation, at every turn of the loop: the statistics in the list cover every partition exactly once
LeavesConserved == phase = "reduce" => IsPermOf(Flat(stats), 1..L)
\* the statistic handed to the M-step covers every partition exactly once
EveryLeafExactlyOnce == phase \in {"M", "C"} => IsPermOf(msum, 1..L)
\* the loop ends: the list gets strictly shorter at every turn, and training completes
Shrinks == [][phase = "reduce" /\ phase' = "reduce" => Len(stats') < Len(stats)]_vars
Terminates == <>(phase = "done")
\* a binary tree over L leaves has L - 1 inner nodes; its height is ceil(log2 L)
RECURSIVE Pow2(_)
Pow2(k) == IF k = 0 THEN 1 ELSE 2 * Pow2(k - 1)
TreeShape == phase \in {"M", "C"} => adds = L - 1 /\ Pow2(rounds) >= L /\ (rounds > 0 => Pow2(rounds - 1) < L)
\* every e-step of an iteration is computed from the parameters left by the previous iteration
AllContribsAtCurrentVersion == phase \in {"reduce", "M", "C"} => ever = Ver(iter)
\* after every iteration the caller's machine holds the new T and the new sigma, in both memory modes
HostFreshAfterIter == phase \in {"build", "done"} => host = Ver(iter)

\* ---------------------------------------------------------------- export (terminal states)
Export == phase = "done" =>
    PrintT(ToJson([L |-> L, mode |-> mode, iters |-> iters, rounds |-> rounds, adds |-> adds, sum |-> msum,
                   host |-> [T |-> host["T"], sigma |-> host["sigma"]]]))
=============================================================================
