------------------------------- MODULE PairTree -------------------------------
(* The pairwise reduction of the per-partition i-vector statistics (ivector.py, IVectorMachine.fit,
   bag branch), exactly as written:

        while (length := len(stats)) > 1:
            last = stats[-1]
            stats = [add(stats[i], stats[length // 2 + i]) for i in range(length // 2)]
            if length % 2 != 0:
                stats.append(last)
        stats_sum = stats[0]

   A statistic is represented by the LIST OF PARTITION IDS it has accumulated (the leaves it covers):
   the e-step result of partition i is <<i>>, add(a, b) = a \o b.  A list, not a set, so that counting a
   partition twice is as visible as dropping it.  One action `Round` per turn of the loop, `Finish` for
   the statement after it.  Python indices are 0-based: stats[i], stats[length//2 + i] for i in
   range(length//2) are stats[j], stats[half + j] for j in 1..half here; stats[-1] is stats[length].

   Named deviation PAIRTREE_ODD_CARRY_DROPPED: the `if length % 2 != 0` statement is missing.       *)
EXTENDS Integers, Sequences, FiniteSets, TLC, Json

CONSTANTS MaxLen,       \* the initial lengths explored are 1..MaxLen
          Dev           \* named deviations switched on

VARIABLES L,            \* number of partitions (scenario)
          stats,        \* the Python list `stats`
          rounds,       \* turns of the while loop taken
          adds,         \* add tasks created
          done          \* stats_sum has been taken
vars == <<L, stats, rounds, adds, done>>

Add(a, b) == a \o b

Init == /\ L \in 1..MaxLen
        /\ stats = [i \in 1..L |-> <<i>>]
        /\ rounds = 0 /\ adds = 0 /\ done = FALSE

Round == /\ ~done /\ Len(stats) > 1
         /\ LET length == Len(stats)
                half == length \div 2
                last == stats[length]
                paired == [j \in 1..half |-> Add(stats[j], stats[half + j])]
            IN /\ stats' = IF length % 2 # 0 /\ "PAIRTREE_ODD_CARRY_DROPPED" \notin Dev
                             THEN Append(paired, last) ELSE paired
               /\ adds' = adds + half
         /\ rounds' = rounds + 1
         /\ UNCHANGED <<L, done>>

Finish == /\ ~done /\ Len(stats) <= 1
          /\ done' = TRUE
          /\ UNCHANGED <<L, stats, rounds, adds>>

Next == Round \/ Finish
Spec == Init /\ [][Next]_vars /\ WF_vars(Next)

\* ---------------------------------------------------------------- properties (C12)
RECURSIVE Flat(_)
Flat(s) == IF s = <<>> THEN <<>> ELSE Head(s) \o Flat(Tail(s))
IsPermOf(q, S) == Len(q) = Cardinality(S) /\ {q[i] : i \in 1..Len(q)} = S

\* conservation, at every turn of the loop: the statistics in the list cover every partition exactly once
LeavesConserved == IsPermOf(Flat(stats), 1..L)
\* the statistic handed to the M-step covers every partition exactly once
EveryLeafExactlyOnce == done => Len(stats) = 1 /\ IsPermOf(stats[1], 1..L)
\* the loop ends: the list gets strictly shorter at every turn, and stats_sum is eventually taken
Shrinks == [][Len(stats') < Len(stats) \/ UNCHANGED stats]_vars
Terminates == <>done
\* a binary tree over L leaves has L - 1 inner nodes; its height is ceil(log2 L)
RECURSIVE Pow2(_)
Pow2(k) == IF k = 0 THEN 1 ELSE 2 * Pow2(k - 1)
TreeShape == done => adds = L - 1 /\ Pow2(rounds) >= L /\ (rounds > 0 => Pow2(rounds - 1) < L)

\* ---------------------------------------------------------------- export (terminal states)
Export == done => PrintT(ToJson([L |-> L, rounds |-> rounds, adds |-> adds, sum |-> stats[1]]))
=============================================================================
