------------------------------- MODULE KMeans -------------------------------
(* Exact k-means on a small integer grid: KMeansMachine.fit with an explicit
   initial centroid array (kmeans.py:66-136, 323-390), and the cluster
   variance / weight reduction used to initialise a GMM (kmeans.py:139-173).

   One `Iter` step is one pass of the training loop.  It is computed the way the
   code computes it -- per-block statistics (count, sum, distance criterion) then
   a reduction -- and the properties compare that with the declarative whole-set
   definitions.  A sample equidistant from several centroids may join any of
   them (the contract says "a nearest centroid"); TLC explores every choice.
   A cluster that receives no sample keeps its previous centroid in the intended
   design; the deviation KMEANS_EMPTY_DIVIDES_BY_ZERO transcribes `sum / 0`.
   The deviation KMEANS_CRITERION_SUM_OF_BLOCK_MEANS transcribes the reported
   criterion as the code computed it before the repair (sum of per-block means
   divided by the number of samples).                                           *)
EXTENDS Rat, TrainLoop, TLC, Json

CONSTANTS N,            \* number of samples
          Dm,           \* number of features
          K,            \* number of clusters
          DataSets,     \* set of data sets, each a sequence of N points (point = sequence of Dm integers)
          InitSets,     \* set of initial centroid tuples (sequence of K points with integer coordinates)
          Comps,        \* set of compositions of N: sequences of positive block lengths summing to N
          Caps,         \* iteration caps (naturals, or NoCap)
          Thrs,         \* thresholds (non-negative rationals, or NoThr)
          Sims,         \* similarities used by Equivariant: records [s, q, t]
          MaxStep,      \* bound on explored iterations when the cap is None
          Dev           \* set of named deviations switched on

VARIABLES data, comp, cap, thr,      \* the scenario (never changes)
          dist,                      \* ghost: the true distortion of the current centroids (declarative)
          cent,                      \* current centroids: sequence of K vectors of rationals, or NaNVec
          asg,                       \* the assignment used by the last iteration
          step, crit, status,        \* loop counter, reported criterion, "run" / "done"
          act                        \* label of the last action (export only, hidden by the VIEW)
vars == <<data, comp, cap, thr, dist, cent, asg, step, crit, status, act>>

Inf == <<1, 0>>
NaN == <<0, 0>>
NaNVec == [j \in 1..Dm |-> NaN]
IsNaNVec(v) == v[1][2] = 0
Idx == 1..N
Pt(i) == [j \in 1..Dm |-> R(data[i][j])]

\* ---- blocks of the composition
RECURSIVE PrefixLen(_, _)
PrefixLen(c, b) == IF b = 0 THEN 0 ELSE c[b] + PrefixLen(c, b - 1)
Blk(b) == (PrefixLen(comp, b - 1) + 1)..PrefixLen(comp, b)
Blocks == 1..Len(comp)

\* ---- declarative definitions over the whole data set
\* (tables are LET-bound so that TLC computes every distance once)
DistTable(cs) == [i \in Idx |-> [k \in 1..K |-> SqDist(Pt(i), cs[k])]]
NearestIn(row) == {k \in 1..K : \A j \in 1..K : Leq(row[k], row[j])}
MinIn(row) == row[CHOOSE k \in 1..K : \A j \in 1..K : Leq(row[k], row[j])]
Nearest(i, cs) == NearestIn(DistTable(cs)[i])
Members(a, k) == {i \in Idx : a[i] = k}
MeanOf(S) == VScale(Div(One, R(Cardinality(S))), VSumOver([i \in Idx |-> Pt(i)], S, Dm))
Distortion(cs) == LET dt == DistTable(cs) IN Div(SumOver([i \in Idx |-> MinIn(dt[i])], Idx), R(N))
Finite(cs) == \A k \in 1..K : ~IsNaNVec(cs[k])

\* ---- one iteration as the code computes it: per block, then reduced
BlkCount(a, b, k) == Cardinality(Members(a, k) \cap Blk(b))
BlkSum(a, b, k) == VSumOver([i \in Idx |-> Pt(i)], Members(a, k) \cap Blk(b), Dm)
RedCount(a, k) == SumOver([b \in Blocks |-> R(BlkCount(a, b, k))], Blocks)
RedSum(a, k) == VSumOver([b \in Blocks |-> BlkSum(a, b, k)], Blocks, Dm)
NewCent(a, cs, k) == IF IsZero(RedCount(a, k))
                     THEN (IF "KMEANS_EMPTY_DIVIDES_BY_ZERO" \in Dev THEN NaNVec ELSE cs[k])
                     ELSE VScale(Div(One, RedCount(a, k)), RedSum(a, k))

Init == /\ data \in DataSets /\ comp \in Comps /\ cap \in Caps /\ thr \in Thrs
        /\ (cap = NoCap => thr # NoThr)
        /\ \E c0 \in InitSets :
              LET c == [k \in 1..K |-> [j \in 1..Dm |-> R(c0[k][j])]]
              IN cent = c /\ dist = Distortion(c)
        /\ asg = [i \in Idx |-> 0]
        /\ step = 0 /\ crit = Inf
        /\ status = IF cap = 0 THEN "done" ELSE "run"
        /\ act = "Init"

\* LET-bound tables are evaluated once per step (TLC caches parameterless LET definitions)
Iter == /\ status = "run" /\ MayIterate(step, cap) /\ Finite(cent)
        /\ LET dt == DistTable(cent)
               nr == [i \in Idx |-> NearestIn(dt[i])]
               md == [i \in Idx |-> MinIn(dt[i])]
               bcrit == [b \in Blocks |->
                          LET ds == SumOver(md, Blk(b))
                          IN IF "KMEANS_CRITERION_SUM_OF_BLOCK_MEANS" \in Dev
                             THEN Div(ds, R(Cardinality(Blk(b))))    \* e_step returned min_distance.mean()
                             ELSE ds]                                 \* intended: the block's sum
               cr == Div(SumOver(bcrit, Blocks), R(N))
           IN \E a \in [Idx -> 1..K] :
                /\ \A i \in Idx : a[i] \in nr[i]
                /\ LET nc == [k \in 1..K |-> NewCent(a, cent, k)]
                   IN /\ asg' = a /\ cent' = nc /\ crit' = cr /\ step' = step + 1
                      /\ dist' = IF Finite(nc) THEN Distortion(nc) ELSE NaN
                      /\ \E conv \in ConvOutcomes(step + 1, crit, cr, thr) :
                            status' = StatusAfter(step + 1, cap, conv)
        /\ act' = "Iter"
        /\ UNCHANGED <<data, comp, cap, thr>>

\* a NaN centroid poisons everything after it (IEEE: every distance to it is NaN and
\* argmin returns the NaN centroid); the model stops there and AllFinite reports it
Poisoned == /\ status = "run" /\ ~Finite(cent) /\ status' = "done" /\ act' = "Poisoned"
            /\ UNCHANGED <<data, comp, cap, thr, dist, cent, asg, step, crit>>

Next == Iter \/ Poisoned
Spec == Init /\ [][Next]_vars
Bound == step <= MaxStep

\* ---------------- properties
NoEmpty(a) == \A k \in 1..K : Members(a, k) # {}
\* C06: each iteration leaves the true distortion equal or lower while every cluster keeps a sample
Descent == [][(act' = "Iter" /\ NoEmpty(asg')) => Leq(dist', dist)]_vars
GhostIsDistortion == Finite(cent) => dist = Distortion(cent)
\* C06: every returned centroid is the mean of the samples that were nearest to its predecessor
CentroidIsMeanOfMembers ==
    [][act' = "Iter" => \A k \in 1..K : Members(asg', k) # {} => cent'[k] = MeanOf(Members(asg', k))]_vars
\* C06: the reported criterion is the mean squared distance to the nearest centroid entering the iteration
CriterionIsMeanMinDist == [][act' = "Iter" => crit' = dist]_vars
\* C06/C03: stop exactly at the first admissible crossing, never before step 2, never past the cap
CapRespected == cap # NoCap => step <= cap
StopRule == [][act' = "Iter" =>
                 \/ status' = "run" /\ MayIterate(step', cap) /\ FALSE \in ConvOutcomes(step', crit, crit', thr)
                 \/ status' = "done" /\ (TRUE \in ConvOutcomes(step', crit, crit', thr) \/ ~MayIterate(step', cap))]_vars
NoConvergenceBeforeStep2 == (status = "done" /\ step = 1) => cap = 1
\* C13: centroids stay finite
AllFinite == Finite(cent) /\ crit # NaN
\* C04: the composition into blocks never changes centroids or the reported criterion
ChunkInvariant == [][act' = "Iter" =>
                       /\ crit' = dist
                       /\ \A k \in 1..K : RedCount(asg', k) = R(Cardinality(Members(asg', k)))]_vars

\* C15: similarities x -> s * Rot^q x + t of the data and the centroids (s a non-zero integer, t an
\* integer vector, Rot the 90-degree rotation when Dm = 2): nearest sets are unchanged, the new centroids are
\* the images of the new centroids, and criterion and distortion scale by s^2.  Exact on the grid.
Rot(p, q) == IF Dm = 2 /\ q = 1 THEN <<Neg(p[2]), p[1]>> ELSE p
Sim(g, p) == [j \in 1..Dm |-> Add(Mul(R(g.s), Rot(p, g.q)[j]), R(g.t[j]))]
SimDistTable(g, cs) == [i \in Idx |-> [k \in 1..K |-> SqDist(Sim(g, Pt(i)), Sim(g, cs[k]))]]
Equivariant ==
    [][act' = "Iter" => \A g \in Sims :
          LET dt == DistTable(cent)
              dt2 == SimDistTable(g, cent)
              s2 == R(g.s * g.s)
          IN /\ \A i \in Idx : NearestIn(dt2[i]) = NearestIn(dt[i])
             /\ \A i \in Idx, k \in 1..K : dt2[i][k] = Mul(s2, dt[i][k])
             /\ \A k \in 1..K : Members(asg', k) # {} =>
                    Sim(g, cent'[k]) = VScale(Div(One, R(Cardinality(Members(asg', k)))),
                                              VSumOver([i \in Idx |-> Sim(g, Pt(i))], Members(asg', k), Dm))]_vars

\* ---------------- export of the state graph (M2)
ScnRec == [data |-> data, comp |-> comp, cap |-> cap, thr |-> thr]
ViewRec == [cent |-> cent, step |-> step, crit |-> crit, status |-> status]
View == <<data, comp, cap, thr, cent, step, crit, status>>
Export == PrintT(ToJson([s |-> ScnRec, f |-> ViewRec,
                         t |-> [cent |-> cent', step |-> step', crit |-> crit', status |-> status'],
                         a |-> act', empty |-> {k \in 1..K : Members(asg', k) = {}}]))
=============================================================================
