----------------------------- MODULE GmmMachine -----------------------------
(* The GMMMachine object (gmm.py:417-598, 659-681): visible parameters, variance floors,
   and the two caches every likelihood computation reads -- the log-weights (refreshed by
   the weights setter) and the Gaussian normalisers g_norms (refreshed by the variances
   setter).  Caches are modelled by the value they were computed from, so "stale" is
   visible as a mismatch between a cache tag and the current visible parameter.

   Setters are transcribed as written:
     weights setter            : store, refresh log-weights                        (:527-532)
     means setter              : store                                             (:541-546)
     variances setter          : clamp with the CURRENT floors, refresh normaliser (:555-563)
     variance_thresholds setter: store, then re-clamp through the variances setter (:572-579)
   M-steps (ML and MAP) assign through the setters in the order weights, means, variances
   (gmm.py:882-1002).  Copy / pickle keep the whole state; from_hdf5 builds a fresh machine
   and assigns weights (constructor), means, variances, floors in that order (:619-636);
   load() replaces the object's state by the freshly read one (:659-662).

   Named deviations (each must make TLC fail): FLOOR_SETTER_NO_RECLAMP,
   VAR_SETTER_KEEPS_NORMALISER, WEIGHT_SETTER_KEEPS_LOGW, LOAD_KEEPS_CACHES,
   FLOOR_LATE_BOUND_TO_COUNT_THRESHOLD.            *)
EXTENDS Rat, TLC, Json

CONSTANTS C, D,
          WeightSet,    \* weight vectors  [1..C -> Rat]
          MeanSet,      \* mean matrices   [1..C -> [1..D -> Rat]]
          VarSet,       \* variance matrices offered to the setter / produced by M-steps
          FloorSet,     \* floors, each [kind |-> "scalar"|"vector"|"matrix", val |-> matrix [1..C -> [1..D -> Rat]]]
          Eps,          \* the default floor of a freshly constructed machine (mean_var_update_threshold)
          Dev

VARIABLES w, mu, var, fl,       \* visible: weights, means, variances, floors (fl is a FloorSet element)
          logwOf, gnormOf,      \* cache tags: the weights / variances value each cache was computed from
          op                    \* last operation (export only)
vars == <<w, mu, var, fl, logwOf, gnormOf, op>>

Comp == 1..C
Feat == 1..D
MaxM(a, b) == [c \in Comp |-> [j \in Feat |-> RMax(a[c][j], b[c][j])]]
GeqM(a, b) == \A c \in Comp, j \in Feat : Leq(b[c][j], a[c][j])
EpsFloor == [kind |-> "scalar", val |-> [c \in Comp |-> [j \in Feat |-> Eps]]]

\* ---- the setters, as state transformers on a record s = [w, mu, var, fl, logwOf, gnormOf]
SetW(s, nw) == [s EXCEPT !.w = nw,
                         !.logwOf = IF "WEIGHT_SETTER_KEEPS_LOGW" \in Dev THEN s.logwOf ELSE nw]
SetM(s, nm) == [s EXCEPT !.mu = nm]
SetV(s, nv) == LET cl == MaxM(s.fl.val, nv)
               IN [s EXCEPT !.var = cl,
                            !.gnormOf = IF "VAR_SETTER_KEEPS_NORMALISER" \in Dev THEN s.gnormOf ELSE cl]
SetF(s, nf) == LET s1 == [s EXCEPT !.fl = nf]
               IN IF "FLOOR_SETTER_NO_RECLAMP" \in Dev THEN s1 ELSE SetV(s1, MaxM(nf.val, s.var))
\* M-step with update switches (uw, um, uv) producing the values (tw, tm, tv)
MStepOn(s, uw, um, uv, tw, tm, tv) ==
    LET s1 == IF uw THEN SetW(s, tw) ELSE s
        s2 == IF um THEN SetM(s1, tm) ELSE s1
    IN IF uv THEN SetV(s2, tv) ELSE s2
\* a machine as the constructor leaves it when given weights, then the reader's assignments
Fresh(nw) == [w |-> nw, mu |-> mu, var |-> var, fl |-> EpsFloor, logwOf |-> nw, gnormOf |-> var]
ReadBack(s) ==      \* from_hdf5(save(s)):  cls(weights=..) ; means= ; variances= ; variance_thresholds=
    LET f0 == [w |-> s.w, mu |-> s.mu, var |-> s.var, fl |-> EpsFloor, logwOf |-> s.w, gnormOf |-> s.var]
        f1 == SetM(f0, s.mu)
        f2 == SetV(f1, s.var)
        f3 == SetF(f2, s.fl)
    IN f3
LoadInto(s) ==      \* other.load(file): other.__dict__.update(new.__dict__)
    LET r == ReadBack(s)
    IN IF "LOAD_KEEPS_CACHES" \in Dev THEN [r EXCEPT !.logwOf = s.logwOf, !.gnormOf = EpsFloor.val] ELSE r

Cur == [w |-> w, mu |-> mu, var |-> var, fl |-> fl, logwOf |-> logwOf, gnormOf |-> gnormOf]
Become(s, o) == /\ w' = s.w /\ mu' = s.mu /\ var' = s.var /\ fl' = s.fl
                /\ logwOf' = s.logwOf /\ gnormOf' = s.gnormOf /\ op' = o

Init == /\ w \in WeightSet /\ mu \in MeanSet /\ fl = EpsFloor
        /\ \E v \in VarSet : var = MaxM(EpsFloor.val, v)
        /\ logwOf = w /\ gnormOf = var
        /\ op = [name |-> "Init"]

OpSetW == \E nw \in WeightSet : Become(SetW(Cur, nw), [name |-> "SetW", w |-> nw])
OpSetM == \E nm \in MeanSet : Become(SetM(Cur, nm), [name |-> "SetM", mu |-> nm])
OpSetV == \E nv \in VarSet : Become(SetV(Cur, nv), [name |-> "SetV", var |-> nv])
OpSetF == \E nf \in FloorSet : Become(SetF(Cur, nf), [name |-> "SetF", fl |-> nf])
OpMStep == \E uw, um, uv \in BOOLEAN, tw \in WeightSet, tm \in MeanSet, tv \in VarSet, kind \in {"ml", "map"} :
              /\ (uw \/ um \/ uv)
              /\ Become(MStepOn(Cur, uw, um, uv, tw, tm, tv),
                        [name |-> "MStep", kind |-> kind, uw |-> uw, um |-> um, uv |-> uv, w |-> tw, mu |-> tm, var |-> tv])
\* mean_var_update_threshold (the count floor of the M-steps) seeds the variance floors at construction only;
\* changing it later (attribute assignment, set_params) leaves floors, variances and caches alone
\* (deviation FLOOR_LATE_BOUND_TO_COUNT_THRESHOLD: the visible floor follows it without any re-clamp)
OpSetCountThr == \E x \in {"small", "large"} :
    LET s == IF "FLOOR_LATE_BOUND_TO_COUNT_THRESHOLD" \in Dev /\ fl = EpsFloor /\ x = "large"
             THEN [Cur EXCEPT !.fl = CHOOSE f \in FloorSet : f.kind = "scalar" /\ \A g \in FloorSet : g.kind = "scalar" => GeqM(f.val, g.val)]
             ELSE Cur
    IN Become(s, [name |-> "SetCountThr", x |-> x])
OpCopy == Become(Cur, [name |-> "Copy"])
OpPickle == Become(Cur, [name |-> "Pickle"])
OpSaveLoad == Become(ReadBack(Cur), [name |-> "SaveLoad"])
OpLoadInto == Become(LoadInto(Cur), [name |-> "LoadInto"])

Next == OpSetW \/ OpSetM \/ OpSetV \/ OpSetF \/ OpMStep \/ OpSetCountThr \/ OpCopy \/ OpPickle \/ OpSaveLoad \/ OpLoadInto
Spec == Init /\ [][Next]_vars

\* ---------------- properties (C17)
\* no stale normaliser or log-weight survives an update
CacheCoherent == logwOf = w /\ gnormOf = var
\* variances are never below the current floors
VarAboveCurrentFloor == GeqM(var, fl.val)
\* a machine is indistinguishable from a freshly built one with the same visible parameters:
\* everything a likelihood reads (w, mu, var, the two caches) is a function of (w, mu, var)
FreshEquivalent == logwOf = Fresh(w).logwOf /\ gnormOf = Fresh(w).gnormOf
\* persistence and copies keep the visible state (C18's visible clause, on every reachable state)
RoundTripVisible == [][op'.name \in {"Copy", "Pickle", "SaveLoad", "LoadInto"} =>
                         /\ w' = w /\ mu' = mu /\ var' = var /\ fl'.val = fl.val]_vars

\* ---------------- export of the state graph (M2)
View == <<w, mu, var, fl, logwOf, gnormOf>>
VisRec == [w |-> w, mu |-> mu, var |-> var, fl |-> fl]
Export == PrintT(ToJson([f |-> VisRec, o |-> op', t |-> [w |-> w', mu |-> mu', var |-> var', fl |-> fl']]))
=============================================================================
