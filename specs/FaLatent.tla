------------------------------ MODULE FaLatent ------------------------------
(* ISV / JFA latent-factor block updates and one enrolment iteration, exact rationals, rank 1
   (factor_analysis.py: update_y/_latent_y_per_class/_compute_fn_y_i, compute_latent_x/
   _compute_latent_x_per_class/_compute_fn_x_ih, update_z/_compute_fn_z_i, ISVMachine.enroll,
   JFAMachine.enroll).

   One client, sessions h \in 1..H, components c \in 1..C, one feature per component, so the
   supervector index is c.  A configuration is a record
       [jfa, m, s, U, V, D  : per component  (UBM mean, UBM variance, subspace entries),
        N, F                : per session, per component (zeroth / first order statistics),
        enroll              : "no" | "yes" | "J": whether EnrollIter is taken on this configuration and
                              whether J is compared along it (three chained updates stay within 32
                              bits only on part of the domain; the harness passes validated lists)]
   and the model is   mean_hc = m_c + V_c y + U_c x_h + D_c z_c,   y, x_h, z_c ~ N(0,1),
   observations of component c have variance s_c.  ISV has no speaker factor (jfa = FALSE,
   V = 0, y stays 0).

   INDUCTIVE FORM.  The current latent state (y, x, z) in Init ranges over ALL vectors with
   entries in LatVals, not only over the states reachable from zero: iterating exact rationals
   leaves 32 bits after two enrolment iterations, a single block update never does.  A step
   property checked from every such state covers every iteration count.
   Each action is one public step:
       UpdY  = update_y            y  := conditional mode given (x, z)
       UpdX  = compute_latent_x    x_h:= conditional mode given (y, z), every session
       UpdZ  = update_z            z  := conditional mode given (y, x)
       EnrollIter = enroll with enroll_iterations = 1: Y -> X -> Z from the zero state
                    (ISV: X -> Z), the only exactly reachable iteration.
   The actions state the INTENDED formulas in the residual/precision form of the code; the
   declarative side is the joint log-posterior J (DESIGN.md Appendix D) and its gradient.
   Named deviation JFA_FN_Y_MINUS_DZ: the speaker-factor residual is centred on m - D z
   instead of m + D z (what _compute_fn_y_i contains).                                    *)
EXTENDS Rat, TLC, Json

CONSTANTS Configs,      \* set of configuration records
          LatVals,      \* small rationals the current latent state ranges over
          Affs,         \* feature maps x -> a x + b as pairs <<a, b>> of rationals, a # 0
          Dev           \* set of named deviations switched on

VARIABLES cfg, y, x, z, last
vars == <<cfg, y, x, z, last>>

Cs(k) == 1..Len(k.m)
Hs(k) == 1..Len(k.N)
Half == <<1, 2>>
\* explicit tuple <<e(1), .., e(n)>> (TLC evaluates a function constructor lazily, again at every
\* application; the shapes here have at most three entries)
Tup(n, e(_)) == IF n = 1 THEN <<e(1)>> ELSE IF n = 2 THEN <<e(1), e(2)>> ELSE <<e(1), e(2), e(3)>>

\* sums through the least common denominator: same values as Rat!Add, smaller intermediates
AddL(a, b) == LET g == GCD(a[2], b[2])
              IN Norm(a[1] * (b[2] \div g) + b[1] * (a[2] \div g), (a[2] \div g) * b[2])
SubL(a, b) == AddL(a, Neg(b))
LeqL(a, b) == LET g == GCD(a[2], b[2]) IN a[1] * (b[2] \div g) <= b[1] * (a[2] \div g)
RECURSIVE SumL(_, _)
SumL(f, S) == IF S = {} THEN Zero
              ELSE LET i == CHOOSE i \in S : TRUE IN AddL(f[i], SumL(f, S \ {i}))

Nt(k, c) == SumL([h \in Hs(k) |-> k.N[h][c]], Hs(k))       \* N_i  = sum over sessions
Ft(k, c) == SumL([h \in Hs(k) |-> k.F[h][c]], Hs(k))       \* F_i

\* ------------------------------------------------------------------ the public steps
\* speaker factor: (1 + sum_c N_c V_c^2/s_c)^-1  sum_c V_c/s_c (F_c - N_c (m_c + D_c z_c) - sum_h N_hc U_c x_h)
FnY(k, xx, zz, c, minus) ==
    LET dz == Mul(k.D[c], zz[c])
        centre == IF minus THEN SubL(k.m[c], dz) ELSE AddL(k.m[c], dz)
    IN SubL(SubL(Ft(k, c), Mul(Nt(k, c), centre)),
            SumL([h \in Hs(k) |-> Mul(k.N[h][c], Mul(k.U[c], xx[h]))], Hs(k)))
PrecY(k) == AddL(One, SumL([c \in Cs(k) |-> Div(Mul(Nt(k, c), Sq(k.V[c])), k.s[c])], Cs(k)))
NewYWith(k, xx, zz, minus) ==
    Div(SumL([c \in Cs(k) |-> Mul(Div(k.V[c], k.s[c]), FnY(k, xx, zz, c, minus))], Cs(k)), PrecY(k))
NewY(k, xx, zz) == NewYWith(k, xx, zz, "JFA_FN_Y_MINUS_DZ" \in Dev)

\* channel factor of session h: (1 + sum_c N_hc U_c^2/s_c)^-1 sum_c U_c/s_c (F_hc - N_hc (m_c + D_c z_c + V_c y))
FnX(k, yy, zz, h, c) ==
    SubL(k.F[h][c], Mul(k.N[h][c], AddL(AddL(k.m[c], Mul(k.D[c], zz[c])), Mul(k.V[c], yy))))
PrecX(k, h) == AddL(One, SumL([c \in Cs(k) |-> Div(Mul(k.N[h][c], Sq(k.U[c])), k.s[c])], Cs(k)))
NewX(k, yy, zz) ==
    Tup(Len(k.N), LAMBDA h : Div(SumL([c \in Cs(k) |-> Mul(Div(k.U[c], k.s[c]), FnX(k, yy, zz, h, c))], Cs(k)),
                                 PrecX(k, h)))

\* residual offset: (1 + N_c D_c^2/s_c)^-1 D_c/s_c (F_c - N_c (m_c + V_c y) - sum_h N_hc U_c x_h)
FnZ(k, yy, xx, c) ==
    SubL(SubL(Ft(k, c), Mul(Nt(k, c), AddL(k.m[c], Mul(k.V[c], yy)))),
         SumL([h \in Hs(k) |-> Mul(k.N[h][c], Mul(k.U[c], xx[h]))], Hs(k)))
PrecZ(k, c) == AddL(One, Div(Mul(Nt(k, c), Sq(k.D[c])), k.s[c]))
NewZ(k, yy, xx) == Tup(Len(k.m), LAMBDA c : Div(Mul(Div(k.D[c], k.s[c]), FnZ(k, yy, xx, c)), PrecZ(k, c)))

\* ------------------------------------------------------------------ declarative side
\* offset of component c in session h, centred statistics, joint log-posterior (Appendix D)
Off(k, yy, xx, zz, h, c) == AddL(AddL(Mul(k.V[c], yy), Mul(k.U[c], xx[h])), Mul(k.D[c], zz[c]))
Ftil(k, h, c) == SubL(k.F[h][c], Mul(k.N[h][c], k.m[c]))
LogLik(k, yy, xx, zz) ==
    SumL([h \in Hs(k) |->
            SumL([c \in Cs(k) |->
                    LET d == Off(k, yy, xx, zz, h, c)
                    IN Div(Mul(d, SubL(Ftil(k, h, c), Mul(Half, Mul(k.N[h][c], d)))), k.s[c])], Cs(k))], Hs(k))
J(k, yy, xx, zz) ==
    SubL(LogLik(k, yy, xx, zz),
         Mul(Half, AddL(Sq(yy), AddL(SumL([h \in Hs(k) |-> Sq(xx[h])], Hs(k)),
                                     SumL([c \in Cs(k) |-> Sq(zz[c])], Cs(k))))))
\* d(log-lik)/d(offset_hc)
Res(k, yy, xx, zz, h, c) == Div(SubL(Ftil(k, h, c), Mul(k.N[h][c], Off(k, yy, xx, zz, h, c))), k.s[c])
GradY(k, yy, xx, zz) ==
    SubL(SumL([h \in Hs(k) |-> SumL([c \in Cs(k) |-> Mul(k.V[c], Res(k, yy, xx, zz, h, c))], Cs(k))], Hs(k)), yy)
GradX(k, yy, xx, zz, h) ==
    SubL(SumL([c \in Cs(k) |-> Mul(k.U[c], Res(k, yy, xx, zz, h, c))], Cs(k)), xx[h])
GradZ(k, yy, xx, zz, c) ==
    SubL(SumL([h \in Hs(k) |-> Mul(k.D[c], Res(k, yy, xx, zz, h, c))], Hs(k)), zz[c])

\* ------------------------------------------------------------------ behaviour
Init == /\ cfg \in Configs
        /\ y \in (IF cfg.jfa THEN LatVals ELSE {Zero})
        /\ x \in [Hs(cfg) -> LatVals]
        /\ z \in [Cs(cfg) -> LatVals]
        /\ last = "init"

UpdY == /\ last = "init" /\ cfg.jfa
        /\ y' = NewY(cfg, x, z)
        /\ last' = "UpdY" /\ UNCHANGED <<cfg, x, z>>
UpdX == /\ last = "init"
        /\ x' = NewX(cfg, y, z)
        /\ last' = "UpdX" /\ UNCHANGED <<cfg, y, z>>
UpdZ == /\ last = "init"
        /\ z' = NewZ(cfg, y, x)
        /\ last' = "UpdZ" /\ UNCHANGED <<cfg, y, x>>
AtZero == IsZero(y) /\ (\A h \in Hs(cfg) : IsZero(x[h])) /\ (\A c \in Cs(cfg) : IsZero(z[c]))
EnrollIter ==
    /\ last = "init" /\ cfg.enroll # "no" /\ AtZero
    /\ LET y1 == IF cfg.jfa THEN NewY(cfg, x, z) ELSE Zero
           x1 == NewX(cfg, y1, z)
           z1 == NewZ(cfg, y1, x1)
       IN y' = y1 /\ x' = x1 /\ z' = z1
    /\ last' = "EnrollIter" /\ UNCHANGED cfg

Next == UpdY \/ UpdX \/ UpdZ \/ EnrollIter
Spec == Init /\ [][Next]_vars

\* ------------------------------------------------------------------ checked formulas (C07)
\* the block precisions (minus the second derivatives of J) are positive: a vanishing block
\* gradient is the block maximum
PrecisionPositive ==        \* (stated on successor states: initial states are checked by a single thread)
    last # "init" => /\ IsPos(PrecY(cfg))
                     /\ \A h \in Hs(cfg) : IsPos(PrecX(cfg, h))
                     /\ \A c \in Cs(cfg) : IsPos(PrecZ(cfg, c))
\* after each update the gradient of J in the updated block vanishes
BlockIsArgmax ==
    /\ last = "UpdY" => IsZero(GradY(cfg, y, x, z))
    /\ last = "UpdX" => \A h \in Hs(cfg) : IsZero(GradX(cfg, y, x, z, h))
    /\ last = "UpdZ" => \A c \in Cs(cfg) : IsZero(GradZ(cfg, y, x, z, c))
\* one enrolment iteration from zero ends with the residual offset at its conditional mode,
\* the channel factors at theirs given (y, z = 0), the speaker factor at its given (x, z) = 0
EnrollIsBlockwise ==
    last = "EnrollIter" =>
        LET z0 == Tup(Len(cfg.m), LAMBDA c : Zero)
            x0 == Tup(Len(cfg.N), LAMBDA h : Zero)
        IN /\ \A c \in Cs(cfg) : IsZero(GradZ(cfg, y, x, z, c))
           /\ \A h \in Hs(cfg) : IsZero(GradX(cfg, y, x, z0, h))
           /\ cfg.jfa => IsZero(GradY(cfg, y, x0, z0))
           /\ ~cfg.jfa => IsZero(y)
\* the joint log-posterior never decreases along a block update
JNonDecreasing ==
    [][last' \in {"UpdY", "UpdX", "UpdZ"} => LeqL(J(cfg, y, x, z), J(cfg, y', x', z'))]_vars
\* ... nor along the first enrolment iteration (small instances only: J' leaves 32 bits otherwise)
JNonDecreasingEnroll ==
    [][last' = "EnrollIter" /\ cfg.enroll = "J" => LeqL(J(cfg, y, x, z), J(cfg, y', x', z'))]_vars
\* features x -> a x + b: m -> a m + b, s -> a^2 s, (U, V, D) -> a (U, V, D), F -> a F + b N;
\* the latent updates and J do not change
Aff(k, a, b) ==
    LET nc == Len(k.m)
    IN [jfa |-> k.jfa, enroll |-> k.enroll,
        m |-> Tup(nc, LAMBDA c : AddL(Mul(a, k.m[c]), b)),
        s |-> Tup(nc, LAMBDA c : Mul(Sq(a), k.s[c])),
        U |-> Tup(nc, LAMBDA c : Mul(a, k.U[c])),
        V |-> Tup(nc, LAMBDA c : Mul(a, k.V[c])),
        D |-> Tup(nc, LAMBDA c : Mul(a, k.D[c])),
        N |-> k.N,
        F |-> Tup(Len(k.N), LAMBDA h : Tup(nc, LAMBDA c : AddL(Mul(a, k.F[h][c]), Mul(b, k.N[h][c]))))]
AffineInvariant ==      \* an action property: evaluated per transition (by every worker), not per initial state
    [][\A k2 \in {Aff(cfg, t[1], t[2]) : t \in Affs} :      \* (a set: its elements are evaluated once)
          /\ last' = "UpdY" => NewY(k2, x, z) = y'
          /\ last' = "UpdX" => NewX(k2, y, z) = x'
          /\ last' = "UpdZ" => NewZ(k2, y, x) = z' /\ J(k2, y, x, z) = J(cfg, y, x, z)]_vars

\* ------------------------------------------------------------------ export (one record per edge)
Export ==
    PrintT(ToJson([cfg |-> cfg, act |-> last',
                   pre |-> [y |-> y, x |-> x, z |-> z],
                   post |-> [y |-> y', x |-> x', z |-> z'],
                   asimpl |-> IF last' = "UpdY" THEN NewYWith(cfg, x, z, TRUE) ELSE Zero]))
=============================================================================
