---------------------------- MODULE LinearScoring ----------------------------
(* linear_scoring(models, ubm, test_stats, offsets, frame_length_normalization)
   (linear_scoring.py:20-87), in exact rational arithmetic.

   A scenario is chosen in Init:
     ubm     [means, vars]            the UBM (when ukind = "map": the prior of the machine passed)
     ukind   "plain" | "map"          what is passed as the `ubm` argument: the UBM itself, or a
                                      MAP-adapted machine whose prior is the UBM
     mapown  [means, vars]            the MAP-adapted machine's own parameters (= ubm when "plain")
     models  sequence of [means, vars]   one or several models; vars are a machine's own variances
     mform   "machines" | "arrays"    models given as GMMMachine objects or as arrays of means
     stats   sequence of [t, n, f]    test statistics (t frames, n[c] occupation, f[c][d] first order)
     offs    [present, val]           channel offsets: absent (0) or one C x D matrix per test item
     norm    BOOLEAN                  frame-length normalisation
   and the single public step Score computes the result as the code does:
     a = (model - ubm mean) / ubm var ;  b = F - N (ubm mean + offset) ;  b / T if normalising
     (0 when T = 0) ;  result[i][p] = sum over components and features of a * b.
   A matrix is a sequence (components) of sequences (features) of rationals <<num, den>>;
   <<0, 0>> is NaN (only a deviating variant produces it).

   Dev is the set of named deviations switched on:
     LS_OFFSET_IGNORED         b = F - N * ubm mean
     LS_DIVIDE_BY_MODEL_VAR    a machine-model's own variances divide instead of the UBM's
     LS_NO_ZERO_FRAME_GUARD    b / T evaluated at T = 0 (NaN)
     LS_MAP_UBM_NOT_UNWRAPPED  a MAP machine's own means / variances used instead of its prior's *)
EXTENDS Rat, TLC, Json

CONSTANTS C, D,
          Ubms,         \* set of [means, vars]
          ModelLists,   \* set of sequences (length 1..2) of [means, vars]
          Tests,        \* set of [stats |-> sequence of [t, n, f], offs |-> [present, val]]
          MapOwns,      \* set of [means, vars]
          Affines,      \* set of sequences (one entry per feature) of <<alpha, beta>>, alpha # 0
          Scales,       \* set of rationals
          Dev

VARIABLES scn, phase, result
vars == <<scn, phase, result>>

CI == 1..C
DI == 1..D
NaN == <<0, 0>>
IsNaN(x) == x[2] = 0

\* ------------------------------------------------------------------ the step, as the code performs it
UsedUbm(s) ==      \* `if ubm.trainer == "map": ubm = ubm.ubm`
    IF s.ukind = "map" /\ "LS_MAP_UBM_NOT_UNWRAPPED" \in Dev THEN s.mapown ELSE s.ubm
AMat(s, i) ==
    LET U == UsedUbm(s)
        V == IF "LS_DIVIDE_BY_MODEL_VAR" \in Dev /\ s.mform = "machines" THEN s.models[i].vars ELSE U.vars
    IN [c \in CI |-> [d \in DI |-> Div(Sub(s.models[i].means[c][d], U.means[c][d]), V[c][d])]]
OffAt(s, p, c, d) == IF s.offs.present /\ "LS_OFFSET_IGNORED" \notin Dev THEN s.offs.val[p][c][d] ELSE Zero
BMat(s, p) ==
    LET U == UsedUbm(s)
        st == s.stats[p]
        raw(c, d) == Sub(st.f[c][d], Mul(st.n[c], Add(U.means[c][d], OffAt(s, p, c, d))))
    IN [c \in CI |-> [d \in DI |->
            IF ~s.norm THEN raw(c, d)
            ELSE IF IsZero(st.t) THEN (IF "LS_NO_ZERO_FRAME_GUARD" \in Dev THEN NaN ELSE Zero)
            ELSE Div(raw(c, d), st.t)]]
Contract(a, b) ==
    IF \E c \in CI, d \in DI : IsNaN(b[c][d]) THEN NaN
    ELSE SumOver([c \in CI |-> SumOver([d \in DI |-> Mul(a[c][d], b[c][d])], DI)], CI)
ScoreOp(s) == [i \in 1..Len(s.models) |-> [p \in 1..Len(s.stats) |-> Contract(AMat(s, i), BMat(s, p))]]

Init == /\ \E u \in Ubms, ms \in ModelLists, ts \in Tests, nm \in BOOLEAN,
              mf \in {"machines", "arrays"}, uk \in {"plain", "map"}, mo \in MapOwns :
            /\ uk = "plain" => mo = (CHOOSE x \in MapOwns : TRUE)
            /\ scn = [ubm |-> u, ukind |-> uk, mapown |-> IF uk = "plain" THEN u ELSE mo,
                      models |-> ms, mform |-> mf, stats |-> ts.stats, offs |-> ts.offs, norm |-> nm]
        /\ phase = "start" /\ result = <<>>

Score == /\ phase = "start" /\ phase' = "scored"
         /\ result' = ScoreOp(scn)
         /\ UNCHANGED scn

Next == Score
Spec == Init /\ [][Next]_vars

\* ------------------------------------------------------------------ properties (C08)
M == Len(scn.models)
S == Len(scn.stats)
Done == phase = "scored"

\* the declarative double sum, over the UBM proper, the total divided once by the frame count
Formula(s, i, p) ==
    LET st == s.stats[p]
        o(c, d) == IF s.offs.present THEN s.offs.val[p][c][d] ELSE Zero
        term(c, d) == Mul(Div(Sub(s.models[i].means[c][d], s.ubm.means[c][d]), s.ubm.vars[c][d]),
                          Sub(st.f[c][d], Mul(st.n[c], Add(s.ubm.means[c][d], o(c, d)))))
        total == SumOver([k \in 1..(C * D) |-> term(((k - 1) \div D) + 1, ((k - 1) % D) + 1)], 1..(C * D))
    IN IF ~s.norm THEN total ELSE IF IsZero(st.t) THEN Zero ELSE Div(total, st.t)
IsFormula == Done => \A i \in 1..M, p \in 1..S : result[i][p] = Formula(scn, i, p)

Shape == Done => /\ DOMAIN result = 1..M
                 /\ \A i \in 1..M : DOMAIN result[i] = 1..S

OneModel(s, means, i) == [s EXCEPT !.models = <<[means |-> means, vars |-> s.models[i].vars]>>]
ZeroForUbm == Done => \A p \in 1..S : ScoreOp(OneModel(scn, scn.ubm.means, 1))[1][p] = Zero

\* the score is linear in the model offset (model - ubm)
LinearInOffset == Done =>
    /\ \A i \in 1..M, j \in 1..M :
          LET mm == [c \in CI |-> [d \in DI |-> Sub(Add(scn.models[i].means[c][d], scn.models[j].means[c][d]),
                                                    scn.ubm.means[c][d])]]
          IN \A p \in 1..S : ScoreOp(OneModel(scn, mm, i))[1][p] = Add(result[i][p], result[j][p])
    /\ \A i \in 1..M, k \in Scales :
          LET mm == [c \in CI |-> [d \in DI |-> Add(scn.ubm.means[c][d],
                                                    Mul(k, Sub(scn.models[i].means[c][d], scn.ubm.means[c][d])))]]
          IN \A p \in 1..S : ScoreOp(OneModel(scn, mm, i))[1][p] = Mul(k, result[i][p])

\* before normalisation the score of the sum of two statistics (same channel offset) is the sum of the scores
AddStat(x, y) == [t |-> Add(x.t, y.t), n |-> [c \in CI |-> Add(x.n[c], y.n[c])],
                  f |-> [c \in CI |-> [d \in DI |-> Add(x.f[c][d], y.f[c][d])]]]
AdditiveOverStats == Done =>
    LET s0 == [scn EXCEPT !.norm = FALSE]
        r0 == ScoreOp(s0)
        offOf(p) == [present |-> scn.offs.present, val |-> IF scn.offs.present THEN <<scn.offs.val[p]>> ELSE <<>>]
    IN /\ ~scn.norm => r0 = result
       /\ \A p \in 1..S, q \in 1..S :
            LET both == ScoreOp([s0 EXCEPT !.stats = <<AddStat(scn.stats[p], scn.stats[q])>>, !.offs = offOf(p)])
                second == ScoreOp([s0 EXCEPT !.stats = <<scn.stats[q]>>, !.offs = offOf(p)])
            IN \A i \in 1..M : both[i][1] = Add(r0[i][p], second[i][1])

MachinesEqArrays == Done => /\ ScoreOp([scn EXCEPT !.mform = "machines"]) = result
                            /\ ScoreOp([scn EXCEPT !.mform = "arrays"]) = result

MapUbmEqPrior == Done => \A mo \in MapOwns :
    ScoreOp([scn EXCEPT !.ukind = "map", !.mapown = mo]) = ScoreOp([scn EXCEPT !.ukind = "plain", !.mapown = scn.ubm])

ZeroFrameIsZero == Done /\ scn.norm => \A p \in 1..S : IsZero(scn.stats[p].t) => \A i \in 1..M : result[i][p] = Zero

\* features rescaled and shifted per feature: x -> alpha x + beta
AffGmm(g, af) == [means |-> [c \in CI |-> [d \in DI |-> Add(Mul(af[d][1], g.means[c][d]), af[d][2])]],
                  vars |-> [c \in CI |-> [d \in DI |-> Mul(Sq(af[d][1]), g.vars[c][d])]]]
AffStat(st, af) == [t |-> st.t, n |-> st.n,
                    f |-> [c \in CI |-> [d \in DI |-> Add(Mul(af[d][1], st.f[c][d]), Mul(af[d][2], st.n[c]))]]]
Transformed(s, af) ==
    [ubm |-> AffGmm(s.ubm, af), ukind |-> s.ukind, mapown |-> AffGmm(s.mapown, af),
     models |-> [i \in 1..Len(s.models) |-> AffGmm(s.models[i], af)], mform |-> s.mform,
     stats |-> [p \in 1..Len(s.stats) |-> AffStat(s.stats[p], af)],
     offs |-> [present |-> s.offs.present,
               val |-> [p \in 1..Len(s.offs.val) |-> [c \in CI |-> [d \in DI |-> Mul(af[d][1], s.offs.val[p][c][d])]]]],
     norm |-> s.norm]
AffineInvariant == Done => \A af \in Affines : ScoreOp(Transformed(scn, af)) = result

\* ------------------------------------------------------------------ export (terminal states)
Export == Done => PrintT(ToJson([scn |-> scn, result |-> result]))
=============================================================================
