------------------------------- MODULE Wccn -------------------------------
(* Within-class covariance normalisation, exact (wccn.py:41-90 WCCN.fit).

   The caller hands over samples X (a sequence of integer points) and labels y (a sequence of
   integers).  The scenario chosen in Init is: a data multiset, a PARTITION of the samples into
   classes 1..K (restricted-growth string), a label map (class k carries the label VALUE lab[k];
   label sets that are not 0..K-1, negative, non-contiguous, unsorted), the ORDER in which the set of
   labels is iterated (`set(y)`: Python's set order is not part of the contract, so it is an
   arbitrary permutation here), and the order sp in which the samples are presented.

   Public steps of fit, one action each:
     ClassMeans  mu_l = [mean(X[y == label]) for label in possible_labels]      (wccn.py:60-67)
     Scatter     Sw = sum over labels of (X[y == label] - <class mean>)^T (..)   (wccn.py:70-77)
                 intended: the class mean is looked up by the POSITION of the class in the iteration;
                 deviation WCCN_MEAN_BY_LABEL_VALUE: the list is indexed by the label VALUE
                 (`mu_l[label]`, wccn.py:75) with Python index semantics -- negative values count
                 from the end, anything outside -K..K-1 is an IndexError (status = "error").
     Scale       scaled_Sw = Sw / K, K = number of classes                        (wccn.py:80)
   The projection W = cholesky(inv(scaled_Sw), lower) is irrational in general; TLC exports the exact
   scaled scatter and its exact inverse P, and the replay requires W lower-triangular with positive
   diagonal and W W^T = P.                                                                       *)
EXTENDS Rat, TLC, Json

CONSTANTS N, Dm,
          DataSets,     \* sequences of N points, each a sequence of Dm integers
          Parts,        \* sequences of N class indices (restricted growth: classes are 1..K, all non-empty)
          LabelMaps,    \* sequences of distinct integers; class k gets the label lab[k] (first K entries used)
          SPerms,       \* permutations of 1..N: presentation orders of the samples
          Dev           \* set of named deviations switched on

VARIABLES data, part, lab, order, sp,     \* scenario
          phase,                          \* "start" | "means" | "scatter" | "scaled"
          mu,                             \* list of class means, in iteration order
          used,                           \* per iteration position: the mean that was subtracted (NoMean: failed lookup)
          status,                         \* "ok" | "error" (IndexError)
          S, Ssc                          \* scatter, scaled scatter
vars == <<data, part, lab, order, sp, phase, mu, used, status, S, Ssc>>

Idx == 1..N
Feat == 1..Dm
NClasses(p) == Cardinality({p[i] : i \in Idx})

\* ---- tiny matrices of rationals
MZero == [a \in Feat |-> [b \in Feat |-> Zero]]
MId == [a \in Feat |-> [b \in Feat |-> IF a = b THEN One ELSE Zero]]
MAdd(A, B) == [a \in Feat |-> [b \in Feat |-> Add(A[a][b], B[a][b])]]
MScale(c, A) == [a \in Feat |-> [b \in Feat |-> Mul(c, A[a][b])]]
MMul(A, B) == [a \in Feat |-> [b \in Feat |-> SumOver([c \in Feat |-> Mul(A[a][c], B[c][b])], Feat)]]
Det(A) == IF Dm = 1 THEN A[1][1] ELSE Sub(Mul(A[1][1], A[2][2]), Mul(A[1][2], A[2][1]))
MInv(A) == IF Dm = 1 THEN <<<<Div(One, A[1][1])>>>>
           ELSE LET d == Det(A)
                IN <<<<Div(A[2][2], d), Div(Neg(A[1][2]), d)>>, <<Div(Neg(A[2][1]), d), Div(A[1][1], d)>>>>
Symmetric(A) == \A a, b \in Feat : A[a][b] = A[b][a]
PosDef(A) == IsPos(A[1][1]) /\ IsPos(Det(A))          \* leading minors (Dm <= 2)

\* ---- what the code sees
Xs(d, q) == [i \in Idx |-> d[q[i]]]
Ys(p, l, q) == [i \in Idx |-> l[p[q[i]]]]
Where(ys, v) == {i \in Idx : ys[i] = v}                                  \* where(y_ == label)[0]
MeanOf(xs, I) == [j \in Feat |-> Div(SumOver([i \in Idx |-> R(xs[i][j])], I), R(Cardinality(I)))]
ClassScatter(xs, I, m) ==                                                \* (X[I] - m)^T (X[I] - m)
    [a \in Feat |-> [b \in Feat |->
        SumOver([i \in Idx |-> Mul(Sub(R(xs[i][a]), m[a]), Sub(R(xs[i][b]), m[b]))], I)]]

MeanList(xs, ys, ord) == [p \in 1..Len(ord) |-> MeanOf(xs, Where(ys, ord[p]))]
\* Python list indexing with an integer v on a list of length n: 1-based position, 0 = IndexError
PyIndex(v, n) == IF v >= 0 /\ v < n THEN v + 1
                 ELSE IF v < 0 /\ v + n >= 0 THEN n + v + 1 ELSE 0
LookupPos(ord, p) == IF "WCCN_MEAN_BY_LABEL_VALUE" \in Dev THEN PyIndex(ord[p], Len(ord)) ELSE p
NoMean == [j \in Feat |-> <<0, 0>>]
UsedMeans(ms, ord) == [p \in 1..Len(ord) |-> IF LookupPos(ord, p) = 0 THEN NoMean ELSE ms[LookupPos(ord, p)]]
LookupOk(um) == \A p \in DOMAIN um : um[p] # NoMean
RECURSIVE ScatterUpTo(_, _, _, _, _)
ScatterUpTo(xs, ys, ord, um, p) ==
    IF p = 0 THEN MZero
    ELSE MAdd(ScatterUpTo(xs, ys, ord, um, p - 1), ClassScatter(xs, Where(ys, ord[p]), um[p]))
\* the whole of steps 1-2 as a function of what the caller passed and of the iteration order
CodeOk(xs, ys, ord) == LookupOk(UsedMeans(MeanList(xs, ys, ord), ord))
CodeScatter(xs, ys, ord) == LET um == UsedMeans(MeanList(xs, ys, ord), ord)
                            IN IF LookupOk(um) THEN ScatterUpTo(xs, ys, ord, um, Len(ord)) ELSE MZero

\* ---- declarative: functions of (data, partition) only -- no label value, no order
Members(p, k) == {i \in Idx : p[i] = k}
RECURSIVE PScatterUpTo(_, _, _)
PScatterUpTo(d, p, k) ==     \* Sw = sum_k sum_{n in C_k} (x_n - m_k)(x_n - m_k)^T
    IF k = 0 THEN MZero
    ELSE MAdd(PScatterUpTo(d, p, k - 1), ClassScatter(d, Members(p, k), MeanOf(d, Members(p, k))))
PScatter(d, p) == PScatterUpTo(d, p, NClasses(p))
\* the same quantity without any notion of a class mean: (1/(2 n_k)) sum_{a,b in C_k} (x_a - x_b)(x_a - x_b)^T
RECURSIVE PairScatterUpTo(_, _, _)
PairScatterUpTo(d, p, k) ==
    IF k = 0 THEN MZero
    ELSE LET C == Members(p, k)
             M == [a \in Feat |-> [b \in Feat |->
                     Div(SumOver([i \in Idx |-> SumOver([j \in Idx |-> R((d[i][a] - d[j][a]) * (d[i][b] - d[j][b]))], C)], C),
                         R(2 * Cardinality(C)))]]
         IN MAdd(PairScatterUpTo(d, p, k - 1), M)
PairScatter(d, p) == PairScatterUpTo(d, p, NClasses(p))

Bij(n) == {f \in [1..n -> 1..n] : \A a, b \in 1..n : f[a] = f[b] => a = b}

Init == /\ data \in DataSets /\ part \in Parts
        /\ ~IsZero(Det(PScatter(data, part)))              \* the property is about full-rank data
        /\ lab \in {SubSeq(l, 1, NClasses(part)) : l \in {m \in LabelMaps : Len(m) >= NClasses(part)}}
        /\ order \in {[p \in 1..NClasses(part) |-> lab[f[p]]] : f \in Bij(NClasses(part))}
        /\ sp \in SPerms
        /\ phase = "start" /\ mu = <<>> /\ used = <<>> /\ status = "ok" /\ S = MZero /\ Ssc = MZero

X == Xs(data, sp)
Y == Ys(part, lab, sp)

ClassMeans == /\ phase = "start" /\ phase' = "means"
              /\ mu' = MeanList(X, Y, order)
              /\ UNCHANGED <<data, part, lab, order, sp, used, status, S, Ssc>>
Scatter == /\ phase = "means" /\ phase' = "scatter"
           /\ used' = UsedMeans(mu, order)
           /\ status' = IF LookupOk(used') THEN "ok" ELSE "error"
           /\ S' = IF LookupOk(used') THEN ScatterUpTo(X, Y, order, used', Len(order)) ELSE MZero
           /\ UNCHANGED <<data, part, lab, order, sp, mu, Ssc>>
Scale == /\ phase = "scatter" /\ phase' = "scaled"
         /\ Ssc' = IF status = "ok" THEN MScale(Q(1, Len(order)), S) ELSE MZero      \* n_classes = len(possible_labels)
         /\ UNCHANGED <<data, part, lab, order, sp, mu, used, status, S>>

Next == ClassMeans \/ Scatter \/ Scale
Spec == Init /\ [][Next]_vars

\* ---------------- properties (C14)
Done == phase \in {"scatter", "scaled"}
\* the mean subtracted from the samples of a class is the mean of THAT class, whatever its label value
MeanLookupByClassNotByValue ==
    Done => /\ status = "ok"
            /\ \A p \in 1..Len(order) : used[p] = MeanOf(X, Where(Y, order[p]))
\* S is a function of (data, partition): Init ranges over every label map, every iteration order and
\* every presentation order, and the right-hand side mentions none of them
ScatterDependsOnlyOnPartition ==
    Done => /\ status = "ok"
            /\ S = PScatter(data, part)
            /\ S = PairScatter(data, part)
\* permuting the samples together with their labels changes nothing
SampleOrderInvariant ==
    Done => \A q \in SPerms : /\ CodeOk(Xs(data, q), Ys(part, lab, q), order) = (status = "ok")
                              /\ CodeScatter(Xs(data, q), Ys(part, lab, q), order) = S
ScaledByClassCount ==
    phase = "scaled" => /\ status = "ok"
                        /\ Ssc = MScale(Q(1, NClasses(part)), PScatter(data, part))
                        /\ Symmetric(Ssc) /\ PosDef(Ssc)                 \* so the Cholesky factor exists
                        /\ MMul(Ssc, MInv(Ssc)) = MId /\ MMul(MInv(Ssc), Ssc) = MId

\* the scatter is a function of the deviations from the class means in the units of the data: expressing the
\* features in other units (x -> c x + b) multiplies it by c^2 and nothing else.  (This law is what lets the
\* harness place a scenario at unit scales from 1e-6 to 1e3 and far from the origin, where an ABSOLUTE constant in
\* the code -- a ridge, a tolerance -- would show.)
Aff(d, c, b) == [i \in DOMAIN d |-> [j \in Feat |-> c * d[i][j] + b]]
AffineLaw ==
    Done => \A c \in {2, -3}, b \in {0, 7} :
                PScatter(Aff(data, c, b), part) = MScale(R(c * c), PScatter(data, part))

\* ---------------- export (terminal states)
Export == phase = "scaled" =>
    PrintT(ToJson([data |-> data, part |-> part, lab |-> lab, order |-> order, sp |-> sp, X |-> X, y |-> Y,
                   status |-> status, S |-> S, Ssc |-> Ssc,
                   P |-> IF status = "ok" /\ ~IsZero(Det(Ssc)) THEN MInv(Ssc) ELSE MZero]))
=============================================================================
