----------------------------- MODULE GmmPersist -----------------------------
(* Persistence of GMMMachine and GMMStats (gmm.py:600-681 machine reader/writer incl. the
   legacy reader and the trainer/UBM check; :241-304 statistics reader/writer/loader).

   A machine is abstracted to what a file can record: a tag for the visible parameters
   (weights, means, variances, floors -- their bit-exact round trip is checked on the real
   object by the replay), the trainer kind, the iteration cap, the convergence threshold and
   the three update switches.  `live` is the object the program holds, `file` the content of
   the HDF5 file, `orig` a ghost copy of the machine first saved.

   Writer and reader are transcribed field by field.  Named deviations transcribe the code
   before the repair:
     HDF5_TRAINER_BYTES        reader compares an h5py dataset with "map" and passes bytes as the
                               trainer name: every machine reloads as "ml" and never asks for its UBM
     HDF5_THRESHOLD_DEFAULTED  reader hard-codes convergence_threshold = 1e-5
     HDF5_NONE_NOT_WRITABLE    writer raises TypeError when the cap or the threshold is None        *)
EXTENDS Integers, Sequences, TLC, Json

CONSTANTS Trainers,     \* {"ml","map"}
          Caps,         \* values of max_fitting_steps; "None" allowed
          Thrs,         \* values of convergence_threshold (abstract names), "None" allowed
          DefaultThr,   \* the constructor's default threshold
          DefaultCap,   \* the constructor's default cap
          Dev

VARIABLES live, file, orig, last,
          slive, sfile          \* a statistics container (shape tag, value tag) and the statistics file
vars == <<live, file, orig, last, slive, sfile>>
mvars == <<live, file, orig>>
svars == <<slive, sfile>>

None == "None"
Switches == [um : BOOLEAN, uv : BOOLEAN, uw : BOOLEAN]
Machines == {m \in [params : {"P"}, trainer : Trainers, cap : Caps, thr : Thrs, sw : Switches] :
               ~(m.cap = None /\ m.thr = None)}        \* the constructor refuses both None
NoFile == [fmt |-> "none"]

\* ---- writer (GMMMachine.save)
Writable(m) == "HDF5_NONE_NOT_WRITABLE" \notin Dev \/ (m.cap # None /\ m.thr # None)
Written(m) == [fmt |-> "v1", params |-> m.params, trainer |-> m.trainer, cap |-> m.cap, thr |-> m.thr, sw |-> m.sw]
\* a legacy file records the Gaussians and the weights only
Legacy(m) == [fmt |-> "legacy", params |-> m.params]

\* ---- reader (GMMMachine.from_hdf5); ubmGiven says whether the caller passed a UBM
ReadTrainer(f) == IF "HDF5_TRAINER_BYTES" \in Dev THEN "ml" ELSE f.trainer
NeedsUbm(f) == f.fmt = "v1" /\ ReadTrainer(f) = "map"
Refused(f, ubmGiven) == NeedsUbm(f) /\ ~ubmGiven
Read(f) == IF f.fmt = "legacy"
           THEN [params |-> f.params, trainer |-> "ml", cap |-> DefaultCap, thr |-> DefaultThr,
                 sw |-> [um |-> TRUE, uv |-> FALSE, uw |-> FALSE]]
           ELSE [params |-> f.params, trainer |-> ReadTrainer(f), cap |-> f.cap,
                 thr |-> IF "HDF5_THRESHOLD_DEFAULTED" \in Dev THEN DefaultThr ELSE f.thr,
                 sw |-> f.sw]

\* a legacy file carries no configuration: the machine read from it is a new origin for later round trips
NewOrig == IF file.fmt = "legacy" THEN Read(file) ELSE orig

StatsValues == {[shape |-> "2x3", vals |-> "S"], [shape |-> "3x2", vals |-> "Z"]}
Init == /\ live \in Machines /\ file = NoFile /\ orig = live /\ last = "Init"
        /\ slive = [shape |-> "2x3", vals |-> "S"] /\ sfile = NoFile

Save == /\ Writable(live) /\ file' = Written(live) /\ last' = "Save" /\ UNCHANGED <<live, orig>>
SaveFails == /\ ~Writable(live) /\ last' = "SaveRaises" /\ UNCHANGED <<live, file, orig>>
\* constructor-from-file, with the UBM when the machine first saved was a MAP machine
FromFile == /\ file.fmt # "none" /\ ~Refused(file, orig.trainer = "map")
            /\ live' = Read(file) /\ last' = "FromFile" /\ orig' = NewOrig /\ UNCHANGED file
\* constructor-from-file without a UBM must refuse a MAP file (and only a MAP file)
FromFileNoUbm == /\ file.fmt # "none"
                 /\ IF Refused(file, FALSE) THEN last' = "Refused" /\ UNCHANGED <<live, orig>>
                    ELSE live' = Read(file) /\ last' = "FromFileNoUbm" /\ orig' = NewOrig
                 /\ UNCHANGED file
\* existing.load(file): the existing object hands its own prior to the reader
LoadInto == /\ file.fmt # "none" /\ ~Refused(file, orig.trainer = "map")
            /\ live' = Read(file) /\ last' = "LoadInto" /\ orig' = NewOrig /\ UNCHANGED file
\* the same model written in the legacy layout
WriteLegacy == /\ live.trainer = "ml" /\ live = orig /\ file' = Legacy(live) /\ last' = "WriteLegacy" /\ UNCHANGED <<live, orig>>

\* GMMStats.save / from_hdf5 / load (load resizes an object of another shape first)
StatsSave == /\ sfile' = [fmt |-> "v1", shape |-> slive.shape, vals |-> slive.vals] /\ last' = "StatsSave"
             /\ UNCHANGED slive
StatsFromFile == /\ sfile.fmt # "none" /\ slive' = [shape |-> sfile.shape, vals |-> sfile.vals]
                 /\ last' = "StatsFromFile" /\ UNCHANGED sfile
StatsLoadIntoOther == /\ sfile.fmt # "none"
                      /\ \E other \in StatsValues : other.shape # sfile.shape   \* the existing object, of another shape
                      /\ slive' = [shape |-> sfile.shape, vals |-> sfile.vals]
                      /\ last' = "StatsLoadIntoOther" /\ UNCHANGED sfile
MachineStep == (Save \/ SaveFails \/ FromFile \/ FromFileNoUbm \/ LoadInto \/ WriteLegacy) /\ UNCHANGED svars
StatsStep == (StatsSave \/ StatsFromFile \/ StatsLoadIntoOther) /\ UNCHANGED mvars
Next == MachineStep \/ StatsStep
Spec == Init /\ [][Next]_vars

\* ---------------- properties (C18)
Loaded == last \in {"FromFile", "FromFileNoUbm", "LoadInto"}
\* reading back yields the same visible parameters ...
RoundTripVisible == Loaded => live.params = orig.params
\* ... and every training setting the file records
RoundTripConfig == (Loaded /\ file.fmt = "v1") => live = orig
\* every valid configuration can be saved
AlwaysWritable == last # "SaveRaises"
\* a MAP file is refused without a UBM, and nothing else is
RefusedOnlyMapWithoutUbm == last = "Refused" => orig.trainer = "map"
MapNeedsUbm == (last = "FromFileNoUbm" /\ file.fmt = "v1") => orig.trainer = "ml"
\* saving the reloaded object produces an equivalent file
SaveLoadSaveStable == [][(last' = "Save" /\ Loaded /\ file.fmt = "v1") => file' = file]_vars
\* a legacy file loads to the same model as its current-format counterpart
LegacyEqCurrent == [][(last' \in {"FromFile", "FromFileNoUbm", "LoadInto"} /\ file.fmt = "legacy")
                         => live'.params = orig.params]_vars

StatsRoundTrip == sfile.fmt # "none" => (slive.shape = sfile.shape /\ slive.vals = sfile.vals /\ slive.vals = "S")

Export == PrintT(ToJson([f |-> [live |-> live, file |-> file], o |-> last',
                         t |-> [live |-> live', file |-> file'], orig |-> orig,
                         sf |-> [slive |-> slive, sfile |-> sfile], st |-> [slive |-> slive', sfile |-> sfile']]))
=============================================================================
