------------------------------ MODULE FaScore ------------------------------
(* Scoring side of ISVMachine / JFAMachine (factor_analysis.py: estimate_x, estimate_ux,
   _compute_id_plus_us_prod_inv, _compute_fn_x, ISVMachine.score, JFAMachine.score, ISVMachine.transform)
   and the linear_scoring call they end in (linear_scoring.py), exact rationals, channel rank r_U = 1,
   speaker rank r_V in {none, 1}.

   A scenario is one enrolled model and one probe:
     model  [jfa   BOOLEAN               JFAMachine (speaker factor y, subspace V) or ISVMachine (V = 0, y = 0)
             m, s  C x D matrices        UBM means / variances
             U, V  C x D matrices        the single column of the session / speaker subspace, per component x feature
             Dd    C x D matrix          the diagonal D
             z     C x D matrix, y       latent client factors, as returned by enroll]
     stats  sequence of [t, n, f]        the probe: one or several statistics (t frames, n[c], f[c][d])
   A matrix is a tuple (components) of tuples (features) of rationals <<num, den>>.

   The behaviour is a small state machine over that scenario: every public entry point may be called once,
   in any order, and `out` records what each returned:
     EstimateX    estimate_x(stats)           x = (1 + sum_c N_c U_c' S_c^-1 U_c)^-1 sum_c U_c' S_c^-1 (F_c - N_c m_c)
     EstimateUx   estimate_ux(stats)          U x
     Score        score(model, stats)         linear score of the client mean m + D z (+ V y) against the pooled
                                              statistics, UBM means shifted by U x, divided by the frame count
     ScoreSum     score(model, [sum(stats)])  the same probe handed over as its single summed statistic
     Transform    ISVMachine.transform(X)     U x for the statistics of ONE array (ISV, single-statistic probe)
   N, F, T are pooled over the probe's list of statistics.  The actions follow the order of operations of the code
   (per-component products, a = (client - ubm)/var, b = (F - N (ubm + offset))/T element-wise, contraction:
   the formulas of specs/LinearScoring.tla with one model, one pooled test item, offsets present, normalising);
   the checked formulas state the same values declaratively (flat sums, stationarity of the posterior in x).
   Sums go through the least common denominator (same values as Rat!Add, smaller intermediates).

   Dev is the set of named deviations switched on:
     ISV_TRANSFORM_NOT_A_LIST   transform hands the single statistics object to estimate_ux, which iterates
                                over it as a list: the call raises (result "error")     [what the code contains]
     FS_X_FROM_FIRST_STAT       N, F of estimate_x taken from the first statistic only
     FS_NO_FRAME_NORM           linear score not divided by the frame count
     FS_UX_NOT_PASSED           U x not passed as channel offset
     FS_CLIENT_MEAN_WITHOUT_D   client mean m + z (+ V y)                                                   *)
EXTENDS Rat, TLC, Json

CONSTANTS C, D,
          Models,       \* set of model records
          Probes,       \* set of sequences (length 1..2) of statistics
          Dev

VARIABLES scn, out
vars == <<scn, out>>

CI == 1..C
DI == 1..D
KI == 1..(C * D)                    \* supervector index
Kc(k) == ((k - 1) \div D) + 1
Kd(k) == ((k - 1) % D) + 1

\* explicit tuples (TLC evaluates a function constructor lazily, again at every application)
Tup(n, e(_)) == IF n = 1 THEN <<e(1)>> ELSE <<e(1), e(2)>>
Mat(e(_, _)) == Tup(C, LAMBDA c : Tup(D, LAMBDA d : e(c, d)))

AddL(a, b) == LET g == GCD(a[2], b[2])
              IN Norm(a[1] * (b[2] \div g) + b[1] * (a[2] \div g), (a[2] \div g) * b[2])
SubL(a, b) == AddL(a, Neg(b))
RECURSIVE SumL(_, _)
SumL(f, S) == IF S = {} THEN Zero
              ELSE LET i == CHOOSE i \in S : TRUE IN AddL(f[i], SumL(f, S \ {i}))

\* ------------------------------------------------------------------ the public steps, as the code performs them
\* sum(x.n for x in X), sum(x.sum_px for x in X); the frame count of sum(data[1:], start=data[0])
Pool(sts) ==
    LET H == 1..Len(sts)
    IN [t |-> SumL([h \in H |-> sts[h].t], H),
        n |-> Tup(C, LAMBDA c : SumL([h \in H |-> sts[h].n[c]], H)),
        f |-> Mat(LAMBDA c, d : SumL([h \in H |-> sts[h].f[c][d]], H))]

XStats(sts) == IF "FS_X_FROM_FIRST_STAT" \in Dev THEN <<sts[1]>> ELSE sts

\* _compute_id_plus_us_prod_inv: I + sum_c ((Uc' / sigma_c) Uc) n_c   (a 1 x 1 matrix at rank 1; its inverse divides)
IdPlusUsProd(mo, P) ==
    AddL(One, SumL([c \in CI |-> Mul(SumL([d \in DI |-> Mul(Div(mo.U[c][d], mo.s[c][d]), mo.U[c][d])], DI), P.n[c])], CI))
\* _compute_fn_x: f - ubm.means * n, then (U' / variance_supervector) @ fn_x
FnX(mo, P, c, d) == SubL(P.f[c][d], Mul(mo.m[c][d], P.n[c]))
UtInvSigmaFn(mo, P) ==
    SumL([k \in KI |-> Mul(Div(mo.U[Kc(k)][Kd(k)], mo.s[Kc(k)][Kd(k)]), FnX(mo, P, Kc(k), Kd(k)))], KI)
XOf(mo, sts) == LET P == Pool(XStats(sts)) IN Div(UtInvSigmaFn(mo, P), IdPlusUsProd(mo, P))

UxOf(mo, sts) == LET x == XOf(mo, sts) IN Mat(LAMBDA c, d : Mul(mo.U[c][d], x))

\* D * latent_z + mean_supervector (+ V @ latent_y)
ClientMean(mo) ==
    Mat(LAMBDA c, d :
          AddL(AddL(IF "FS_CLIENT_MEAN_WITHOUT_D" \in Dev THEN mo.z[c][d] ELSE Mul(mo.Dd[c][d], mo.z[c][d]),
                    mo.m[c][d]),
               IF mo.jfa THEN Mul(mo.V[c][d], mo.y) ELSE Zero))

\* linear_scoring(client mean, ubm, pooled statistics, Ux, frame_length_normalization=True)[0][0]
ScoreOf(mo, sts) ==
    LET P == Pool(sts)
        ux == UxOf(mo, sts)
        cm == ClientMean(mo)
        off(c, d) == IF "FS_UX_NOT_PASSED" \in Dev THEN Zero ELSE ux[c][d]
        a(c, d) == Div(SubL(cm[c][d], mo.m[c][d]), mo.s[c][d])
        raw(c, d) == SubL(P.f[c][d], Mul(P.n[c], AddL(mo.m[c][d], off(c, d))))
        b(c, d) == IF "FS_NO_FRAME_NORM" \in Dev THEN raw(c, d)
                   ELSE IF IsZero(P.t) THEN Zero ELSE Div(raw(c, d), P.t)
    IN SumL([c \in CI |-> SumL([d \in DI |-> Mul(a(c, d), b(c, d))], DI)], CI)

\* ------------------------------------------------------------------ behaviour
NotCalled == [st |-> "none", v |-> <<>>]
Raised == [st |-> "error", v |-> <<>>]
Val(v) == [st |-> "val", v |-> v]
Called(e) == out[e].st # "none"
HasTransform(s) == ~s.model.jfa /\ Len(s.stats) = 1     \* ISVMachine only; one array gives one statistic

Init == /\ \E mo \in Models, pr \in Probes : scn = [model |-> mo, stats |-> pr]
        /\ out = [x |-> NotCalled, ux |-> NotCalled, score |-> NotCalled, ssum |-> NotCalled, tr |-> NotCalled]

EstimateX == /\ ~Called("x")
             /\ out' = [out EXCEPT !.x = Val(XOf(scn.model, scn.stats))]
             /\ UNCHANGED scn
EstimateUx == /\ ~Called("ux")
              /\ out' = [out EXCEPT !.ux = Val(UxOf(scn.model, scn.stats))]
              /\ UNCHANGED scn
Score == /\ ~Called("score")
         /\ out' = [out EXCEPT !.score = Val(ScoreOf(scn.model, scn.stats))]
         /\ UNCHANGED scn
ScoreSum == /\ ~Called("ssum")
            /\ out' = [out EXCEPT !.ssum = Val(ScoreOf(scn.model, <<Pool(scn.stats)>>))]
            /\ UNCHANGED scn
Transform == /\ HasTransform(scn) /\ ~Called("tr")
             /\ out' = [out EXCEPT !.tr = IF "ISV_TRANSFORM_NOT_A_LIST" \in Dev THEN Raised
                                           ELSE Val(UxOf(scn.model, <<scn.stats[1]>>))]
             /\ UNCHANGED scn

Next == EstimateX \/ EstimateUx \/ Score \/ ScoreSum \/ Transform
Spec == Init /\ [][Next]_vars

\* ------------------------------------------------------------------ checked formulas (C11)
MO == scn.model
PS == Pool(scn.stats)               \* the probe's pooled statistics: N = sum N_h, F = sum F_h, T = sum T_h
Sk(A, k) == A[Kc(k)][Kd(k)]

\* x is the mode of the posterior of the channel factor given the pooled statistics:
\* d/dx [ sum_k (U_k x) (F_k - N_c m_k) / s_k - 1/2 N_c (U_k x)^2 / s_k ] - x  =  0
XSolvesSystem == Called("x") =>
    /\ out.x.st = "val"
    /\ LET x == out.x.v
       IN IsZero(SubL(SumL([k \in KI |->
                              Mul(Div(Sk(MO.U, k), Sk(MO.s, k)),
                                  SubL(Sk(PS.f, k), Mul(PS.n[Kc(k)], AddL(Sk(MO.m, k), Mul(Sk(MO.U, k), x)))))], KI),
                      x))

UxIsUTimesX == Called("x") /\ Called("ux") =>
    /\ out.ux.st = "val"
    /\ out.ux.v = Mat(LAMBDA c, d : Mul(MO.U[c][d], out.x.v))

\* closed form of the posterior mean over the flat supervector
XStar == Div(SumL([k \in KI |-> Div(Mul(Sk(MO.U, k), SubL(Sk(PS.f, k), Mul(PS.n[Kc(k)], Sk(MO.m, k)))), Sk(MO.s, k))], KI),
             AddL(One, SumL([k \in KI |-> Div(Mul(PS.n[Kc(k)], Sq(Sk(MO.U, k))), Sk(MO.s, k))], KI)))
\* the frame-normalised linear score of m + D z (+ V y) against (N, F, T) with the UBM means shifted by U x*:
\* one flat sum, divided once by the frame count, 0 for a probe without frames
Formula ==
    LET xs == XStar
        delta(k) == AddL(Mul(Sk(MO.Dd, k), Sk(MO.z, k)), IF MO.jfa THEN Mul(Sk(MO.V, k), MO.y) ELSE Zero)
        term(k) == Mul(Div(delta(k), Sk(MO.s, k)),
                       SubL(Sk(PS.f, k), Mul(PS.n[Kc(k)], AddL(Sk(MO.m, k), Mul(Sk(MO.U, k), xs)))))
        total == SumL([k \in KI |-> term(k)], KI)
    IN IF IsZero(PS.t) THEN Zero ELSE Div(total, PS.t)
ScoreIsCompensatedLinearScore ==
    /\ Called("score") => out.score = Val(Formula)
    /\ Called("ssum") => out.ssum = Val(Formula)

\* a probe given as several statistics scores as their sum
ListEqSum == Called("score") /\ Called("ssum") => out.score = out.ssum

\* the transform of an array is the channel offset estimated from that array's statistics
TransformEqEstimateUx == Called("tr") /\ Called("ux") => out.tr = out.ux

Shapes ==
    /\ Called("x") => Len(out.x.v) = 2 /\ out.x.v[2] > 0
    /\ Called("ux") => Len(out.ux.v) = C /\ \A c \in CI : Len(out.ux.v[c]) = D
    /\ Called("tr") /\ out.tr.st = "val" => Len(out.tr.v) = C /\ \A c \in CI : Len(out.tr.v[c]) = D

\* ------------------------------------------------------------------ export (terminal states: every entry point called)
Terminal == /\ Called("x") /\ Called("ux") /\ Called("score") /\ Called("ssum")
            /\ HasTransform(scn) => Called("tr")
Export == Terminal => PrintT(ToJson([scn |-> scn, out |-> out, pooled |-> PS]))
=============================================================================
