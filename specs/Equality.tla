----------------------------- MODULE Equality -----------------------------
(* The comparison relations of the two value-like classes, GMMStats and GMMMachine: `==` and
   `is_similar_to(other, rtol, atol)`.  Not one of the listed properties: part of the growing description of the
   system (DESIGN.md 12.5); run by `./check X02`, never registered.  C18 ("equal under the package's equality") and
   C02 lean on these relations, so what they are is written down here and bound to the code.

   An object is a function from field names to a position on a small grid, or "untrained" (a GMMMachine whose
   means were never set).  One grid step is 0.7 of the default tolerance of numpy.isclose (rtol 1e-5): positions
   one step apart are *similar* at the default tolerance but not bit-equal, positions two steps apart are not
   similar at the default tolerance but are at the wide one (rtol 1.6e-5), three steps apart are similar at none.
   Tolerance levels: 0 tight (rtol 1e-6), 1 default, 2 wide.

   Actions (each one public operation):
     New(o)          a new object with every field at position 1 (or an untrained machine)
     Copy(i)         copy.deepcopy / pickle round trip of object i
     Bump(i, f, k)   assign field f of object i the value at position k (through the public attribute / setter)

   Relations AS IMPLEMENTED:
     GMMStats.__eq__        bit equality of every field (log_likelihood, t, n, sum_px, sum_pxx)
     GMMMachine.__eq__      numpy.allclose at the DEFAULT tolerance on means, variances, variance thresholds and
                            weights -- a tolerance relation, hence reflexive and symmetric on this grid but NOT
                            transitive (MachineEqNotTransitive is refuted below, deliberately); an untrained machine
                            on the left compares unequal to everything, itself included
     is_similar_to(t)       every field within tolerance t

   Named deviations (each must be refuted):
     EQ_IGNORES_FIELD       `==` does not look at one field
     SIMILAR_ANY_FIELD      is_similar_to is satisfied by ONE field within tolerance (any for all)
     STATS_EQ_TOLERANT      GMMStats.__eq__ compares with a tolerance                                           *)
EXTENDS Integers, Sequences, FiniteSets, TLC, Json

CONSTANTS Fields, Grid, Kind, MaxObjs, MaxLen, Dev, Ignored
VARIABLES objs, hist
vars == <<objs, hist>>

Untrained == [f \in Fields |-> 0 - 1]     \* TLC cannot compare a function with a string: every field at -1
Tols == 0..2
Abs(x) == IF x < 0 THEN -x ELSE x
Trained(a) == a # Untrained
Looked == IF "EQ_IGNORES_FIELD" \in Dev THEN Fields \ {Ignored} ELSE Fields
Within(a, b, t, fs) == IF "SIMILAR_ANY_FIELD" \in Dev /\ t > 0 THEN \E f \in fs : Abs(a[f] - b[f]) <= t
                       ELSE \A f \in fs : Abs(a[f] - b[f]) <= t

\* ---------------- the relations
Eq(a, b) == IF Kind = "stats"
            THEN Within(a, b, IF "STATS_EQ_TOLERANT" \in Dev THEN 1 ELSE 0, Looked)
            ELSE Trained(a) /\ Trained(b) /\ Within(a, b, 1, Looked)
Similar(a, b, t) == Trained(a) /\ Trained(b) /\ Within(a, b, t, Fields)
\* what the real call does when an operand is untrained: `other.means` is None -> numpy raises; `self` untrained -> False
EqRaises(a, b) == Kind = "machine" /\ Trained(a) /\ ~Trained(b)

\* ---------------- actions
\* a new object starts at position 1 of every field (or untrained); variety comes from Bump -- [Fields -> Grid] as starting
\* values would only multiply the state space by relabelling
Values == {[f \in Fields |-> 1]} \cup (IF Kind = "machine" THEN {Untrained} ELSE {})
Init == objs = <<>> /\ hist = <<>>
New(o) == /\ Len(objs) < MaxObjs
          /\ objs' = Append(objs, o)
          /\ hist' = Append(hist, [a |-> "New", i |-> Len(objs) + 1, f |-> "", k |-> 0, o |-> o])
Copy(i) == /\ Len(objs) < MaxObjs
           /\ objs' = Append(objs, objs[i])
           /\ hist' = Append(hist, [a |-> "Copy", i |-> i, f |-> "", k |-> 0, o |-> objs[i]])
Bump(i, f, k) == /\ Trained(objs[i]) /\ objs[i][f] # k
                 /\ objs' = [objs EXCEPT ![i] = [@ EXCEPT ![f] = k]]
                 /\ hist' = Append(hist, [a |-> "Bump", i |-> i, f |-> f, k |-> k, o |-> objs'[i]])
Next == /\ Len(hist) < MaxLen
        /\ \/ \E o \in Values : New(o)
           \/ \E i \in 1..Len(objs) : Copy(i)
           \/ \E i \in 1..Len(objs), f \in Fields, k \in Grid : Bump(i, f, k)
Spec == Init /\ [][Next]_vars

\* ---------------- properties
Objs == {objs[n] : n \in 1..Len(objs)}
TrainedObjs == {o \in Objs : Trained(o)}
EqReflexiveOnTrained == \A a \in TrainedObjs : Eq(a, a)
UntrainedNeverEqual == \A a \in Objs : ~Trained(a) => \A b \in Objs : ~Eq(a, b)
EqSymmetric == \A a, b \in TrainedObjs : Eq(a, b) <=> Eq(b, a)
StatsEqTransitive == Kind = "stats" => \A a, b, c \in Objs : Eq(a, b) /\ Eq(b, c) => Eq(a, c)
StatsEqIsIdentity == Kind = "stats" => \A a, b \in Objs : Eq(a, b) <=> a = b
MachineEqNotTransitive == ~(Kind = "machine" /\ \E a, b, c \in TrainedObjs : Eq(a, b) /\ Eq(b, c) /\ ~Eq(a, c))   \* REFUTED on purpose
EqImpliesSimilar == \A a, b \in TrainedObjs : Eq(a, b) => Similar(a, b, 1)
MachineEqIsDefaultSimilar == Kind = "machine" => \A a, b \in TrainedObjs : Eq(a, b) <=> Similar(a, b, 1)
SimilarMonotone == \A a, b \in TrainedObjs, s, t \in Tols : s <= t /\ Similar(a, b, s) => Similar(a, b, t)
SimilarNeedsEveryField == \A a, b \in TrainedObjs, t \in Tols : Similar(a, b, t) => \A f \in Fields : Abs(a[f] - b[f]) <= t
\* action properties
CopyIsEqual == [][\A i \in 1..Len(objs) : (Len(objs') = Len(objs) + 1 /\ hist'[Len(hist')].a = "Copy" /\ hist'[Len(hist')].i = i
                                            /\ Trained(objs[i])) => Eq(objs'[Len(objs')], objs'[i]) /\ Similar(objs'[Len(objs')], objs'[i], 0)]_vars
EqSeesEveryField == [][\A i \in 1..Len(objs) : (Len(objs') = Len(objs) /\ Trained(objs[i]) /\ objs'[i] # objs[i]
                                                 /\ \E f \in Fields : Abs(objs'[i][f] - objs[i][f]) >= 2) => ~Eq(objs'[i], objs[i])]_vars

\* ---------------- export of complete behaviours with the relations of the final state (M2)
N == Len(objs)
Export == IF Len(hist) = MaxLen
          THEN PrintT(ToJson([h |-> hist,
                              eq |-> [i \in 1..N |-> [j \in 1..N |-> IF EqRaises(objs[i], objs[j]) THEN "raises"
                                                                     ELSE IF Eq(objs[i], objs[j]) THEN "T" ELSE "F"]],
                              sim |-> [t \in 1..3 |-> [i \in 1..N |-> [j \in 1..N |->
                                          IF ~Trained(objs[i]) \/ ~Trained(objs[j]) THEN "raises"
                                          ELSE IF Similar(objs[i], objs[j], t - 1) THEN "T" ELSE "F"]]]]))
          ELSE TRUE
=============================================================================
