------------------------------- MODULE BagTrain -------------------------------
(* Training ISV / JFA from a Dask bag of statistics (factor_analysis.py).

   STAGE 1 - `_prepare_dask_input` (:1322-1352) as written.  The bag holds n labelled statistics,
   sample s (1..n, the position in the flattened bag) has label y[s] in 0..K-1; the bag is cut into
   partitions of lengths comp[1..p] (a partition may mix classes, hold one element, or be empty).

        lengths = X.map_partitions(len).compute();  delayeds = X.to_delayed()
        X, i = [[] for _ in range(n_classes)], 0
        for length_, delayed_stats_list in zip(lengths, delayeds):        <- one action Regroup per partition
            for delayed_stat in delayed_stats_list:
                class_id = y[i];  X[class_id].append(delayed_stat);  i += 1
        X = [delayed(list)(stats).persist() for stats in X]               <- action Relabel
        y = [y[y == class_id] for class_id in range(n_classes)]

   The label is used as a LIST POSITION (Python position class_id = index class_id + 1 here).  The running
   index `i` is 0-based as in the code, so the sample it denotes is i + 1.
   Named deviation BAG_REGROUP_ASSUMES_SORTED: the class of the i-th statistic is taken from the
   contiguous runs a sorted label vector would have (class_id = sorted(y)[i]).

   STAGE 2 - the EM loops of ISVMachine.fit (:1488-1511) / JFAMachine.fit (:2155-2243) in their
   `input_is_dask` branches, as a task graph per iteration:

        e_step_output = [delayed(self.e_step_a)(X=xx, y=yy, ...) for xx, yy in zip(X, y)]   <- RunEClass(k), any order
        delayed_em_step = delayed(self.m_step_a)(e_step_output)                               <- RunM
        self._A = dask.compute(delayed_em_step)[0]                                            <- Submit ... Assign

   with a = the phase (ISV: U;  JFA: V, then U, then D; `iters` iterations each).  TWO MEMORY MODES:
   Shared   - tasks run on the caller's live machine (threads / synchronous scheduler): m_step_a writes
              host._A itself;
   Isolated - every task runs on a copy of the machine serialised with the graph (processes / cluster):
              the E-steps read the snapshot taken at Submit, m_step_a writes ITS copy and returns the new
              subspace; only Assign brings it to the caller.
   Parameters are VERSION TAGS per attribute (number of M-steps applied to it); a contribution is the pair
   (versions the E-step saw, list of samples of its class).  m_step_a reduces the list of contributions with
   reduce_iadd = functools.reduce(operator.iadd, list): everything is added INTO the first element, in list
   order (in Shared mode the first E-step result itself is overwritten, which the model keeps).
   Between two phases of JFA the code computes point estimates (finalize_v / finalize_u) from the caller's
   machine: `fin` records the version they were computed from.
   Named deviation BAG_RESULT_NOT_ASSIGNED: the value returned by the D phase's graph is not stored
   (`self._D = dask.compute(..)[0]` -> `dask.compute(..)[0]`); for ISV, which has no D phase, U.
   Named deviation BAG_ESTEP_OUTPUT_REUSED: `e_step_output` is built (and, once computed, kept) outside the
   loop over the iterations: the second M-step receives stale contributions and, in Shared mode, the first
   of them already holds the previous total (in-place addition) - every other class is counted twice.      *)
EXTENDS Integers, Sequences, FiniteSets, TLC, Json

CONSTANTS ScnSet,       \* explicit scenarios <<y, comp>>: labels of the flattened bag, partition lengths
          Gen,          \* <<nmin, nmax, kmax>>: in addition, every surjective labelling x every composition in that range
          Modes,        \* subset of {"Shared", "Isolated"}
          Kinds,        \* subset of {"ISV", "JFA"}
          Iters,        \* values of em_iterations; 0 = stage 1 only
          MaxOrders,    \* scope: scenarios with more than MaxOrders distinct E-step schedules are left out
          Dev

VARIABLES y, comp, mode, kind, iters,           \* scenario
          stage,                                \* "regroup" | "em" | "done"
          part, i, X, ylists,                   \* stage 1: next partition, running index, per-class lists, regrouped labels
          ph, it, g,                            \* stage 2: phase number, iterations completed in it, graph state
          host, snap, wm,                       \* versions: caller's machine, snapshot shipped with the graph, M-step's machine
          edone, eres, macc, mcls, mret,        \* E-steps done, their results, what the M-step reduced, what it returned
          fin,                                  \* versions the hand-over estimates were computed from
          ord, orders                           \* history: order of the E-steps in this graph / in all graphs so far
vars == <<y, comp, mode, kind, iters, stage, part, i, X, ylists, ph, it, g, host, snap, wm, edone, eres,
          macc, mcls, mret, fin, ord, orders>>

\* ---------------------------------------------------------------- scenarios
Surj(n, K) == {f \in [1..n -> 0..(K - 1)] : \A c \in 0..(K - 1) : \E s \in 1..n : f[s] = c}
\* the composition of n cut after the positions in `cuts`
Bnd(n, cuts, j) == IF j = 0 THEN 0
                   ELSE LET S == cuts \cup {n} IN CHOOSE b \in S : Cardinality({c \in S : c <= b}) = j
CompOf(n, cuts) == [j \in 1..(Cardinality(cuts) + 1) |-> Bnd(n, cuts, j) - Bnd(n, cuts, j - 1)]

N == Len(y)
P == Len(comp)
NClasses == Cardinality({y[s] : s \in 1..N})          \* n_classes = len(set(y))
Classes == 0..(NClasses - 1)
RECURSIVE Fact(_), Pow(_, _)
Fact(k) == IF k <= 1 THEN 1 ELSE k * Fact(k - 1)
Pow(b, e) == IF e = 0 THEN 1 ELSE b * Pow(b, e - 1)
Phases(kd) == IF kd = "ISV" THEN <<"U">> ELSE <<"V", "U", "D">>
Attrs == {"U", "V", "D"}
NPh == Len(Phases(kind))
Attr == Phases(kind)[ph]
Ver0 == [a \in Attrs |-> 0]
NoRes == [ver |-> <<>>, smp |-> <<>>]
LastAttr == IF kind = "ISV" THEN "U" ELSE "D"
NotAssigned == IF "BAG_RESULT_NOT_ASSIGNED" \in Dev THEN {LastAttr} ELSE {}

Init == /\ \/ \E s \in ScnSet : y = s[1] /\ comp = s[2]
           \/ \E n \in Gen[1]..Gen[2], K \in 1..Gen[3] :
                 /\ y \in Surj(n, K)
                 /\ \E cuts \in SUBSET (1..(n - 1)) : comp = CompOf(n, cuts)
        /\ mode \in Modes /\ kind \in Kinds /\ iters \in Iters
        /\ (iters = 0 => mode = CHOOSE m \in Modes : TRUE) /\ (iters = 0 => kind = CHOOSE k \in Kinds : TRUE)
        /\ Pow(Fact(NClasses), Len(Phases(kind)) * iters) <= MaxOrders
        /\ stage = "regroup" /\ part = 1 /\ i = 0
        /\ X = [c \in 1..NClasses |-> <<>>] /\ ylists = <<>>
        /\ ph = 1 /\ it = 0 /\ g = "idle"
        /\ host = Ver0 /\ snap = Ver0 /\ wm = Ver0
        /\ edone = {} /\ eres = [c \in 1..NClasses |-> NoRes] /\ macc = <<>> /\ mcls = <<>> /\ mret = 0
        /\ fin = <<>> /\ ord = <<>> /\ orders = <<>>

\* ---------------------------------------------------------------- stage 1
\* sorted(y)[i] (0-based i): the label whose run contains position i + 1
Count(c) == Cardinality({s \in 1..N : y[s] = c})
RECURSIVE Before(_)
Before(c) == IF c = 0 THEN 0 ELSE Before(c - 1) + Count(c - 1)
SortedLabelAt(pos) == CHOOSE c \in Classes : Before(c) < pos /\ pos <= Before(c) + Count(c)
ClassIdAt(idx) == IF "BAG_REGROUP_ASSUMES_SORTED" \in Dev THEN SortedLabelAt(idx + 1) ELSE y[idx + 1]
\* the inner loop over one partition of `len` statistics starting at running index idx
RECURSIVE Place(_, _, _)
Place(lists, idx, len) ==
    IF len = 0 THEN lists
    ELSE LET cid == ClassIdAt(idx)
         IN Place([lists EXCEPT ![cid + 1] = Append(@, idx + 1)], idx + 1, len - 1)

Regroup == /\ stage = "regroup" /\ part <= P
           /\ X' = Place(X, i, comp[part])
           /\ i' = i + comp[part]
           /\ part' = part + 1
           /\ UNCHANGED <<y, comp, mode, kind, iters, stage, ylists, ph, it, g, host, snap, wm, edone, eres,
                          macc, mcls, mret, fin, ord, orders>>

\* y[y == class_id]: the labels equal to class_id, as many as there are
Relabel == /\ stage = "regroup" /\ part = P + 1
           /\ ylists' = [c \in 1..NClasses |-> [j \in 1..Count(c - 1) |-> c - 1]]
           /\ stage' = IF iters = 0 THEN "done" ELSE "em"
           /\ UNCHANGED <<y, comp, mode, kind, iters, part, i, X, ph, it, g, host, snap, wm, edone, eres,
                          macc, mcls, mret, fin, ord, orders>>

\* ---------------------------------------------------------------- stage 2
Seen == IF mode = "Shared" THEN host ELSE snap

\* deviation: the list of delayed E-steps is built once per phase, outside the loop over the iterations
ReusesEStepOutput == "BAG_ESTEP_OUTPUT_REUSED" \in Dev /\ it > 0
Submit == /\ stage = "em" /\ g = "idle"
          /\ snap' = host
          /\ IF ReusesEStepOutput
                THEN UNCHANGED <<edone, eres, ord>>
                ELSE edone' = {} /\ eres' = [c \in 1..NClasses |-> NoRes] /\ ord' = <<>>
          /\ g' = "E"
          /\ UNCHANGED <<y, comp, mode, kind, iters, stage, part, i, X, ylists, ph, it, host, wm,
                         macc, mcls, mret, fin, orders>>

RunEClass(k) == /\ stage = "em" /\ g = "E" /\ k \notin edone
                /\ eres' = [eres EXCEPT ![k + 1] = [ver |-> Seen, smp |-> X[k + 1]]]
                /\ edone' = edone \cup {k}
                /\ ord' = Append(ord, k)
                /\ UNCHANGED <<y, comp, mode, kind, iters, stage, part, i, X, ylists, ph, it, g, host, snap, wm,
                               macc, mcls, mret, fin, orders>>

\* functools.reduce(operator.iadd, list): into the first element, in list order
RECURSIVE IAddAll(_, _)
IAddAll(acc, rest) == IF rest = <<>> THEN acc ELSE IAddAll(acc \o Head(rest).smp, Tail(rest))

RunM == /\ stage = "em" /\ g = "E" /\ edone = Classes
        /\ LET total == IAddAll(eres[1].smp, Tail(eres))
           IN /\ macc' = total
              /\ mcls' = [c \in 1..NClasses |-> c - 1]
              /\ IF mode = "Shared"
                    THEN /\ host' = [host EXCEPT ![Attr] = it + 1]
                         /\ eres' = [eres EXCEPT ![1].smp = total]
                         /\ UNCHANGED wm
                    ELSE /\ wm' = [snap EXCEPT ![Attr] = it + 1]
                         /\ UNCHANGED <<host, eres>>
        /\ mret' = it + 1
        /\ orders' = Append(orders, ord)
        /\ g' = "A"
        /\ UNCHANGED <<y, comp, mode, kind, iters, stage, part, i, X, ylists, ph, it, snap, edone, fin, ord>>

Assign == /\ stage = "em" /\ g = "A"
          /\ host' = IF Attr \in NotAssigned THEN host ELSE [host EXCEPT ![Attr] = mret]
          /\ g' = "N"
          /\ UNCHANGED <<y, comp, mode, kind, iters, stage, part, i, X, ylists, ph, it, snap, wm, edone, eres,
                         macc, mcls, mret, fin, ord, orders>>

NextIter == /\ stage = "em" /\ g = "N"
            /\ IF it + 1 < iters
                  THEN /\ it' = it + 1 /\ UNCHANGED <<ph, fin, stage>>
                  ELSE /\ it' = 0 /\ ph' = ph + 1
                       /\ fin' = Append(fin, host[Attr])          \* finalize_v / finalize_u read the caller's machine
                       /\ stage' = IF ph = NPh THEN "done" ELSE "em"
            /\ g' = "idle"
            /\ UNCHANGED <<y, comp, mode, kind, iters, part, i, X, ylists, host, snap, wm, edone, eres,
                           macc, mcls, mret, ord, orders>>

Next == Regroup \/ Relabel \/ Submit \/ (\E k \in Classes : RunEClass(k)) \/ RunM \/ Assign \/ NextIter
Spec == Init /\ [][Next]_vars

\* ---------------------------------------------------------------- properties (C12)
IsPermOf(q, S) == Len(q) = Cardinality(S) /\ {q[j] : j \in 1..Len(q)} = S
\* the samples with label c, in the original order
RECURSIVE WithLabel(_, _)
WithLabel(c, upto) == IF upto = 0 THEN <<>>
                      ELSE IF y[upto] = c THEN Append(WithLabel(c, upto - 1), upto) ELSE WithLabel(c, upto - 1)
RECURSIVE Concat(_)
Concat(ss) == IF ss = <<>> THEN <<>> ELSE Head(ss) \o Concat(Tail(ss))

\* while the loop runs: class list c holds exactly the label-c samples among the first i, in order
RegroupProgress == stage = "regroup" => \A c \in Classes : X[c + 1] = WithLabel(c, i)
RegroupIsPartitionByLabel ==
    (stage # "regroup" \/ part = P + 1) =>
        /\ i = N
        /\ \A c \in Classes : X[c + 1] = WithLabel(c, N)
        /\ IsPermOf(Concat(X), 1..N)                                       \* every statistic exactly once
        /\ stage # "regroup" => \A c \in Classes : /\ Len(ylists[c + 1]) = Len(X[c + 1])
                                                   /\ \A j \in 1..Len(ylists[c + 1]) : ylists[c + 1][j] = c

\* what the caller's machine must hold when `done` iterations of phase number `p` are complete
Expected(p, done) == [a \in Attrs |->
    IF \E q \in 1..NPh : Phases(kind)[q] = a
       THEN LET q == CHOOSE q \in 1..NPh : Phases(kind)[q] = a
            IN IF q < p THEN iters ELSE IF q = p THEN done ELSE 0
       ELSE 0]
HostFreshAfterIter == (stage \in {"em", "done"} /\ g = "idle") => host = Expected(ph, it)
AllContribsAtCurrentVersion ==
    (stage = "em" /\ g # "idle") =>
        /\ \A k \in edone : eres[k + 1].ver = Expected(ph, it)        \* `it` M-steps of this phase done so far
        /\ g = "E" => \A k \in Classes \ edone : eres[k + 1] = NoRes
ExactlyOncePerMStep ==
    (stage = "em" /\ g \in {"A", "N"}) =>
        /\ mcls = [c \in 1..NClasses |-> c - 1]               \* every class once
        /\ IsPermOf(macc, 1..N)                               \* hence every statistic once
        /\ IsPermOf(ord, Classes)                             \* every E-step task ran once
        /\ mret = it + 1
HandOverFresh == \A q \in 1..Len(fin) : fin[q] = iters
TypeOK == /\ i \in 0..N /\ part \in 1..(P + 1) /\ ph \in 1..(NPh + 1) /\ it \in 0..iters
          /\ g \in {"idle", "E", "A", "N"}

\* ---------------------------------------------------------------- export (terminal states)
Export == stage = "done" =>
    PrintT(ToJson([y |-> y, comp |-> comp, K |-> NClasses, lists |-> X, ylists |-> ylists,
                   mode |-> mode, kind |-> kind, iters |-> iters, orders |-> orders,
                   host |-> [U |-> host["U"], V |-> host["V"], D |-> host["D"]], fin |-> fin]))
=============================================================================
