------------------------------- MODULE IVector -------------------------------
(* The total-variability (i-vector) model of bob/learn/em/ivector.py over exact rationals.

     supervector mean of component c :  m_c + T_c w ,   w ~ N(0, I)   (w of dimension Rt)
     diagonal covariances sigma_c

   ivector.py:82-131   posterior precision  L = I + sum_c N_c T_c' sigma_c^-1 T_c
                       linear term          b = sum_c T_c' sigma_c^-1 (F_c - N_c m_c)
   ivector.py:332-348  project   : w = L^-1 b                       (a linear solve)
   ivector.py:134-178  e_step    : accumulators  N E[ww'], Fnorm E[w]', Snorm, N
                                   with E[w] = L^-1 b, E[ww'] = L^-1 + E[w]E[w]'
   ivector.py:181-209  m_step    : per component  T_c A_c = B_c  (zero-matrix guard: A_c = 0 -> T_c = 0);
                                   sigma_c = (Snorm_c - diag(B_c T_c')) / N_c, floored.

   Inductive one-step form (DESIGN.md section 3): the *current* parameters (m, T, sigma) of a
   scenario range over all small rationals, not only over values reachable by training, and the
   three public steps are taken once from there:

        start --Project--> p --EStep--> e --MStep(update_sigma)--> m

   Rt is 1 or 2; 2x2 systems are solved by Cramer's rule.  A scenario is a record
        [m |-> [c][d], T |-> [c][d][t], sg |-> [c][d], upd |-> BOOLEAN,
         stats |-> sequence of [n |-> [c], f |-> [c][d], s |-> [c][d]]]
   of rationals <<num, den>>.

   A component whose total count is zero has no data: the intended M-step leaves it with a finite,
   floor-respecting covariance (modelled as "keeps its previous covariance", floored); the named
   deviation IVECTOR_SIGMA_DIV_ZERO_COUNT is the expression the code contains, 0/0 = NaN, which the
   floor comparison `NaN < floor` does not repair.  NaN is <<0, 0>>.                          *)
EXTENDS Rat, TLC, Json

CONSTANTS C, D, Rt,       \* components, features, dimension of w (1 or 2)
          Scenarios,      \* set of scenario records
          Floor,          \* variance floor handed to the machine (a positive rational)
          Affs,           \* feature maps x -> a x + b as pairs <<a, b>> of rationals, a # 0
          Dev,            \* named deviations switched on
          Bw, Ba, Bt      \* scope of the 32-bit model: bounds on |num|, den of i-vectors / accumulators / new T

ASSUME Rt \in {1, 2} /\ IsPos(Floor)

VARIABLES scn,            \* the scenario
          phase,          \* "start" | "p" | "e" | "m"
          w,              \* [i |-> i-vector of statistic i]                 (Project)
          acc,            \* [nww, fw, sn, n] accumulators                    (EStep)
          newT, newSg     \* parameters after the M-step                      (MStep)
vars == <<scn, phase, w, acc, newT, newSg>>

CI == 1..C
DI == 1..D
TI == 1..Rt
CD == CI \X DI
SI == 1..Len(scn.stats)
NaN == <<0, 0>>
Finite(x) == x[2] # 0
Small(x, B) == Abs(x[1]) <= B /\ x[2] <= B

\* ---------------------------------------------------------------- 1x1 / 2x2 linear algebra
Det(M) == IF Rt = 1 THEN M[1][1] ELSE Sub(Mul(M[1][1], M[2][2]), Mul(M[1][2], M[2][1]))
\* the solution of M x = b (Cramer); Det(M) # 0 is the caller's obligation
Solve(M, b) ==
    IF Rt = 1 THEN <<Div(b[1], M[1][1])>>
    ELSE LET dt == Det(M)
         IN <<Div(Sub(Mul(b[1], M[2][2]), Mul(M[1][2], b[2])), dt),
              Div(Sub(Mul(M[1][1], b[2]), Mul(M[2][1], b[1])), dt)>>
Inv(M) ==
    IF Rt = 1 THEN << <<Div(One, M[1][1])>> >>
    ELSE LET dt == Det(M)
         IN << <<Div(M[2][2], dt), Div(Neg(M[1][2]), dt)>>,
               <<Div(Neg(M[2][1]), dt), Div(M[1][1], dt)>> >>
MatVec(M, x) == [t \in TI |-> SumOver([u \in TI |-> Mul(M[t][u], x[u])], TI)]
MatMul(A, B) == [t \in TI |-> [u \in TI |-> SumOver([v \in TI |-> Mul(A[t][v], B[v][u])], TI)]]
Transpose(M) == [t \in TI |-> [u \in TI |-> M[u][t]]]
Ident == [t \in TI |-> [u \in TI |-> IF t = u THEN One ELSE Zero]]
IsZeroMat(M) == \A t \in TI, u \in TI : IsZero(M[t][u])
ZeroVec == [t \in TI |-> Zero]

\* ---------------------------------------------------------------- centred statistics
Fnorm(m, st) == [c \in CI |-> [d \in DI |-> Sub(st.f[c][d], Mul(st.n[c], m[c][d]))]]
Snorm(m, st) == [c \in CI |-> [d \in DI |->
                    Add(Sub(st.s[c][d], Mul(R(2), Mul(st.f[c][d], m[c][d]))), Mul(st.n[c], Sq(m[c][d])))]]

\* ---------------------------------------------------------------- posterior of w given one statistic
Prec(T, sg, st) ==
    [t \in TI |-> [u \in TI |->
        Add(IF t = u THEN One ELSE Zero,
            SumOver([cd \in CD |-> Mul(st.n[cd[1]],
                                       Div(Mul(T[cd[1]][cd[2]][t], T[cd[1]][cd[2]][u]), sg[cd[1]][cd[2]]))], CD))]]
Lin(m, T, sg, st) ==
    LET fn == Fnorm(m, st)
    IN [t \in TI |-> SumOver([cd \in CD |-> Div(Mul(T[cd[1]][cd[2]][t], fn[cd[1]][cd[2]]), sg[cd[1]][cd[2]])], CD)]
PostMean(m, T, sg, st) == Solve(Prec(T, sg, st), Lin(m, T, sg, st))

Init == /\ scn \in Scenarios
        /\ phase = "start"
        /\ w = <<>> /\ acc = <<>> /\ newT = <<>> /\ newSg = <<>>

\* IVectorMachine.project on every statistic of the list ( = IVectorMachine.transform)
Project ==
    /\ phase = "start" /\ phase' = "p"
    /\ w' = [i \in SI |-> PostMean(scn.m, scn.T, scn.sg, scn.stats[i])]
    /\ UNCHANGED <<scn, acc, newT, newSg>>

\* module-level e_step over the list of statistics
\* Scope of the exact model: TLC integers are 32 bit, so a scenario whose exact i-vectors (accumulators,
\* new T) have large numerators or denominators is followed up to the projection (the E-step) only.
\* Conjunctions are evaluated left to right, so each stage is computed only when the previous one is small.
EScope == /\ \A i \in SI, t \in TI : Small(w[i][t], Bw)
          /\ \A i \in SI : Small(Det(Prec(scn.T, scn.sg, scn.stats[i])), Bw)
EStep ==
    /\ phase = "p" /\ phase' = "e" /\ EScope
    /\ LET pinv == [i \in SI |-> Inv(Prec(scn.T, scn.sg, scn.stats[i]))]
           eww == [i \in SI |-> [t \in TI |-> [u \in TI |-> Add(pinv[i][t][u], Mul(w[i][t], w[i][u]))]]]
           fn == [i \in SI |-> Fnorm(scn.m, scn.stats[i])]
           sn == [i \in SI |-> Snorm(scn.m, scn.stats[i])]
       IN acc' = [nww |-> [c \in CI |-> [t \in TI |-> [u \in TI |->
                              SumOver([i \in SI |-> Mul(scn.stats[i].n[c], eww[i][t][u])], SI)]]],
                  fw |-> [c \in CI |-> [d \in DI |-> [t \in TI |->
                              SumOver([i \in SI |-> Mul(fn[i][c][d], w[i][t])], SI)]]],
                  sn |-> [c \in CI |-> [d \in DI |-> SumOver([i \in SI |-> sn[i][c][d]], SI)]],
                  n |-> [c \in CI |-> SumOver([i \in SI |-> scn.stats[i].n[c]], SI)]]
    /\ UNCHANGED <<scn, w, newT, newSg>>

\* module-level m_step
\* T_c A_c = B_c, row d:  A_c' T_cd' = B_cd'   (zero-matrix guard: a component without data gets T_c = 0)
SolveT(c) == [d \in DI |-> IF IsZeroMat(acc.nww[c]) THEN ZeroVec
                           ELSE Solve(Transpose(acc.nww[c]), acc.fw[c][d])]
RawSigma(c, d, nT) ==
    Div(Sub(acc.sn[c][d], SumOver([t \in TI |-> Mul(acc.fw[c][d][t], nT[c][d][t])], TI)), acc.n[c])
SigmaOf(c, d, nT) ==
    IF IsZero(acc.n[c])
    THEN (IF "IVECTOR_SIGMA_DIV_ZERO_COUNT" \in Dev THEN NaN       \* 0/0, and NaN < floor is false
          ELSE RMax(scn.sg[c][d], Floor))                           \* no data: the covariance is kept
    ELSE RMax(RawSigma(c, d, nT), Floor)
MScope == /\ \A c \in CI, t \in TI, u \in TI : Small(acc.nww[c][t][u], Ba)
          /\ \A c \in CI, d \in DI, t \in TI : Small(acc.fw[c][d][t], Ba)
          /\ \A c \in CI, d \in DI, t \in TI : Small(SolveT(c)[d][t], Bt)
MStep(upd) ==
    /\ phase = "e" /\ phase' = "m" /\ scn.upd = upd /\ MScope
    /\ LET nT == [c \in CI |-> SolveT(c)]
       IN /\ newT' = nT
          /\ newSg' = IF upd THEN [c \in CI |-> [d \in DI |-> SigmaOf(c, d, nT)]] ELSE scn.sg
    /\ UNCHANGED <<scn, w, acc>>

Next == Project \/ EStep \/ (\E u \in BOOLEAN : MStep(u))
Spec == Init /\ [][Next]_vars

\* ================================================================= properties (C10)
\* the i-vector is the unique solution of  (I + sum_c N_c T_c' S_c^-1 T_c) w = sum_c T_c' S_c^-1 (F_c - N_c m_c)
ProjectionSolvesSystem ==
    phase = "p" => \A i \in SI :
        LET P == Prec(scn.T, scn.sg, scn.stats[i])
        IN /\ IsPos(Det(P))                                          \* unique
           /\ MatVec(P, w[i]) = Lin(scn.m, scn.T, scn.sg, scn.stats[i])
ZeroFramesGiveZero ==
    phase = "p" => \A i \in SI : (\A c \in CI : IsZero(scn.stats[i].n[c])) => \A t \in TI : IsZero(w[i][t])
\* the second moment used by the E-step is the posterior covariance plus the outer product of the mean
PosteriorCovIsInverse ==
    phase = "p" => \A i \in SI :
        LET P == Prec(scn.T, scn.sg, scn.stats[i]) IN MatMul(P, Inv(P)) = Ident
\* T_c A_c = B_c for every component with a non-zero A_c
MStepSolvesNormalEq ==
    phase = "m" => \A c \in CI : ~IsZeroMat(acc.nww[c]) =>
        /\ IsPos(Det(acc.nww[c]))
        /\ \A d \in DI, u \in TI :
              SumOver([t \in TI |-> Mul(newT[c][d][t], acc.nww[c][t][u])], TI) = acc.fw[c][d][u]
GeqFloor(x) == Finite(x) /\ Leq(Floor, x)                             \* NaN compares false
SigmaAboveFloor ==
    (phase = "m" /\ scn.upd) => \A c \in CI, d \in DI : GeqFloor(newSg[c][d])
AllFinite ==
    /\ phase # "start" => \A i \in SI, t \in TI : Finite(w[i][t])
    /\ phase = "m" => /\ \A c \in CI, d \in DI, t \in TI : Finite(newT[c][d][t])
                      /\ \A c \in CI, d \in DI : Finite(newSg[c][d])
\* x -> a x + b on the features leaves the i-vector unchanged
AffM(m, a, b) == [c \in CI |-> [d \in DI |-> Add(Mul(a, m[c][d]), b)]]
AffT(T, a) == [c \in CI |-> [d \in DI |-> [t \in TI |-> Mul(a, T[c][d][t])]]]
AffSg(sg, a) == [c \in CI |-> [d \in DI |-> Mul(Sq(a), sg[c][d])]]
AffSt(st, a, b) ==
    [n |-> st.n,
     f |-> [c \in CI |-> [d \in DI |-> Add(Mul(a, st.f[c][d]), Mul(b, st.n[c]))]],
     s |-> [c \in CI |-> [d \in DI |-> Add(Add(Mul(Sq(a), st.s[c][d]), Mul(Mul(R(2), Mul(a, b)), st.f[c][d])),
                                           Mul(Sq(b), st.n[c]))]]]
AffineInvariant ==
    phase = "p" => \A ab \in Affs, i \in SI :
        PostMean(AffM(scn.m, ab[1], ab[2]), AffT(scn.T, ab[1]), AffSg(scn.sg, ab[1]),
                 AffSt(scn.stats[i], ab[1], ab[2])) = w[i]

\* ================================================================= export (terminal states)
ZeroCount == [c \in CI |-> IsZero(acc.n[c])]
Export ==
    /\ (phase = "p" /\ ~EScope) => PrintT(ToJson([phase |-> phase, scn |-> scn, w |-> w]))
    /\ (phase = "e" /\ ~MScope) => PrintT(ToJson([phase |-> phase, scn |-> scn, w |-> w, acc |-> acc]))
    /\ phase = "m" =>
         PrintT(ToJson([phase |-> phase, scn |-> scn, w |-> w, acc |-> acc, newT |-> newT, newSg |-> newSg,
                        nodata |-> ZeroCount,
                        floored |-> [c \in CI |-> [d \in DI |-> scn.upd /\ ~ZeroCount[c] /\ newSg[c][d] = Floor]]]))
=============================================================================
