----------------------------- MODULE GmmDensity -----------------------------
(* The weighted per-component log-density of a GMM as the code computes it from its caches
   (gmm.py:35-61 log_weighted_likelihood; :527-532 log-weights; :555-563 / :581-588 normalisers
   g_norm = n*log(2 pi) + sum(log var), variances clamped by the floors), against the
   declarative product of normalised one-dimensional Gaussians.  A batch is evaluated row by
   row, a row-chunked array chunk by chunk (any order); results never depend on the
   company a row keeps.  All values are exact elements of the LogTerm space.

   Named deviations: DENS_NO_LOG_WEIGHT, DENS_NORMALISER_WITHOUT_2PI, DENS_FLOOR_IGNORED.        *)
EXTENDS LogTerm, TLC, Json

CONSTANTS C, D,
          Machines,     \* set of records [w, mu, var, floor]: weights (C loggable rationals), means and
                        \* variances ([1..C -> [1..D -> Rat]], variances loggable), scalar floor (loggable)
          Batches,      \* set of batches: sequences of rows, each row a sequence of D integers
          Comps,        \* compositions (sequences of positive block lengths); those matching the batch length are used
          Scales, Shifts,   \* per-feature affine maps x -> a*x + b used by AffineShift (a loggable in absolute value)
          Dev

VARIABLES m, batch, comp,       \* scenario
          out,                  \* [row -> [component -> LogTerm]] or <<>> where not yet evaluated
          done                  \* set of blocks evaluated
vars == <<m, batch, comp, out, done>>

Comp == 1..C
Feat == 1..D
Rows == 1..Len(batch)
RECURSIVE PrefixLen(_, _)
PrefixLen(c, b) == IF b = 0 THEN 0 ELSE c[b] + PrefixLen(c, b - 1)
Blk(b) == (PrefixLen(comp, b - 1) + 1)..PrefixLen(comp, b)

\* ---- the machine's caches, as its setters compute them
Clamped(mm) == [c \in Comp |-> [j \in Feat |->
                  IF "DENS_FLOOR_IGNORED" \in Dev THEN mm.var[c][j] ELSE RMax(mm.floor, mm.var[c][j])]]
LogW(mm) == [c \in Comp |-> IF "DENS_NO_LOG_WEIGHT" \in Dev THEN LTZero ELSE LogOf(mm.w[c])]
GNorm(mm) == [c \in Comp |->
                LTAdd(IF "DENS_NORMALISER_WITHOUT_2PI" \in Dev THEN LTZero ELSE LTScale(R(D), Log2Pi),
                      LTSumOver([j \in Feat |-> LogOf(Clamped(mm)[c][j])], Feat))]
\* log_weighted_likelihood for one row:  log_w + (-1/2) * (g_norm + z),  z = sum_j (x_j - mu_j)^2 / var_j
Z(mm, x, c) == SumOver([j \in Feat |-> Div(Sq(Sub(R(x[j]), mm.mu[c][j])), Clamped(mm)[c][j])], Feat)
Cached(mm, x) == [c \in Comp |-> LTAdd(LogW(mm)[c], LTScale(Q(-1, 2), LTAdd(GNorm(mm)[c], LTConst(Z(mm, x, c)))))]

\* ---- declarative: log( w_c * prod_j N(x_j; mu_cj, v_cj) ) with v = max(floor, var)
LogNormal1(x, mu, v) == LTAdd(LTScale(Q(-1, 2), LTAdd(Log2Pi, LogOf(v))), LTConst(Mul(Q(-1, 2), Div(Sq(Sub(R(x), mu)), v))))
Density(mm, x) == [c \in Comp |->
                     LTAdd(LogOf(mm.w[c]),
                           LTSumOver([j \in Feat |-> LogNormal1(x[j], mm.mu[c][j], RMax(mm.floor, mm.var[c][j]))], Feat))]

Init == /\ m \in Machines /\ batch \in Batches /\ comp \in Comps
        /\ PrefixLen(comp, Len(comp)) = Len(batch)
        /\ out = [i \in Rows |-> <<>>] /\ done = {}

\* evaluate one chunk of the row-chunked array (any order)
EvalChunk(b) == /\ b \in 1..Len(comp) /\ b \notin done /\ done' = done \cup {b}
                /\ out' = [i \in Rows |-> IF i \in Blk(b) THEN Cached(m, batch[i]) ELSE out[i]]
                /\ UNCHANGED <<m, batch, comp>>
Next == \E b \in 1..Len(comp) : EvalChunk(b)
Spec == Init /\ [][Next]_vars
Finished == done = 1..Len(comp)

\* ---------------- properties (C01)
CachedFormIsDensity == \A i \in Rows : out[i] # <<>> => out[i] = Density(m, batch[i])
\* a row scores identically alone, inside a batch, inside any chunk
BatchEqSingle == \A i \in Rows : out[i] # <<>> => out[i] = Cached(m, batch[i])
ChunkEqBatch == \A i, k \in Rows : (out[i] # <<>> /\ out[k] # <<>> /\ batch[i] = batch[k]) => out[i] = out[k]
\* C15: x -> a x + b per feature (means a mu + b, variances a^2 var, floor a^2 floor, same weights)
\* shifts every weighted log-density by  - sum_j log|a_j|
AffineShift ==
    Finished => \A a \in Scales, b \in Shifts :
        LET a2 == Sq(a)
            mm2 == [w |-> m.w,
                    mu |-> [c \in Comp |-> [j \in Feat |-> Add(Mul(a, m.mu[c][j]), R(b))]],
                    var |-> [c \in Comp |-> [j \in Feat |-> Mul(a2, m.var[c][j])]],
                    floor |-> Mul(a2, m.floor)]
            shift == LTScale(R(-D), LogOf(RAbs(a)))
        IN \A i \in Rows :
              \* transformed samples a*x + b must stay integers for R(): scales with denominator 1 only
              a[2] = 1 =>
              LET x2 == [j \in Feat |-> a[1] * batch[i][j] + b]
              IN \A c \in Comp : Cached(mm2, x2)[c] = LTAdd(out[i][c], shift)

Export == Finished => PrintT(ToJson([m |-> m, batch |-> batch, comp |-> comp, out |-> out]))
=============================================================================
