----------------------------- MODULE TrainLoop -----------------------------
(* The stopping rule shared by KMeansMachine.fit and GMMMachine.fit
   (kmeans.py:338-389, gmm.py:804-866), as guards over exact rationals.

     step = 0; cur = <initial>
     while cap is None or step < cap:
         step += 1; prev = cur; cur = one EM iteration
         if step > 1 and thr is not None and |(prev - cur) / prev| <= thr: stop

   The relative change is undefined when prev = 0 (0/0 or x/0 in floating point:
   the comparison is then false and the loop continues); the properties are silent
   about that case, so the design allows either continuation there.            *)
EXTENDS Rat

NoCap == -1
NoThr == <<-1, 1>>          \* a negative "threshold" stands for None

MayIterate(step, cap) == cap = NoCap \/ step < cap

\* the set of admissible outcomes of the convergence test made at the end of iteration `step`
ConvOutcomes(step, prev, cur, thr) ==
    IF step <= 1 \/ thr = NoThr THEN {FALSE}
    ELSE IF prev[2] = 0 \/ cur[2] = 0 THEN {FALSE}          \* inf / NaN never compare <=
    ELSE IF IsZero(prev) THEN BOOLEAN
    ELSE {Leq(RAbs(Sub(prev, cur)), Mul(thr, RAbs(prev)))}

\* status after iteration `step` given the outcome of the test
StatusAfter(step, cap, conv) ==
    IF conv THEN "done" ELSE IF MayIterate(step, cap) THEN "run" ELSE "done"

\* ---- the same rule over the abstraction used in recorded traces (M3):
\* rel \in {"na","le","gt","edge"} is the exact comparison made by the recorder
MustStop(step, rel, thrSet) == step > 1 /\ thrSet /\ rel = "le"
MayStop(step, rel, thrSet) == step > 1 /\ thrSet /\ rel \in {"le", "edge"}
=============================================================================
