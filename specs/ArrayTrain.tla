----------------------------- MODULE ArrayTrain -----------------------------
(* One training loop on a chunked (Dask) array, as a task graph run by an executor with two
   memory modes (gmm.py:802-841, kmeans.py:335-360, utils.py:29-34 array_to_delayed_list,
   factor_analysis.py:1281-1299 fit_using_array, ivector.py:295-325 for the bag analogue).

   The array is a grid of chunks: `rb` row blocks times `fb` feature blocks.  The design turns it
   into one E-step task per ROW block, each carrying all features of its rows; the deviation
   BLOCKS_SPLIT_FEATURE_AXIS transcribes `data.to_delayed().ravel()`, which makes one task per
   grid cell, so a task sees only some features of its rows.

   Executor.  `Build` submits the graph of one iteration: per-block E-step tasks that read the
   machine, and one M-step task that reduces their results, updates ITS machine and returns it.
   Tasks run one at a time in any topological order (TLC explores all).  In mode "Shared" tasks
   see the caller's live object (in-place mutation is visible to the caller); in mode "Isolated"
   every task works on a copy serialised when the graph was submitted and returns copies, as under
   a multi-process / distributed scheduler.  After the compute the caller copies the attributes in
   `CopyBack` from the returned machine (GMM: setattr loop; k-means, ISV, JFA: the returned value is
   assigned) and loops.

   Parameters are version tags per attribute: 0 initially, k after the k-th M-step that updates it.
   A contribution records the versions the E-step saw.                                            *)
EXTENDS Integers, Sequences, FiniteSets, TLC, Json

CONSTANTS MaxRB,        \* row blocks 1..MaxRB are explored
          FBs,          \* set of feature-block counts (1 = not split)
          MaxIter,
          Attrs,        \* parameter attributes of the machine
          UpdatedSets,  \* set of subsets of Attrs the M-step rewrites (the update switches)
          CopyBacks,    \* set of attribute lists the caller copies back (the design: Attrs)
          Modes,        \* subset of {"Shared", "Isolated"}
          Dev

VARIABLES rb, fb, mode, updated, copyback,     \* scenario
          iter, phase, host, snap, mret,       \* loop counter, "idle"|"E"|"C", caller's machine, submitted snapshot, returned machine
          edone, eres,                         \* E-step tasks finished; their results (versions seen, features carried)
          order                                \* execution order of the E-step tasks, per iteration (the schedule)
vars == <<rb, fb, mode, updated, copyback, iter, phase, host, snap, mret, edone, eres, order>>

Ver0 == [a \in Attrs |-> 0]
\* the E-step tasks of one iteration
Tasks == IF "BLOCKS_SPLIT_FEATURE_AXIS" \in Dev THEN (1..rb) \X (1..fb) ELSE (1..rb) \X {0}
FeaturesOf(t) == IF t[2] = 0 THEN 1..fb ELSE {t[2]}

Init == /\ rb \in 1..MaxRB /\ fb \in FBs /\ mode \in Modes
        /\ updated \in UpdatedSets /\ copyback \in CopyBacks
        /\ iter = 0 /\ phase = "idle" /\ host = Ver0 /\ snap = Ver0 /\ mret = Ver0
        /\ edone = {} /\ eres = <<>> /\ order = <<>>

Build == /\ phase = "idle" /\ iter < MaxIter
         /\ phase' = "E" /\ edone' = {} /\ eres' = <<>>
         /\ snap' = host                    \* what a serialising executor ships with the graph
         /\ order' = Append(order, <<>>)
         /\ UNCHANGED <<rb, fb, mode, updated, copyback, iter, host, mret>>
Seen == IF mode = "Shared" THEN host ELSE snap
RunE(t) == /\ phase = "E" /\ t \in Tasks /\ t \notin edone
           /\ edone' = edone \cup {t}
           /\ eres' = Append(eres, [task |-> t, saw |-> Seen, feats |-> FeaturesOf(t)])
           /\ order' = [order EXCEPT ![Len(order)] = Append(@, t)]
           /\ UNCHANGED <<rb, fb, mode, updated, copyback, iter, phase, host, snap, mret>>
Bump(m) == [a \in Attrs |-> IF a \in updated THEN iter + 1 ELSE m[a]]
RunM == /\ phase = "E" /\ edone = Tasks
        /\ IF mode = "Shared"
              THEN /\ host' = Bump(host) /\ mret' = Bump(host) /\ UNCHANGED snap     \* in place, on the caller's object
              ELSE /\ snap' = Bump(snap) /\ mret' = Bump(snap) /\ UNCHANGED host     \* on the worker's copy
        /\ phase' = "C"
        /\ UNCHANGED <<rb, fb, mode, updated, copyback, iter, edone, eres, order>>
CopyBack == /\ phase = "C"
            /\ host' = [a \in Attrs |-> IF a \in copyback THEN mret[a] ELSE host[a]]
            /\ iter' = iter + 1 /\ phase' = "idle"
            /\ UNCHANGED <<rb, fb, mode, updated, copyback, snap, mret, edone, eres, order>>
Next == Build \/ (\E t \in Tasks : RunE(t)) \/ RunM \/ CopyBack
Spec == Init /\ [][Next]_vars

\* ---------------- properties (C04)
Expected(k) == [a \in Attrs |-> IF a \in updated THEN k ELSE 0]
\* every row block contributes exactly once to each M-step, with all of its features
ExactlyOncePerIter == phase = "C" =>
    \A r \in 1..rb : Cardinality({i \in 1..Len(eres) : eres[i].task[1] = r /\ eres[i].feats = 1..fb}) = 1
EveryBlockCarriesAllFeatures == \A i \in 1..Len(eres) : eres[i].feats = 1..fb
\* every contribution was computed with the parameters of the current iteration
AllContribsAtCurrentVersion == phase # "idle" => \A i \in 1..Len(eres) : eres[i].saw = Expected(iter)
\* after each iteration the caller's machine holds the new parameters -- in both memory modes
HostFreshAfterIter == phase = "idle" => host = Expected(iter)
\* hence the run equals the sequential in-memory run, whatever the schedule
SameAsSequential == (phase = "idle" /\ iter = MaxIter) => host = Expected(MaxIter)

Export == (phase = "idle" /\ iter = MaxIter) =>
    PrintT(ToJson([rb |-> rb, fb |-> fb, mode |-> mode, updated |-> updated, order |-> order]))
=============================================================================
