------------------------------ MODULE LogTerm ------------------------------
(* Exact symbolic values of the form  q + p*log(2 pi) + l2*log 2 + l3*log 3 + l5*log 5
   with rational coefficients.  With weights and variances restricted to 2^i 3^j 5^k every
   per-component weighted Gaussian log-density is an exact element of this vector space;
   only the final log-sum-exp over components leaves it (evaluated outside TLC at 60 digits). *)
EXTENDS Rat

LT(q, p, l2, l3, l5) == [q |-> q, p |-> p, l2 |-> l2, l3 |-> l3, l5 |-> l5]
LTZero == LT(Zero, Zero, Zero, Zero, Zero)
LTConst(q) == LT(q, Zero, Zero, Zero, Zero)
LTAdd(a, b) == LT(Add(a.q, b.q), Add(a.p, b.p), Add(a.l2, b.l2), Add(a.l3, b.l3), Add(a.l5, b.l5))
LTScale(s, a) == LT(Mul(s, a.q), Mul(s, a.p), Mul(s, a.l2), Mul(s, a.l3), Mul(s, a.l5))
LTSub(a, b) == LTAdd(a, LTScale(R(-1), b))
Log2Pi == LT(Zero, One, Zero, Zero, Zero)

\* exponent of the prime pr in the positive integer n
RECURSIVE ExpOf(_, _)
ExpOf(n, pr) == IF n % pr = 0 THEN 1 + ExpOf(n \div pr, pr) ELSE 0
RECURSIVE Pow(_, _)
Pow(b, e) == IF e = 0 THEN 1 ELSE b * Pow(b, e - 1)
Smooth(n) == n = Pow(2, ExpOf(n, 2)) * Pow(3, ExpOf(n, 3)) * Pow(5, ExpOf(n, 5))
\* log of a positive rational whose numerator and denominator are 5-smooth
IsLoggable(r) == r[1] > 0 /\ Smooth(r[1]) /\ Smooth(r[2])
LogOf(r) == LT(Zero, Zero, R(ExpOf(r[1], 2) - ExpOf(r[2], 2)), R(ExpOf(r[1], 3) - ExpOf(r[2], 3)),
               R(ExpOf(r[1], 5) - ExpOf(r[2], 5)))
RECURSIVE LTSumOver(_, _)
LTSumOver(f, S) == IF S = {} THEN LTZero ELSE LET i == CHOOSE i \in S : TRUE IN LTAdd(f[i], LTSumOver(f, S \ {i}))
=============================================================================
