#!/bin/sh
# Offline setup: verify the tools the checks use and SANY-parse every specification module.
set -e
cd "$(dirname "$0")"
command -v java >/dev/null || { echo "java missing"; exit 1; }
test -f /opt/veriftools/tla/tla2tools.jar || { echo "tla2tools.jar missing"; exit 1; }
/venv/bin/python -c "import numpy, dask, scipy, h5py, sklearn, cloudpickle, bob.learn.em" || { echo "python environment incomplete"; exit 1; }
fail=0
for f in specs/*.tla; do
  out=$(cd specs && java -cp /opt/veriftools/tla/tla2tools.jar:/opt/veriftools/tla/CommunityModules-deps.jar tla2sany.SANY "$(basename "$f")" 2>&1) || true
  if echo "$out" | grep -q -E "\*\*\* Errors|Could not parse|Fatal errors|Semantic errors|Lexical error|Parse Error"; then
    echo "SANY failed on $f"; echo "$out" | tail -20; fail=1
  fi
done
[ $fail -eq 0 ] && echo "setup ok: $(ls specs/*.tla | wc -l) modules parsed"
exit $fail
